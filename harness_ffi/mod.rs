//! C20 — the binding layer maps every value to its namesake, losslessly.
//! Compiled INTO dnp3-ffi under `--cfg dnp3_verif` (hook H4): the conversions and the
//! database entry points are crate-private. Engine E4.
//!
//! E: every variant of every binding enumeration (enumerated through the generated
//!    `From<c_int>`) and every native enumeration value (enumerated through the library's own
//!    `from(u8)` constructors or an exhaustive list) is converted and the `Debug` names of both
//!    sides are compared after normalisation; injectivity; round trips where both directions exist.
//! S: struct conversions with every field set to a distinct sentinel.
//! D: random operation sequences applied through the binding entry points to one database and
//!    through the native API to another: same results, same `get`, same wire image.
#![allow(missing_docs, unreachable_pub, dead_code, unused, clippy::all)]

use crate::ffi;
use dnp3::app::control::*;
use dnp3::app::measurement::*;
use dnp3::app::*;
use dnp3::outstation::database::*;
use dnp3::verif::out::{self, J};
use dnp3::verif::rng::Rng;
use dnp3::verif::ShardArgs;
use std::fmt::Debug;
use std::os::raw::c_int;

const P: &str = "C20";

mod callbacks;
mod configs;

pub fn run(args: Vec<String>) -> i32 {
    dnp3::verif::run_with(args, |a| match a.check.as_str() {
        "c20" => c20(a),
        other => Err(format!("unknown check {other}")),
    })
}

fn replay(a: &ShardArgs, part: &str) -> J {
    J::obj(vec![
        ("check", J::s("c20")),
        ("seed", J::U(a.seed)),
        ("shard", J::U(a.shard)),
        ("nshards", J::U(a.nshards)),
        ("part", J::s(part)),
    ])
}

fn viol(a: &ShardArgs, rule: &str, sig: &str, why: String) {
    out::violation(
        P,
        &format!("C20.{rule}"),
        sig,
        J::obj(vec![("why", J::s(why))]),
        replay(a, rule),
    );
}

/// variant name of a Debug rendering, lower-cased without separators and payload
fn norm(d: &dyn Debug) -> String {
    let s = format!("{d:?}");
    let head: String = s
        .chars()
        .take_while(|c| c.is_alphanumeric() || *c == '_')
        .collect();
    head.to_lowercase().replace('_', "")
}

/// all variants of a generated binding enum, through its own From<c_int>
fn variants<T: From<c_int> + Debug + Clone + Send + 'static>() -> Vec<T> {
    // enumerated once per type (every miss is a caught panic)
    static CACHE: std::sync::Mutex<
        Option<std::collections::HashMap<std::any::TypeId, Box<dyn std::any::Any + Send>>>,
    > = std::sync::Mutex::new(None);
    {
        let mut g = CACHE.lock().unwrap_or_else(|e| e.into_inner());
        let m = g.get_or_insert_with(Default::default);
        if let Some(b) = m.get(&std::any::TypeId::of::<T>()) {
            if let Some(v) = b.downcast_ref::<Vec<T>>() {
                return v.clone();
            }
        }
    }
    let v = variants_uncached::<T>();
    let mut g = CACHE.lock().unwrap_or_else(|e| e.into_inner());
    g.get_or_insert_with(Default::default)
        .insert(std::any::TypeId::of::<T>(), Box::new(v.clone()));
    v
}

fn variants_uncached<T: From<c_int> + Debug + 'static>() -> Vec<T> {
    let mut v = vec![];
    // the interpreter pays dearly for every caught panic: a smaller scan there (the largest enumeration used under it has 8 variants)
    let top = if cfg!(miri) { 12 } else { 1100 };
    for i in 0..top {
        if let Ok(x) = std::panic::catch_unwind(|| T::from(i)) {
            v.push(x);
        }
    }
    let _ = dnp3::verif::util::take_panics();
    v
}

struct Tally<'a> {
    a: &'a ShardArgs,
    conv: &'static str,
    renames: &'static [(&'static str, &'static str)],
    seen: std::collections::BTreeMap<String, String>,
    /// distinct sources may share a target (the target type lacks the variant)
    allow_merge: &'static [&'static str],
}

impl<'a> Tally<'a> {
    fn new(
        a: &'a ShardArgs,
        conv: &'static str,
        renames: &'static [(&'static str, &'static str)],
        allow_merge: &'static [&'static str],
    ) -> Self {
        Tally {
            a,
            conv,
            renames,
            seen: Default::default(),
            allow_merge,
        }
    }
    fn pair(&mut self, src: &dyn Debug, dst: &dyn Debug) {
        out::eval(1);
        let (s, d) = (norm(src), norm(dst));
        let expected = self
            .renames
            .iter()
            .find(|(x, _)| x.to_lowercase() == s)
            .map(|(_, y)| y.to_lowercase())
            .unwrap_or(s.clone());
        if d != expected {
            viol(
                self.a,
                "name_mismatch",
                &format!("{}|{}", self.conv, s),
                format!("{}: {src:?} is converted to {dst:?}", self.conv),
            );
        } else {
            out::count("variants_map_to_namesake", 1);
        }
        // two different sources must not collapse into one target
        let full_dst = format!("{dst:?}");
        if let Some(prev) = self.seen.get(&full_dst) {
            if *prev != s && !self.allow_merge.iter().any(|m| m.to_lowercase() == d) {
                viol(
                    self.a,
                    "not_injective",
                    &format!("{}|{}", self.conv, d),
                    format!(
                        "{}: both {prev} and {s} are converted to {dst:?}",
                        self.conv
                    ),
                );
            }
        } else {
            self.seen.insert(full_dst, s);
        }
    }
    fn done(self, min: usize) {
        out::count(&format!("conversion_{}", self.conv), self.seen.len() as u64);
        out::distinct(&format!("conv/{}", self.conv));
        if self.seen.len() < min {
            viol(
                self.a,
                "enumeration_incomplete",
                self.conv,
                format!(
                    "{}: only {} variants were enumerated, at least {min} expected",
                    self.conv,
                    self.seen.len()
                ),
            );
        }
    }
}

macro_rules! ffi_to_native {
    ($a:expr, $name:literal, $ffi:ty, $native:ty, $min:expr, $renames:expr) => {{
        let mut t = Tally::new($a, $name, $renames, &[]);
        for f in variants::<$ffi>() {
            let n: $native = f.clone().into();
            t.pair(&f, &n);
        }
        t.done($min);
    }};
}

macro_rules! native_to_ffi {
    ($a:expr, $name:literal, $natives:expr, $ffi:ty, $min:expr, $renames:expr, $merge:expr) => {{
        let mut t = Tally::new($a, $name, $renames, $merge);
        for n in $natives {
            let f: $ffi = n.clone().into();
            t.pair(&n, &f);
        }
        t.done($min);
    }};
}

macro_rules! round_trip {
    ($a:expr, $name:literal, $ffi:ty, $native:ty) => {{
        for f in variants::<$ffi>() {
            let n: $native = f.clone().into();
            let back: $ffi = n.clone().into();
            out::eval(1);
            if back != f {
                viol(
                    $a,
                    "round_trip",
                    &format!("{}|{}", $name, norm(&f)),
                    format!("{}: {f:?} -> {n:?} -> {back:?}", $name),
                );
            } else {
                out::count("round_trips_ok", 1);
            }
        }
    }};
}

fn enums(a: &ShardArgs) {
    // ---- binding -> native
    ffi_to_native!(a, "FileMode", ffi::FileMode, dnp3::master::FileMode, 3, &[]);
    ffi_to_native!(
        a,
        "CommandMode",
        ffi::CommandMode,
        dnp3::master::CommandMode,
        2,
        &[]
    );
    ffi_to_native!(
        a,
        "TimeSyncMode",
        ffi::TimeSyncMode,
        dnp3::master::TimeSyncProcedure,
        3,
        &[]
    );
    ffi_to_native!(
        a,
        "FunctionCode(in)",
        ffi::FunctionCode,
        dnp3::app::FunctionCode,
        33,
        &[]
    );
    ffi_to_native!(
        a,
        "UpdateFlagsType",
        ffi::UpdateFlagsType,
        UpdateFlagsType,
        7,
        &[]
    );
    ffi_to_native!(
        a,
        "UdpSocketMode",
        ffi::UdpSocketMode,
        dnp3::udp::UdpSocketMode,
        2,
        &[]
    );
    ffi_to_native!(
        a,
        "LinkErrorMode",
        ffi::LinkErrorMode,
        dnp3::link::LinkErrorMode,
        2,
        &[]
    );
    ffi_to_native!(
        a,
        "LinkReadMode",
        ffi::LinkReadMode,
        dnp3::link::LinkReadMode,
        2,
        &[]
    );
    ffi_to_native!(
        a,
        "CommandStatus(in)",
        ffi::CommandStatus,
        CommandStatus,
        21,
        &[]
    );
    ffi_to_native!(
        a,
        "Variation(in)",
        ffi::Variation,
        Variation,
        100,
        &[("Group110", "Group110"), ("Group111", "Group111")]
    );
    ffi_to_native!(
        a,
        "AppDecodeLevel(in)",
        ffi::AppDecodeLevel,
        dnp3::decode::AppDecodeLevel,
        4,
        &[]
    );
    ffi_to_native!(
        a,
        "TransportDecodeLevel(in)",
        ffi::TransportDecodeLevel,
        dnp3::decode::TransportDecodeLevel,
        3,
        &[]
    );
    ffi_to_native!(
        a,
        "LinkDecodeLevel(in)",
        ffi::LinkDecodeLevel,
        dnp3::decode::LinkDecodeLevel,
        3,
        &[]
    );
    ffi_to_native!(
        a,
        "PhysDecodeLevel(in)",
        ffi::PhysDecodeLevel,
        dnp3::decode::PhysDecodeLevel,
        3,
        &[]
    );
    {
        // EventClass -> Option<EventClass>
        let mut t = Tally::new(
            a,
            "EventClass",
            &[
                ("None", "None"),
                ("Class1", "Some"),
                ("Class2", "Some"),
                ("Class3", "Some"),
            ],
            &[],
        );
        for f in variants::<ffi::EventClass>() {
            let n: Option<EventClass> = f.clone().into();
            // compare the payload name for Some(..)
            match (&f, &n) {
                (ffi::EventClass::None, None) => out::count("variants_map_to_namesake", 1),
                (_, Some(c)) if norm(c) == norm(&f) => out::count("variants_map_to_namesake", 1),
                _ => viol(
                    a,
                    "name_mismatch",
                    &format!("EventClass|{}", norm(&f)),
                    format!("EventClass: {f:?} is converted to {n:?}"),
                ),
            }
            t.seen.insert(format!("{n:?}"), norm(&f));
            out::eval(1);
        }
        t.done(4);
    }
    {
        // results reported by the outstation application
        let mut t = Tally::new(a, "WriteTimeResult", &[], &[]);
        for f in variants::<ffi::WriteTimeResult>() {
            let n: Result<(), dnp3::outstation::RequestError> = f.clone().into();
            let name = match &n {
                Ok(()) => "ok".to_string(),
                Err(e) => norm(e),
            };
            out::eval(1);
            if name != norm(&f) {
                viol(
                    a,
                    "name_mismatch",
                    &format!("WriteTimeResult|{}", norm(&f)),
                    format!("WriteTimeResult: {f:?} is converted to {n:?}"),
                );
            } else {
                out::count("variants_map_to_namesake", 1);
            }
            t.seen.insert(format!("{n:?}"), norm(&f));
        }
        t.done(3);
        let mut t = Tally::new(a, "FreezeResult", &[], &[]);
        for f in variants::<ffi::FreezeResult>() {
            let n: Result<(), dnp3::outstation::RequestError> = f.clone().into();
            let name = match &n {
                Ok(()) => "ok".to_string(),
                Err(e) => norm(e),
            };
            out::eval(1);
            if name != norm(&f) {
                viol(
                    a,
                    "name_mismatch",
                    &format!("FreezeResult|{}", norm(&f)),
                    format!("FreezeResult: {f:?} is converted to {n:?}"),
                );
            } else {
                out::count("variants_map_to_namesake", 1);
            }
            t.seen.insert(format!("{n:?}"), norm(&f));
        }
        t.done(3);
    }
    // ---- native -> binding (native values enumerated through the library's own constructors)
    let all_status: Vec<CommandStatus> = (0..=255u8).map(CommandStatus::from).collect();
    native_to_ffi!(
        a,
        "CommandStatus(out)",
        all_status,
        ffi::CommandStatus,
        21,
        &[],
        &["Unknown"]
    );
    let all_fc: Vec<dnp3::app::FunctionCode> = (0..=255u8)
        .filter_map(dnp3::app::FunctionCode::from)
        .collect();
    native_to_ffi!(
        a,
        "FunctionCode(out)",
        all_fc,
        ffi::FunctionCode,
        33,
        &[],
        &[]
    );
    let codes: Vec<ControlCode> = (0..=255u8)
        .map(dnp3::verif::util::control_code_from)
        .collect();
    {
        let mut t1 = Tally::new(a, "TripCloseCode(out)", &[("Unknown", "Nul")], &["Nul"]);
        let mut t2 = Tally::new(a, "OpType(out)", &[("Unknown", "Nul")], &["Nul"]);
        for c in &codes {
            let f: ffi::ControlCode = (*c).into();
            t1.pair(&c.tcc, &f.tcc());
            t2.pair(&c.op_type, &f.op_type());
            out::eval(1);
            if f.clear() != c.clear || f.queue() != c.queue {
                viol(
                    a,
                    "field_lost",
                    "ControlCode|clear-queue",
                    format!(
                        "ControlCode {c:?}: clear/queue converted to {}/{}",
                        f.clear(),
                        f.queue()
                    ),
                );
            }
            // and back, for the codes the binding can express
            if !matches!(c.tcc, TripCloseCode::Unknown(_))
                && !matches!(c.op_type, OpType::Unknown(_))
            {
                let back: ControlCode = f.into();
                if dnp3::verif::util::control_code_as_u8(back)
                    != dnp3::verif::util::control_code_as_u8(*c)
                {
                    viol(
                        a,
                        "round_trip",
                        "ControlCode",
                        format!(
                            "ControlCode {:#04x} -> binding -> {:#04x}",
                            dnp3::verif::util::control_code_as_u8(*c),
                            dnp3::verif::util::control_code_as_u8(back)
                        ),
                    );
                } else {
                    out::count("round_trips_ok", 1);
                }
            }
        }
        t1.done(4);
        t2.done(5);
    }
    native_to_ffi!(
        a,
        "OperateType",
        [
            dnp3::outstation::OperateType::SelectBeforeOperate,
            dnp3::outstation::OperateType::DirectOperate,
            dnp3::outstation::OperateType::DirectOperateNoAck
        ],
        ffi::OperateType,
        3,
        &[],
        &[]
    );
    native_to_ffi!(
        a,
        "BroadcastAction",
        [
            dnp3::outstation::BroadcastAction::Processed,
            dnp3::outstation::BroadcastAction::IgnoredByConfiguration,
            dnp3::outstation::BroadcastAction::BadObjectHeaders,
            dnp3::outstation::BroadcastAction::UnsupportedFunction(dnp3::app::FunctionCode::Write)
        ],
        ffi::BroadcastAction,
        4,
        &[],
        &[]
    );
    native_to_ffi!(
        a,
        "ConnectionState",
        [
            dnp3::outstation::ConnectionState::Connected,
            dnp3::outstation::ConnectionState::Disconnected
        ],
        ffi::ConnectionState,
        2,
        &[],
        &[]
    );
    native_to_ffi!(
        a,
        "ClientState",
        [
            dnp3::tcp::ClientState::Disabled,
            dnp3::tcp::ClientState::Connecting,
            dnp3::tcp::ClientState::Connected,
            dnp3::tcp::ClientState::WaitAfterFailedConnect(std::time::Duration::from_secs(1)),
            dnp3::tcp::ClientState::WaitAfterDisconnect(std::time::Duration::from_secs(1)),
            dnp3::tcp::ClientState::Shutdown
        ],
        ffi::ClientState,
        6,
        &[],
        &[]
    );
    native_to_ffi!(
        a,
        "ReadType",
        [
            dnp3::master::ReadType::Unsolicited,
            dnp3::master::ReadType::StartupIntegrity,
            dnp3::master::ReadType::PeriodicPoll,
            dnp3::master::ReadType::SinglePoll
        ],
        ffi::ReadType,
        4,
        &[],
        &[]
    );
    {
        use dnp3::master::TaskType as T;
        // exhaustive list: the match below stops compiling when a variant is added
        let all = [
            T::UserRead,
            T::PeriodicPoll,
            T::StartupIntegrity,
            T::AutoEventScan,
            T::Command,
            T::ClearRestartBit,
            T::EnableUnsolicited,
            T::DisableUnsolicited,
            T::TimeSync,
            T::Restart,
            T::WriteDeadBands,
            T::GenericEmptyResponse(dnp3::app::FunctionCode::Write),
            T::FileRead,
            T::GetFileInfo,
            T::FileAuth,
            T::FileOpen,
            T::FileWriteBlock,
            T::FileClose,
        ];
        for t in &all {
            match t {
                T::UserRead
                | T::PeriodicPoll
                | T::StartupIntegrity
                | T::AutoEventScan
                | T::Command
                | T::ClearRestartBit
                | T::EnableUnsolicited
                | T::DisableUnsolicited
                | T::TimeSync
                | T::Restart
                | T::WriteDeadBands
                | T::GenericEmptyResponse(_)
                | T::FileRead
                | T::GetFileInfo
                | T::FileAuth
                | T::FileOpen
                | T::FileWriteBlock
                | T::FileClose => {}
            }
        }
        native_to_ffi!(a, "TaskType", all, ffi::TaskType, 18, &[], &[]);
    }
    {
        let all = [
            UpdateInfo::NoPoint,
            UpdateInfo::NoEvent,
            UpdateInfo::Created(7),
            UpdateInfo::Overflow {
                created: 9,
                discarded: 4,
            },
        ];
        let mut t = Tally::new(a, "UpdateInfo", &[], &[]);
        for n in all {
            let f: ffi::UpdateInfo = n.into();
            t.pair(&n, &f.result());
            out::eval(1);
            let (c, d) = match n {
                UpdateInfo::Created(c) => (c, 0),
                UpdateInfo::Overflow { created, discarded } => (created, discarded),
                _ => (0, 0),
            };
            if f.created() != c || f.discarded() != d {
                viol(
                    a,
                    "field_lost",
                    "UpdateInfo|ids",
                    format!(
                        "{n:?} converted with created={} discarded={}",
                        f.created(),
                        f.discarded()
                    ),
                );
            }
        }
        t.done(4);
    }
    errors(a);
    attributes(a);
    // ---- both directions exist: identity
    round_trip!(a, "Variation", ffi::Variation, Variation);
    round_trip!(
        a,
        "AppDecodeLevel",
        ffi::AppDecodeLevel,
        dnp3::decode::AppDecodeLevel
    );
    round_trip!(
        a,
        "TransportDecodeLevel",
        ffi::TransportDecodeLevel,
        dnp3::decode::TransportDecodeLevel
    );
    round_trip!(
        a,
        "LinkDecodeLevel",
        ffi::LinkDecodeLevel,
        dnp3::decode::LinkDecodeLevel
    );
    round_trip!(
        a,
        "PhysDecodeLevel",
        ffi::PhysDecodeLevel,
        dnp3::decode::PhysDecodeLevel
    );
    round_trip!(a, "CommandStatus", ffi::CommandStatus, CommandStatus);
    round_trip!(
        a,
        "FunctionCode",
        ffi::FunctionCode,
        dnp3::app::FunctionCode
    );
}

/// what a task error is called on the binding side (written from the meaning of the variants, not from the binding code)
fn task_error_name(e: &dnp3::master::TaskError) -> &'static str {
    use dnp3::master::TaskError as T;
    match e {
        T::TooManyRequests => "toomanyrequests",
        // no usable connection
        T::Link(_) | T::Transport | T::NoConnection | T::Disabled => "noconnection",
        // a response arrived but could not be used
        T::MalformedResponse(_)
        | T::UnexpectedResponseHeaders
        | T::NonFinWithoutCon
        | T::NeverReceivedFir
        | T::UnexpectedFir
        | T::MultiFragmentResponse => "badresponse",
        T::ResponseTimeout => "responsetimeout",
        T::WriteError => "writeerror",
        T::NoSuchAssociation(_) => "associationremoved",
        T::Shutdown => "shutdown",
        T::BadEncoding(_) => "badencoding",
        T::RejectedByIin2(_) => "iinerror",
    }
}

fn all_task_errors() -> Vec<dnp3::master::TaskError> {
    use dnp3::master::TaskError as T;
    let iin = dnp3::app::Iin::new(dnp3::app::Iin1::new(0), dnp3::app::Iin2::new(4));
    vec![
        T::TooManyRequests,
        T::Link(dnp3::verif::util::some_link_error()),
        T::Transport,
        T::RejectedByIin2(iin),
        T::MalformedResponse(dnp3::verif::util::some_object_parse_error()),
        T::UnexpectedResponseHeaders,
        T::NonFinWithoutCon,
        T::NeverReceivedFir,
        T::UnexpectedFir,
        T::MultiFragmentResponse,
        T::ResponseTimeout,
        T::WriteError,
        T::BadEncoding(dnp3::verif::util::some_bad_encoding()),
        T::NoSuchAssociation(dnp3::link::EndpointAddress::try_new(7).unwrap()),
        T::NoConnection,
        T::Shutdown,
        T::Disabled,
    ]
}

/// error types: every native variant (payload variants with a representative payload) against a
/// hand-written statement of what it is called on the binding side
fn errors(a: &ShardArgs) {
    use dnp3::master::*;
    macro_rules! task_errors_into {
        ($ffi:ident) => {{
            let mut n = 0;
            for e in all_task_errors() {
                let f: ffi::$ffi = e.into();
                out::eval(1);
                if norm(&f) != task_error_name(&e) {
                    viol(
                        a,
                        "name_mismatch",
                        &format!("TaskError->{}|{}", stringify!($ffi), norm(&e)),
                        format!("{e:?} is converted to {}::{f:?}", stringify!($ffi)),
                    );
                } else {
                    out::count("variants_map_to_namesake", 1);
                }
                n += 1;
            }
            out::count(concat!("conversion_TaskError->", stringify!($ffi)), n);
            out::distinct(concat!("conv/TaskError->", stringify!($ffi)));
        }};
    }
    task_errors_into!(CommandError);
    task_errors_into!(TimeSyncError);
    task_errors_into!(RestartError);
    task_errors_into!(ReadError);
    task_errors_into!(LinkStatusError);
    task_errors_into!(TaskError);
    task_errors_into!(EmptyResponseError);
    task_errors_into!(FileError);
    // command errors
    {
        let mut cases: Vec<(CommandError, String)> = vec![];
        for e in all_task_errors() {
            cases.push((CommandError::Task(e), task_error_name(&e).into()));
            cases.push((
                CommandError::Response(CommandResponseError::Request(e)),
                task_error_name(&e).into(),
            ));
        }
        cases.push((
            CommandError::Response(CommandResponseError::BadStatus(CommandStatus::Timeout)),
            "badstatus".into(),
        ));
        for r in [
            CommandResponseError::HeaderCountMismatch,
            CommandResponseError::HeaderTypeMismatch,
            CommandResponseError::ObjectCountMismatch,
            CommandResponseError::ObjectValueMismatch,
        ] {
            cases.push((CommandError::Response(r), "headermismatch".into()));
        }
        for (e, want) in cases {
            let f: ffi::CommandError = e.into();
            out::eval(1);
            if norm(&f) != want {
                viol(
                    a,
                    "name_mismatch",
                    &format!("CommandError|{want}"),
                    format!("{e:?} is converted to {f:?}"),
                );
            } else {
                out::count("variants_map_to_namesake", 1);
            }
        }
        out::distinct("conv/CommandError");
    }
    // time synchronisation errors
    {
        let mut cases: Vec<(TimeSyncError, String)> = all_task_errors()
            .into_iter()
            .map(|e| (TimeSyncError::Task(e), task_error_name(&e).to_string()))
            .collect();
        cases.push((TimeSyncError::ClockRollback, "clockrollback".into()));
        cases.push((TimeSyncError::SystemTimeNotUnix, "systemtimenotunix".into()));
        cases.push((
            TimeSyncError::BadOutstationTimeDelay(9),
            "badoutstationtimedelay".into(),
        ));
        cases.push((TimeSyncError::Overflow, "overflow".into()));
        cases.push((TimeSyncError::StillNeedsTime, "stillneedstime".into()));
        cases.push((
            TimeSyncError::SystemTimeNotAvailable,
            "systemtimenotavailable".into(),
        ));
        cases.push((
            TimeSyncError::IinError(dnp3::app::Iin2::new(4)),
            "iinerror".into(),
        ));
        for (e, want) in cases {
            let f: ffi::TimeSyncError = e.into();
            out::eval(1);
            if norm(&f) != want {
                viol(
                    a,
                    "name_mismatch",
                    &format!("TimeSyncError|{want}"),
                    format!("{e:?} is converted to {f:?}"),
                );
            } else {
                out::count("variants_map_to_namesake", 1);
            }
        }
        out::distinct("conv/TimeSyncError");
    }
    // file errors and file types
    {
        let mut cases: Vec<(FileError, String)> = all_task_errors()
            .into_iter()
            .map(|e| (FileError::TaskError(e), task_error_name(&e).to_string()))
            .collect();
        for (e, n) in [
            (FileError::BadResponse, "badresponse"),
            (
                FileError::BadStatus(dnp3::app::FileStatus::FileLocked),
                "badstatus",
            ),
            (FileError::WrongHandle, "wronghandle"),
            (FileError::NoPermission, "nopermission"),
            (FileError::BadBlockNum, "badblocknum"),
            (FileError::AbortByUser, "abortbyuser"),
            (FileError::MaxLengthExceeded, "maxlengthexceeded"),
        ] {
            cases.push((e, n.into()));
        }
        for (e, want) in cases {
            let f: ffi::FileError = e.into();
            out::eval(1);
            if norm(&f) != want {
                viol(
                    a,
                    "name_mismatch",
                    &format!("FileError|{want}"),
                    format!("{e:?} is converted to {f:?}"),
                );
            } else {
                out::count("variants_map_to_namesake", 1);
            }
        }
        for (t, want) in [
            (dnp3::app::FileType::Directory, "directory"),
            (dnp3::app::FileType::File, "simple"),
            (dnp3::app::FileType::Other(9), "other"),
        ] {
            let f: ffi::FileType = t.into();
            out::eval(1);
            if norm(&f) != want {
                viol(
                    a,
                    "name_mismatch",
                    &format!("FileType|{want}"),
                    format!("{t:?} is converted to {f:?}"),
                );
            } else {
                out::count("variants_map_to_namesake", 1);
            }
        }
        out::distinct("conv/FileError");
    }
    // write errors, association / poll errors
    {
        for e in all_task_errors() {
            let f: ffi::EmptyResponseError = WriteError::Task(e).into();
            out::eval(1);
            if norm(&f) != task_error_name(&e) {
                viol(
                    a,
                    "name_mismatch",
                    &format!("WriteError|{}", task_error_name(&e)),
                    format!("WriteError::Task({e:?}) is converted to {f:?}"),
                );
            } else {
                out::count("variants_map_to_namesake", 1);
            }
        }
        let f: ffi::EmptyResponseError = WriteError::IinError(dnp3::app::Iin2::new(4)).into();
        if norm(&f) != "rejectedbyiin2" {
            viol(
                a,
                "name_mismatch",
                "WriteError|iinerror",
                format!("WriteError::IinError is converted to {f:?}"),
            );
        }
        let addr = dnp3::link::EndpointAddress::try_new(7).unwrap();
        for (e, want) in [
            (AssociationError::Shutdown, "masteralreadyshutdown"),
            (
                AssociationError::DuplicateAddress(addr),
                "associationduplicateaddress",
            ),
        ] {
            let f: ffi::ParamError = e.into();
            out::eval(1);
            if norm(&f) != want {
                viol(
                    a,
                    "name_mismatch",
                    &format!("AssociationError|{want}"),
                    format!("{e:?} is converted to {f:?}"),
                );
            } else {
                out::count("variants_map_to_namesake", 1);
            }
        }
        for (e, want) in [
            (PollError::Shutdown, "masteralreadyshutdown"),
            (
                PollError::NoSuchAssociation(addr),
                "associationdoesnotexist",
            ),
        ] {
            let f: ffi::ParamError = e.into();
            out::eval(1);
            if norm(&f) != want {
                viol(
                    a,
                    "name_mismatch",
                    &format!("PollError|{want}"),
                    format!("{e:?} is converted to {f:?}"),
                );
            } else {
                out::count("variants_map_to_namesake", 1);
            }
        }
        out::distinct("conv/ParamError");
    }
}

/// device attribute enumerations: exhaustive variant lists (the match inside the macro stops compiling when the
/// library gains a variant), converted and compared by name
fn attributes(a: &ShardArgs) {
    use dnp3::app::attr::*;
    macro_rules! attr_enum {
        ($name:literal, $native:ident, $ffi:ty, [$($v:ident),* $(,)?]) => {{
            let all = [$($native::$v),*];
            for x in &all {
                match x {
                    $($native::$v => {})*
                }
            }
            let n = all.len();
            native_to_ffi!(a, $name, all, $ffi, n, &[], &[]);
        }};
    }
    attr_enum!(
        "VariationListAttr",
        VariationListAttr,
        ffi::VariationListAttr,
        [ListOfVariations]
    );
    attr_enum!(
        "OctetStringAttr",
        OctetStringAttr,
        ffi::OctetStringAttr,
        [ConfigDigest]
    );
    attr_enum!(
        "StringAttr",
        StringAttr,
        ffi::StringAttr,
        [
            ConfigId,
            ConfigVersion,
            ConfigDigestAlgorithm,
            MasterResourceId,
            UserAssignedSecondaryOperatorName,
            UserAssignedPrimaryOperatorName,
            UserAssignedSystemName,
            UserSpecificAttributes,
            DeviceManufacturerSoftwareVersion,
            DeviceManufacturerHardwareVersion,
            UserAssignedOwnerName,
            UserAssignedLocation,
            UserAssignedId,
            UserAssignedDeviceName,
            DeviceSerialNumber,
            DeviceSubsetAndConformance,
            ProductNameAndModel,
            DeviceManufacturersName
        ]
    );
    attr_enum!(
        "UIntAttr",
        UIntAttr,
        ffi::UintAttr,
        [
            SecureAuthVersion,
            NumSecurityStatsPerAssoc,
            NumMasterDefinedDataSetProto,
            NumOutstationDefinedDataSetProto,
            NumMasterDefinedDataSets,
            NumOutstationDefinedDataSets,
            MaxBinaryOutputPerRequest,
            LocalTimingAccuracy,
            DurationOfTimeAccuracy,
            MaxAnalogOutputIndex,
            NumAnalogOutputs,
            MaxBinaryOutputIndex,
            NumBinaryOutputs,
            MaxCounterIndex,
            NumCounter,
            MaxAnalogInputIndex,
            NumAnalogInput,
            MaxDoubleBitBinaryInputIndex,
            NumDoubleBitBinaryInput,
            MaxBinaryInputIndex,
            NumBinaryInput,
            MaxTxFragmentSize,
            MaxRxFragmentSize
        ]
    );
    attr_enum!(
        "FloatAttr",
        FloatAttr,
        ffi::FloatAttr,
        [
            DeviceLocationAltitude,
            DeviceLocationLongitude,
            DeviceLocationLatitude
        ]
    );
    attr_enum!(
        "BoolAttr",
        BoolAttr,
        ffi::BoolAttr,
        [
            SupportsAnalogOutputEvents,
            SupportsBinaryOutputEvents,
            SupportsFrozenCounterEvents,
            SupportsFrozenCounters,
            SupportsCounterEvents,
            SupportsFrozenAnalogInputs,
            SupportsAnalogInputEvents,
            SupportsDoubleBitBinaryInputEvents,
            SupportsBinaryInputEvents
        ]
    );
    attr_enum!(
        "TimeAttr",
        TimeAttr,
        ffi::TimeAttr,
        [ConfigBuildDate, ConfigLastChangeDate]
    );
}

fn time_of(q: c_int, v: u64) -> ffi::Timestamp {
    ffi::Timestamp {
        value: v,
        quality: q,
    }
}

fn structs(a: &ShardArgs) {
    let mut r = a.rng("c20/structs");
    // flags: every octet, both ways
    for v in 0..=255u8 {
        let n: Flags = (&ffi::Flags { value: v }).into();
        let back: ffi::Flags = n.into();
        out::eval(1);
        if n.value != v || back.value != v {
            viol(
                a,
                "field_lost",
                "Flags",
                format!(
                    "flag octet {v:#04x} converted to {:#04x} and back to {:#04x}",
                    n.value, back.value
                ),
            );
        } else {
            out::count("flags_ok", 1);
        }
    }
    // time: three qualities x values
    let qualities = variants::<ffi::TimeQuality>();
    for q in &qualities {
        for v in [
            0u64,
            1,
            0x0000_FFFF_FFFF_FFFF,
            1_600_000_000_000,
            r.u64() & 0x0000_FFFF_FFFF_FFFF,
        ] {
            let f = time_of(q.clone().into(), v);
            let n: Option<Time> = (&f).into();
            let want = match q {
                ffi::TimeQuality::InvalidTime => None,
                ffi::TimeQuality::SynchronizedTime => Some(Time::synchronized(v)),
                ffi::TimeQuality::UnsynchronizedTime => Some(Time::unsynchronized(v)),
            };
            out::eval(1);
            if n != want {
                viol(
                    a,
                    "field_lost",
                    &format!("Timestamp|{}", norm(q)),
                    format!("time ({q:?}, {v}) converted to {n:?}"),
                );
            } else {
                out::count("timestamps_ok", 1);
            }
            let back: ffi::Timestamp = n.into();
            if back.quality() != *q || (n.is_some() && back.value() != v) {
                viol(
                    a,
                    "round_trip",
                    &format!("Timestamp|{}", norm(q)),
                    format!(
                        "time ({q:?}, {v}) -> {n:?} -> ({:?}, {})",
                        back.quality(),
                        back.value()
                    ),
                );
            } else {
                out::count("round_trips_ok", 1);
            }
        }
    }
    if qualities.len() != 3 {
        viol(
            a,
            "enumeration_incomplete",
            "TimeQuality",
            format!("{} time qualities", qualities.len()),
        );
    }
    // update options
    for us in [false, true] {
        for m in variants::<ffi::EventMode>() {
            let f = ffi::UpdateOptions {
                update_static: us,
                event_mode: m.clone().into(),
            };
            let n: UpdateOptions = f.into();
            let txt = format!("{n:?}").to_lowercase();
            out::eval(1);
            if !txt.contains(&format!("update_static: {us}")) || !txt.contains(&norm(&m)) {
                viol(
                    a,
                    "field_lost",
                    &format!("UpdateOptions|{}", norm(&m)),
                    format!("update options (static={us}, {m:?}) converted to {n:?}"),
                );
            } else {
                out::count("update_options_ok", 1);
            }
        }
    }
    // measurements: every field a distinct sentinel, binding -> native and native -> binding
    for _ in 0..400 {
        let idx = r.u16();
        let flags = r.u8();
        let q = r.pick(&qualities).clone();
        let tv = r.u64() & 0x0000_FFFF_FFFF_FFFF;
        let t = time_of(q.clone().into(), tv);
        let want_time: Option<Time> = (&t).into();
        let fl = ffi::Flags { value: flags };
        macro_rules! meas {
            ($name:literal, $ffi:ident, $native:ident, $val:expr, $fval:expr) => {{
                let val = $val;
                let f = ffi::$ffi { index: idx, value: $fval(val.clone()), flags: fl.clone(), time: t.clone() };
                let n: $native = f.into();
                out::eval(1);
                if n.value != val || n.flags.value != flags || n.time != want_time {
                    viol(a, "field_lost", concat!($name, "(in)"), format!("{} (value {:?}, flags {flags:#04x}, time {want_time:?}) converted to {n:?}", $name, val));
                } else {
                    out::count("measurements_in_ok", 1);
                }
                let back = ffi::$ffi::new(idx, n);
                let nb: $native = back.clone().into();
                if back.index != idx || nb != n {
                    viol(a, "field_lost", concat!($name, "(out)"), format!("{} {n:?} at index {idx} converted to index {} {nb:?}", $name, back.index));
                } else {
                    out::count("measurements_out_ok", 1);
                }
            }};
        }
        meas!("BinaryInput", BinaryInput, BinaryInput, r.bool(), |v| v);
        meas!(
            "BinaryOutputStatus",
            BinaryOutputStatus,
            BinaryOutputStatus,
            r.bool(),
            |v| v
        );
        meas!("Counter", Counter, Counter, r.u64() as u32, |v| v);
        meas!(
            "FrozenCounter",
            FrozenCounter,
            FrozenCounter,
            r.u64() as u32,
            |v| v
        );
        meas!(
            "AnalogInput",
            AnalogInput,
            AnalogInput,
            (r.u64() as i64 as f64) / 7.0,
            |v| v
        );
        meas!(
            "AnalogOutputStatus",
            AnalogOutputStatus,
            AnalogOutputStatus,
            (r.u64() as i64 as f64) / 3.0,
            |v| v
        );
        {
            let dbs = variants::<ffi::DoubleBit>();
            let d = r.pick(&dbs).clone();
            let f = ffi::DoubleBitBinaryInput {
                index: idx,
                value: d.clone().into(),
                flags: fl.clone(),
                time: t.clone(),
            };
            let n: DoubleBitBinaryInput = f.into();
            out::eval(1);
            if norm(&n.value) != norm(&d) || n.flags.value != flags || n.time != want_time {
                viol(a, "field_lost", "DoubleBitBinaryInput(in)", format!("double-bit ({d:?}, flags {flags:#04x}, time {want_time:?}) converted to {n:?}"));
            } else {
                out::count("measurements_in_ok", 1);
            }
            let back = ffi::DoubleBitBinaryInput::new(idx, n);
            if back.index != idx || back.value() != d {
                viol(
                    a,
                    "field_lost",
                    "DoubleBitBinaryInput(out)",
                    format!("double-bit {n:?} converted to {:?}", back.value()),
                );
            } else {
                out::count("measurements_out_ok", 1);
            }
        }
    }
    // control field, IIN bits, headers
    for bits in 0..=255u8 {
        let i1: ffi::Iin1 = dnp3::app::Iin1::new(bits).into();
        let got1 = (i1.broadcast as u8)
            | (i1.class_1_events as u8) << 1
            | (i1.class_2_events as u8) << 2
            | (i1.class_3_events as u8) << 3
            | (i1.need_time as u8) << 4
            | (i1.local_control as u8) << 5
            | (i1.device_trouble as u8) << 6
            | (i1.device_restart as u8) << 7;
        let i2: ffi::Iin2 = dnp3::app::Iin2::new(bits).into();
        let got2 = (i2.no_func_code_support as u8)
            | (i2.object_unknown as u8) << 1
            | (i2.parameter_error as u8) << 2
            | (i2.event_buffer_overflow as u8) << 3
            | (i2.already_executing as u8) << 4
            | (i2.config_corrupt as u8) << 5
            | (i2.reserved_2 as u8) << 6
            | (i2.reserved_1 as u8) << 7;
        out::eval(2);
        if got1 != bits {
            viol(
                a,
                "field_lost",
                "Iin1",
                format!("IIN1 {bits:#04x}: the named bits read back as {got1:#04x}"),
            );
        } else {
            out::count("iin_ok", 1);
        }
        if got2 != bits {
            viol(
                a,
                "field_lost",
                "Iin2",
                format!("IIN2 {bits:#04x}: the named bits read back as {got2:#04x}"),
            );
        } else {
            out::count("iin_ok", 1);
        }
    }
    // event buffer configuration: eight distinct sizes, both ways
    {
        let n = dnp3::outstation::database::EventBufferConfig::new(1, 2, 3, 4, 5, 6, 7, 8);
        let f: ffi::EventBufferConfig = n.into();
        let back: dnp3::outstation::database::EventBufferConfig = (&f).into();
        out::eval(1);
        if format!("{back:?}") != format!("{n:?}") {
            viol(
                a,
                "round_trip",
                "EventBufferConfig",
                format!("{n:?} -> binding -> {back:?}"),
            );
        } else {
            out::count("round_trips_ok", 1);
        }
    }
    // restart delay
    for (n, name) in [
        (None, "notsupported"),
        (Some(dnp3::outstation::RestartDelay::Seconds(7)), "seconds"),
        (
            Some(dnp3::outstation::RestartDelay::Milliseconds(9)),
            "milliseconds",
        ),
    ] {
        let f: ffi::RestartDelay = n.into();
        let back: Option<dnp3::outstation::RestartDelay> = f.clone().into();
        out::eval(1);
        if norm(&f.restart_type()) != name || back != n {
            viol(
                a,
                "round_trip",
                &format!("RestartDelay|{name}"),
                format!("{n:?} -> {:?}/{} -> {back:?}", f.restart_type(), f.value()),
            );
        } else {
            out::count("round_trips_ok", 1);
        }
    }
    // application IIN: 16 combinations
    for bits in 0..16u8 {
        let f = ffi::ApplicationIin {
            need_time: bits & 1 != 0,
            local_control: bits & 2 != 0,
            device_trouble: bits & 4 != 0,
            config_corrupt: bits & 8 != 0,
        };
        let n: dnp3::outstation::ApplicationIin = f.into();
        out::eval(1);
        if (
            n.need_time,
            n.local_control,
            n.device_trouble,
            n.config_corrupt,
        ) != (bits & 1 != 0, bits & 2 != 0, bits & 4 != 0, bits & 8 != 0)
        {
            viol(
                a,
                "field_lost",
                "ApplicationIin",
                format!("application IIN bits {bits:#06b} converted to {n:?}"),
            );
        } else {
            out::count("application_iin_ok", 1);
        }
    }
    // class zero configuration: one field at a time
    for k in 0..8 {
        let b = |i: usize| i == k;
        let f = ffi::ClassZeroConfig {
            binary: b(0),
            double_bit_binary: b(1),
            binary_output_status: b(2),
            counter: b(3),
            frozen_counter: b(4),
            analog: b(5),
            analog_output_status: b(6),
            octet_string: b(7),
        };
        let n: dnp3::outstation::database::ClassZeroConfig = f.into();
        let got = [
            n.binary,
            n.double_bit_binary,
            n.binary_output_status,
            n.counter,
            n.frozen_counter,
            n.analog,
            n.analog_output_status,
            n.octet_string,
        ];
        out::eval(1);
        if (0..8).any(|i| got[i] != b(i)) {
            viol(
                a,
                "field_lost",
                &format!("ClassZeroConfig|{k}"),
                format!("class zero field {k} converted to {n:?}"),
            );
        } else {
            out::count("class_zero_ok", 1);
        }
    }
    // point configurations: every static x event variation (and dead-bands)
    macro_rules! cfgs {
        ($name:literal, $fcfg:ident, $ncfg:ident, $fs:ident, $fe:ident, $build:expr) => {{
            let mut n = 0;
            for s in variants::<ffi::$fs>() {
                for e in variants::<ffi::$fe>() {
                    let f: ffi::$fcfg = $build(s.clone(), e.clone());
                    let c: $ncfg = f.into();
                    out::eval(1);
                    if norm(&c.s_var) != norm(&s) || norm(&c.e_var) != norm(&e) {
                        viol(
                            a,
                            "name_mismatch",
                            &format!("{}|{}|{}", $name, norm(&s), norm(&e)),
                            format!(
                                "{}: ({s:?}, {e:?}) converted to ({:?}, {:?})",
                                $name, c.s_var, c.e_var
                            ),
                        );
                    } else {
                        out::count("variants_map_to_namesake", 1);
                    }
                    n += 1;
                }
            }
            out::count(concat!("conversion_", $name), n);
            out::distinct(concat!("conv/", $name));
        }};
    }
    cfgs!(
        "BinaryInputConfig",
        BinaryInputConfig,
        BinaryInputConfig,
        StaticBinaryInputVariation,
        EventBinaryInputVariation,
        |s: ffi::StaticBinaryInputVariation, e: ffi::EventBinaryInputVariation| {
            ffi::BinaryInputConfig {
                static_variation: s.into(),
                event_variation: e.into(),
            }
        }
    );
    cfgs!(
        "DoubleBitBinaryInputConfig",
        DoubleBitBinaryInputConfig,
        DoubleBitBinaryInputConfig,
        StaticDoubleBitBinaryInputVariation,
        EventDoubleBitBinaryInputVariation,
        |s: ffi::StaticDoubleBitBinaryInputVariation,
         e: ffi::EventDoubleBitBinaryInputVariation| ffi::DoubleBitBinaryInputConfig {
            static_variation: s.into(),
            event_variation: e.into()
        }
    );
    cfgs!(
        "BinaryOutputStatusConfig",
        BinaryOutputStatusConfig,
        BinaryOutputStatusConfig,
        StaticBinaryOutputStatusVariation,
        EventBinaryOutputStatusVariation,
        |s: ffi::StaticBinaryOutputStatusVariation, e: ffi::EventBinaryOutputStatusVariation| {
            ffi::BinaryOutputStatusConfig {
                static_variation: s.into(),
                event_variation: e.into(),
            }
        }
    );
    for db in [0u32, 1, 77, u32::MAX] {
        cfgs!(
            "CounterConfig",
            CounterConfig,
            CounterConfig,
            StaticCounterVariation,
            EventCounterVariation,
            |s: ffi::StaticCounterVariation, e: ffi::EventCounterVariation| ffi::CounterConfig {
                static_variation: s.into(),
                event_variation: e.into(),
                deadband: db
            }
        );
        cfgs!(
            "FrozenCounterConfig",
            FrozenCounterConfig,
            FrozenCounterConfig,
            StaticFrozenCounterVariation,
            EventFrozenCounterVariation,
            |s: ffi::StaticFrozenCounterVariation, e: ffi::EventFrozenCounterVariation| {
                ffi::FrozenCounterConfig {
                    static_variation: s.into(),
                    event_variation: e.into(),
                    deadband: db,
                }
            }
        );
        let c: CounterConfig = ffi::CounterConfig {
            static_variation: ffi::StaticCounterVariation::Group20Var1.into(),
            event_variation: ffi::EventCounterVariation::Group22Var1.into(),
            deadband: db,
        }
        .into();
        let fc: FrozenCounterConfig = ffi::FrozenCounterConfig {
            static_variation: ffi::StaticFrozenCounterVariation::Group21Var1.into(),
            event_variation: ffi::EventFrozenCounterVariation::Group23Var1.into(),
            deadband: db,
        }
        .into();
        if c.deadband != db || fc.deadband != db {
            viol(
                a,
                "field_lost",
                "CounterConfig|deadband",
                format!(
                    "dead-band {db} converted to {} / {}",
                    c.deadband, fc.deadband
                ),
            );
        }
    }
    for db in [0.0f64, 0.5, 1e300, -1.0] {
        cfgs!(
            "AnalogInputConfig",
            AnalogInputConfig,
            AnalogInputConfig,
            StaticAnalogInputVariation,
            EventAnalogInputVariation,
            |s: ffi::StaticAnalogInputVariation, e: ffi::EventAnalogInputVariation| {
                ffi::AnalogInputConfig {
                    static_variation: s.into(),
                    event_variation: e.into(),
                    deadband: db,
                }
            }
        );
        cfgs!(
            "AnalogOutputStatusConfig",
            AnalogOutputStatusConfig,
            AnalogOutputStatusConfig,
            StaticAnalogOutputStatusVariation,
            EventAnalogOutputStatusVariation,
            |s: ffi::StaticAnalogOutputStatusVariation,
             e: ffi::EventAnalogOutputStatusVariation| ffi::AnalogOutputStatusConfig {
                static_variation: s.into(),
                event_variation: e.into(),
                deadband: db
            }
        );
        let c: AnalogInputConfig = ffi::AnalogInputConfig {
            static_variation: ffi::StaticAnalogInputVariation::Group30Var1.into(),
            event_variation: ffi::EventAnalogInputVariation::Group32Var1.into(),
            deadband: db,
        }
        .into();
        let oc: AnalogOutputStatusConfig = ffi::AnalogOutputStatusConfig {
            static_variation: ffi::StaticAnalogOutputStatusVariation::Group40Var1.into(),
            event_variation: ffi::EventAnalogOutputStatusVariation::Group42Var1.into(),
            deadband: db,
        }
        .into();
        if c.deadband != db || oc.deadband != db {
            viol(
                a,
                "field_lost",
                "AnalogInputConfig|deadband",
                format!(
                    "dead-band {db} converted to {} / {}",
                    c.deadband, oc.deadband
                ),
            );
        }
    }
    more_structs(a, &mut r);
    // file permissions: world / group / owner each with its own pattern, both directions
    {
        use dnp3::app::{PermissionSet, Permissions};
        for k in 0..8u8 {
            let set = |x: u8| PermissionSet {
                execute: x & 1 != 0,
                write: x & 2 != 0,
                read: x & 4 != 0,
            };
            let n = Permissions {
                world: set(k),
                group: set(k.wrapping_add(3) & 7),
                owner: set(k.wrapping_add(5) & 7),
            };
            let f: ffi::Permissions = n.into();
            let got = |p: &ffi::PermissionSet| {
                (p.execute as u8) | (p.write as u8) << 1 | (p.read as u8) << 2
            };
            out::eval(1);
            if got(&f.world) != k
                || got(&f.group) != (k.wrapping_add(3) & 7)
                || got(&f.owner) != (k.wrapping_add(5) & 7)
            {
                viol(
                    a,
                    "field_lost",
                    "Permissions(out)",
                    format!(
                        "{n:?} converted to world={:03b} group={:03b} owner={:03b}",
                        got(&f.world),
                        got(&f.group),
                        got(&f.owner)
                    ),
                );
            } else {
                out::count("permissions_ok", 1);
            }
            let back: Permissions = f.into();
            if back != n {
                viol(
                    a,
                    "round_trip",
                    "Permissions",
                    format!("{n:?} -> binding -> {back:?}"),
                );
            } else {
                out::count("round_trips_ok", 1);
            }
        }
    }
    // CROB
    for _ in 0..300 {
        let code = dnp3::verif::util::control_code_from(r.u8());
        if matches!(code.tcc, TripCloseCode::Unknown(_))
            || matches!(code.op_type, OpType::Unknown(_))
        {
            continue;
        }
        let n = Group12Var1::new(code, r.u8(), r.u64() as u32, r.u64() as u32);
        let f: ffi::Group12Var1 = n.into();
        let back: Group12Var1 = f.into();
        out::eval(1);
        if dnp3::verif::util::control_code_as_u8(back.code)
            != dnp3::verif::util::control_code_as_u8(n.code)
            || back.count != n.count
            || back.on_time != n.on_time
            || back.off_time != n.off_time
        {
            viol(
                a,
                "round_trip",
                "Group12Var1",
                format!("{n:?} -> binding -> {back:?}"),
            );
        } else {
            out::count("round_trips_ok", 1);
        }
    }
}

/// second batch of struct conversions: every field a distinct sentinel
fn more_structs(a: &ShardArgs, r: &mut Rng) {
    use std::time::Duration;
    let dbg_has = |d: &dyn Debug, needles: &[String]| {
        let t = format!("{d:?}");
        needles.iter().all(|n| t.contains(n.as_str()))
    };
    // event buffer state reported to the application: eleven distinct counts
    {
        let n = dnp3::outstation::BufferState {
            classes: dnp3::outstation::ClassCount {
                num_class_1: 1,
                num_class_2: 2,
                num_class_3: 3,
            },
            types: dnp3::outstation::TypeCount {
                num_binary_input: 11,
                num_double_bit_binary_input: 12,
                num_binary_output_status: 13,
                num_counter: 14,
                num_frozen_counter: 15,
                num_analog: 16,
                num_analog_output_status: 17,
                num_octet_string: 18,
            },
        };
        let f: ffi::BufferState = n.into();
        let got = [
            f.classes.num_class_1,
            f.classes.num_class_2,
            f.classes.num_class_3,
            f.types.num_binary_input,
            f.types.num_double_bit_binary_input,
            f.types.num_binary_output_status,
            f.types.num_counter,
            f.types.num_frozen_counter,
            f.types.num_analog,
            f.types.num_analog_output_status,
            f.types.num_octet_string,
        ];
        out::eval(1);
        if got != [1, 2, 3, 11, 12, 13, 14, 15, 16, 17, 18] {
            viol(
                a,
                "field_lost",
                "BufferState",
                format!("buffer state counts arrive as {got:?}"),
            );
        } else {
            out::count("struct_sentinels_ok", 1);
        }
    }
    // outstation features: one at a time
    for k in 0..4 {
        let b = |i: usize| i == k;
        let f = ffi::OutstationFeatures {
            self_address: b(0),
            broadcast: b(1),
            unsolicited: b(2),
            respond_to_any_master: b(3),
        };
        let n: dnp3::outstation::Features = (&f).into();
        let on = |x: dnp3::outstation::Feature| matches!(x, dnp3::outstation::Feature::Enabled);
        let got = [
            on(n.self_address),
            on(n.broadcast),
            on(n.unsolicited),
            on(n.respond_to_any_master),
        ];
        out::eval(1);
        if (0..4).any(|i| got[i] != b(i)) {
            viol(
                a,
                "field_lost",
                &format!("OutstationFeatures|{k}"),
                format!("feature {k} converted to {n:?}"),
            );
        } else {
            out::count("struct_sentinels_ok", 1);
        }
    }
    // retry / connect strategies, file read configurations, open file, UTC timestamp
    {
        let f: ffi::RetryStrategy = ffi::RetryStrategyFields {
            min_delay: Duration::from_millis(123),
            max_delay: Duration::from_millis(45_678),
        }
        .into();
        let n: dnp3::app::RetryStrategy = f.into();
        out::eval(1);
        if !dbg_has(&n, &["123ms".into(), "45.678s".into()]) {
            viol(
                a,
                "field_lost",
                "RetryStrategy",
                format!("retry strategy (123 ms, 45678 ms) converted to {n:?}"),
            );
        } else {
            out::count("struct_sentinels_ok", 1);
        }
        let f: ffi::ConnectStrategy = ffi::ConnectStrategyFields {
            min_connect_delay: Duration::from_millis(111),
            max_connect_delay: Duration::from_millis(22_222),
            reconnect_delay: Duration::from_millis(3_333),
        }
        .into();
        let n: dnp3::app::ConnectStrategy = f.into();
        let t = format!("{n:?}");
        let pos = |x: &str| t.find(x);
        out::eval(1);
        if !(pos("111ms").is_some()
            && pos("22.222s").is_some()
            && pos("3.333s").is_some()
            && pos("111ms") < pos("22.222s")
            && pos("22.222s") < pos("3.333s"))
        {
            viol(
                a,
                "field_lost",
                "ConnectStrategy",
                format!("connect strategy (111 ms, 22222 ms, 3333 ms) converted to {t}"),
            );
        } else {
            out::count("struct_sentinels_ok", 1);
        }
        let n: dnp3::master::FileReadConfig = ffi::FileReadConfig {
            max_block_size: 777,
            max_file_size: 99_999,
        }
        .into();
        let d: dnp3::master::DirReadConfig = ffi::DirReadConfig {
            max_block_size: 555,
            max_file_size: 88_888,
        }
        .into();
        out::eval(2);
        if n.max_block_size != 777
            || n.max_file_size != 99_999
            || d.max_block_size != 555
            || d.max_file_size != 88_888
        {
            viol(
                a,
                "field_lost",
                "FileReadConfig",
                format!("file / directory read configuration converted to {n:?} / {d:?}"),
            );
        } else {
            out::count("struct_sentinels_ok", 2);
        }
        for (valid, v) in [
            (true, 0u64),
            (true, 0x0000_FFFF_FFFF_FFFF),
            (false, 5),
            (true, r.u64() & 0x0000_FFFF_FFFF_FFFF),
        ] {
            let n: Option<Timestamp> = ffi::UtcTimestamp {
                value: v,
                is_valid: valid,
            }
            .into();
            out::eval(1);
            if n.map(|t| t.raw_value()) != if valid { Some(v) } else { None } {
                viol(
                    a,
                    "field_lost",
                    "UtcTimestamp",
                    format!("UTC timestamp (valid={valid}, {v}) converted to {n:?}"),
                );
            } else {
                out::count("struct_sentinels_ok", 1);
            }
        }
    }
    // request header / control field: all 256 control octets through the library's own parser of the octet
    for bits in 0..=255u8 {
        let c = dnp3::verif::util::control_field_from(bits);
        let f: ffi::ControlField = c.into();
        let back = (f.fir as u8) << 7
            | (f.fin as u8) << 6
            | (f.con as u8) << 5
            | (f.uns as u8) << 4
            | (f.seq & 0x0F);
        out::eval(1);
        if back != bits {
            viol(
                a,
                "field_lost",
                "ControlField",
                format!(
                    "control octet {bits:#04x} read back through the binding struct as {back:#04x}"
                ),
            );
        } else {
            out::count("control_fields_ok", 1);
        }
    }
    // header info: every qualifier x flags, a sample of variations
    {
        let vars = variants::<ffi::Variation>();
        let quals = [
            QualifierCode::Range8,
            QualifierCode::Range16,
            QualifierCode::AllObjects,
            QualifierCode::Count8,
            QualifierCode::Count16,
            QualifierCode::CountAndPrefix8,
            QualifierCode::CountAndPrefix16,
            QualifierCode::FreeFormat16,
        ];
        for q in quals {
            for (ev, fl) in [(false, false), (true, false), (false, true), (true, true)] {
                let fv = r.pick(&vars).clone();
                let nv: Variation = fv.clone().into();
                let n = dnp3::verif::util::header_info(nv, q, ev, fl);
                let f: ffi::HeaderInfo = n.into();
                out::eval(1);
                if f.variation() != fv
                    || norm(&f.qualifier()) != norm(&q)
                    || f.is_event() != ev
                    || f.has_flags() != fl
                {
                    viol(a, "field_lost", &format!("HeaderInfo|{}", norm(&q)), format!("header info ({nv:?}, {q:?}, event={ev}, flags={fl}) converted to ({:?}, {:?}, {}, {})", f.variation(), f.qualifier(), f.is_event(), f.has_flags()));
                } else {
                    out::count("header_infos_ok", 1);
                }
            }
        }
    }
    // serial settings and TLS enumerations (present with the crate's default features)
    #[cfg(feature = "serial")]
    {
        for db in variants::<ffi::DataBits>() {
            for fc in variants::<ffi::FlowControl>() {
                for pa in variants::<ffi::Parity>() {
                    for sb in variants::<ffi::StopBits>() {
                        let f: ffi::SerialSettings = ffi::SerialSettingsFields {
                            baud_rate: 19_201,
                            data_bits: db.clone(),
                            flow_control: fc.clone(),
                            parity: pa.clone(),
                            stop_bits: sb.clone(),
                        }
                        .into();
                        let n: dnp3::serial::SerialSettings = f.into();
                        out::eval(1);
                        if n.baud_rate != 19_201
                            || norm(&n.data_bits) != norm(&db)
                            || norm(&n.flow_control) != norm(&fc)
                            || norm(&n.parity) != norm(&pa)
                            || norm(&n.stop_bits) != norm(&sb)
                        {
                            viol(a, "name_mismatch", "SerialSettings", format!("serial settings ({db:?}, {fc:?}, {pa:?}, {sb:?}) converted to {n:?}"));
                        } else {
                            out::count("variants_map_to_namesake", 1);
                        }
                    }
                }
            }
        }
        out::distinct("conv/SerialSettings");
        let wait = dnp3::serial::PortState::Wait(Duration::from_secs(1));
        for (n, want) in [
            (dnp3::serial::PortState::Disabled, "disabled"),
            (wait, "wait"),
            (dnp3::serial::PortState::Open, "open"),
            (dnp3::serial::PortState::Shutdown, "shutdown"),
        ] {
            let f: ffi::PortState = n.into();
            out::eval(1);
            if norm(&f) != want {
                viol(
                    a,
                    "name_mismatch",
                    &format!("PortState|{want}"),
                    format!("{n:?} is converted to {f:?}"),
                );
            } else {
                out::count("variants_map_to_namesake", 1);
            }
        }
    }
    #[cfg(feature = "enable-tls")]
    {
        ffi_to_native!(
            a,
            "MinTlsVersion",
            ffi::MinTlsVersion,
            dnp3::tcp::tls::MinTlsVersion,
            2,
            &[]
        );
        ffi_to_native!(
            a,
            "CertificateMode",
            ffi::CertificateMode,
            dnp3::tcp::tls::CertificateMode,
            2,
            &[]
        );
    }
}

/// the pointer-free struct conversions, a few values each (interpreter runs)
fn structs_small(a: &ShardArgs) {
    for v in [0u8, 1, 0x80, 0xFF] {
        let n: Flags = (&ffi::Flags { value: v }).into();
        let back: ffi::Flags = n.into();
        out::eval(1);
        if n.value != v || back.value != v {
            viol(
                a,
                "field_lost",
                "Flags",
                format!(
                    "flag octet {v:#04x} converted to {:#04x} and back to {:#04x}",
                    n.value, back.value
                ),
            );
        } else {
            out::count("flags_ok", 1);
        }
    }
    for q in variants::<ffi::TimeQuality>() {
        let f = time_of(q.clone().into(), 77);
        let n: Option<Time> = (&f).into();
        let back: ffi::Timestamp = n.into();
        out::eval(1);
        if back.quality() != q {
            viol(
                a,
                "round_trip",
                "Timestamp",
                format!("time quality {q:?} -> {n:?} -> {:?}", back.quality()),
            );
        } else {
            out::count("round_trips_ok", 1);
        }
    }
}

/// D: the same operations through the binding entry points and through the native API
fn differential(a: &ShardArgs) {
    let n_seq = a.n(400);
    for s in 0..n_seq {
        if s % a.nshards != a.shard {
            continue;
        }
        let mut r = a.rng(&format!("c20/d/{s}"));
        let evbuf = *r.pick(&[2u16, 5, 50]);
        let ha = dnp3::verif::util::detached_outstation(evbuf);
        let hb = dnp3::verif::util::detached_outstation(evbuf);
        let mut hist: Vec<String> = vec![];
        let mut bad: Option<(String, String, String)> = None;
        let classes = variants::<ffi::EventClass>();
        let modes = variants::<ffi::EventMode>();
        let quals = variants::<ffi::TimeQuality>();
        let flag_types = variants::<ffi::UpdateFlagsType>();
        ha.transaction(|da| {
            hb.transaction(|db| {
                let pa: *mut Database = da;
                for step in 0..r.range(10, 60) {
                    let t = r.usize_below(7);
                    let idx = *r.pick(&[0u16, 1, 2, 40_000, 65_535]);
                    let op = r.below(10);
                    macro_rules! per_type {
                        ($add:ident, $remove:ident, $update2:ident, $get:ident, $fpt:ident, $npt:ident, $ncfg:ident, $fcfg:expr, $mkval:expr) => {{
                            match op {
                                0 | 1 => {
                                    let cls = r.pick(&classes).clone();
                                    let fcfg = $fcfg;
                                    let ncls: Option<EventClass> = cls.clone().into();
                                    let x = unsafe { crate::outstation::$add(pa, idx, cls.clone(), fcfg.clone()) };
                                    let y = db.add(idx, ncls, <$ncfg>::from(fcfg));
                                    hist.push(format!("#{step} add type {t} index {idx} class {cls:?} -> {x} / {y}"));
                                    if x != y {
                                        bad = Some(("differential_result".into(), format!("add|t{t}"), format!("add returned {x} through the binding and {y} natively")));
                                    }
                                }
                                2 => {
                                    let x = unsafe { crate::outstation::$remove(pa, idx) };
                                    let y = Remove::<$npt>::remove(db, idx);
                                    hist.push(format!("#{step} remove type {t} index {idx} -> {x} / {y}"));
                                    if x != y {
                                        bad = Some(("differential_result".into(), format!("remove|t{t}"), format!("remove returned {x} through the binding and {y} natively")));
                                    }
                                }
                                3..=7 => {
                                    let fl = ffi::Flags { value: r.u8() };
                                    let tm = time_of(r.pick(&quals).clone().into(), r.u64() & 0x0000_FFFF_FFFF_FFFF);
                                    let val = $mkval;
                                    let fv = ffi::$fpt { index: idx, value: val, flags: fl.clone(), time: tm.clone() };
                                    let opts = ffi::UpdateOptions { update_static: r.chance(4, 5), event_mode: r.pick(&modes).clone().into() };
                                    let nopts: UpdateOptions = opts.clone().into();
                                    let nv: $npt = fv.clone().into();
                                    let x = unsafe { crate::outstation::$update2(pa, fv, opts) };
                                    let y = db.update2(idx, &nv, nopts);
                                    let yf: ffi::UpdateInfo = y.into();
                                    hist.push(format!("#{step} update type {t} index {idx} {nv:?} {nopts:?} -> {:?}/{}/{} / {y:?}", x.result(), x.created(), x.discarded()));
                                    if x.result() != yf.result() || x.created() != yf.created() || x.discarded() != yf.discarded() {
                                        bad = Some(("differential_result".into(), format!("update|t{t}"), format!("update returned {:?}/{}/{} through the binding and {y:?} natively", x.result(), x.created(), x.discarded())));
                                    }
                                }
                                _ => {
                                    let x = unsafe { crate::outstation::$get(pa, idx) };
                                    let y = Get::<$npt>::get(db, idx);
                                    let xs = x.as_ref().ok().map(|v| {
                                        let n: $npt = v.clone().into();
                                        format!("{n:?}")
                                    });
                                    let ys = y.map(|v| format!("{v:?}"));
                                    hist.push(format!("#{step} get type {t} index {idx} -> {xs:?} / {ys:?}"));
                                    if xs != ys {
                                        bad = Some(("differential_get".into(), format!("get|t{t}"), format!("get returned {xs:?} through the binding and {ys:?} natively")));
                                    }
                                }
                            }
                        }};
                    }
                    if r.chance(1, 8) {
                        // octet strings: add / remove / update (both entry points)
                        let x: String;
                        let y: String;
                        match r.below(5) {
                            0 => {
                                let cls = r.pick(&classes).clone();
                                let ncls: Option<EventClass> = cls.clone().into();
                                x = format!("{}", unsafe { crate::outstation::database_add_octet_string(pa, idx, cls.clone()) });
                                y = format!("{}", db.add(idx, ncls, OctetStringConfig));
                                hist.push(format!("#{step} add octet string index {idx} class {cls:?} -> {x} / {y}"));
                            }
                            1 => {
                                x = format!("{}", unsafe { crate::outstation::database_remove_octet_string(pa, idx) });
                                y = format!("{}", Remove::<OctetString>::remove(db, idx));
                                hist.push(format!("#{step} remove octet string index {idx} -> {x} / {y}"));
                            }
                            k => {
                                let len = match r.below(4) {
                                    0 => 0usize,
                                    1 => 255,
                                    2 => 256,
                                    _ => r.range(1, 12) as usize,
                                };
                                let bytes: Vec<u8> = (0..len).map(|_| r.u8()).collect();
                                let opts = ffi::UpdateOptions { update_static: r.chance(4, 5), event_mode: r.pick(&modes).clone().into() };
                                let nopts: UpdateOptions = opts.clone().into();
                                let fv = unsafe { crate::outstation::octet_string_value_create() };
                                for b in &bytes {
                                    unsafe { crate::outstation::octet_string_value_add(fv, *b) };
                                }
                                let nv = OctetString::new(&bytes).ok();
                                if k % 2 == 0 {
                                    x = format!("{}", unsafe { crate::outstation::database_update_octet_string(pa, idx, fv, opts) });
                                    y = format!("{}", nv.as_ref().map(|v| db.update(idx, v, nopts)).unwrap_or(false));
                                } else {
                                    let u = unsafe { crate::outstation::database_update_octet_string_2(pa, idx, fv, opts) };
                                    x = format!("{:?}/{}/{}", u.result(), u.created(), u.discarded());
                                    let yf: ffi::UpdateInfo = match nv.as_ref() {
                                        Some(v) => db.update2(idx, v, nopts).into(),
                                        None => ffi::UpdateInfoFields::default().into(),
                                    };
                                    y = format!("{:?}/{}/{}", yf.result(), yf.created(), yf.discarded());
                                }
                                unsafe { crate::outstation::octet_string_value_destroy(fv) };
                                hist.push(format!("#{step} update octet string index {idx} {} octets {nopts:?} -> {x} / {y}", bytes.len()));
                            }
                        }
                        out::eval(1);
                        if x != y {
                            bad = Some(("differential_result".into(), "octet_string".into(), format!("octet string operation returned {x} through the binding and {y} natively")));
                            break;
                        }
                        out::count("differential_octet_string_ops", 1);
                        continue;
                    }
                    if r.chance(1, 8) {
                        // device attribute definitions: private sets take any type, the default set checks the type of well-known variations
                        use dnp3::app::attr::{AttrProp, AttrSet, FloatType, OwnedAttrValue, OwnedAttribute};
                        let set = *r.pick(&[0u8, 0, 1, 7, 255]);
                        let any = r.u8();
                        let var = *r.pick(&[0u8, 1, 196, 201, 209, 210, 211, 212, 217, 240, 242, 245, 246, 247, 250, 252, 253, 254, 255, any]);
                        let writable = r.bool();
                        let (x, val): (ffi::AttrDefError, OwnedAttrValue) = match r.below(7) {
                            0 => {
                                let t = format!("text-{}", r.u16());
                                let c = std::ffi::CString::new(t.clone()).unwrap();
                                (unsafe { crate::outstation::database_define_string_attr(pa, set, writable, var, &c) }, OwnedAttrValue::VisibleString(t))
                            }
                            1 => {
                                let v = r.u64() as u32;
                                (unsafe { crate::outstation::database_define_uint_attr(pa, set, writable, var, v) }, OwnedAttrValue::UnsignedInt(v))
                            }
                            2 => {
                                let v = r.u64() as i32;
                                (unsafe { crate::outstation::database_define_int_attr(pa, set, writable, var, v) }, OwnedAttrValue::SignedInt(v))
                            }
                            3 => {
                                let v = r.u64() & 0x0000_FFFF_FFFF_FFFF;
                                (unsafe { crate::outstation::database_define_time_attr(pa, set, writable, var, v) }, OwnedAttrValue::Dnp3Time(Timestamp::new(v)))
                            }
                            4 => {
                                let v = r.bool();
                                (unsafe { crate::outstation::database_define_bool_attr(pa, set, writable, var, v) }, OwnedAttrValue::SignedInt(v as i32))
                            }
                            5 => {
                                let v = (r.u16() as f32) * 0.5;
                                (unsafe { crate::outstation::database_define_float_attr(pa, set, writable, var, v) }, OwnedAttrValue::FloatingPoint(FloatType::F32(v)))
                            }
                            _ => {
                                let v = (r.u64() as u32) as f64 * 0.25;
                                (unsafe { crate::outstation::database_define_double_attr(pa, set, writable, var, v) }, OwnedAttrValue::FloatingPoint(FloatType::F64(v)))
                            }
                        };
                        let prop = if writable { AttrProp::writable() } else { AttrProp::default() };
                        let y = db.define_attr(prop, OwnedAttribute::new(AttrSet::new(set), var, val.clone()));
                        let yname = match &y {
                            Ok(()) => "ok".to_string(),
                            Err(e) => norm(e),
                        };
                        hist.push(format!("#{step} define attribute set {set} variation {var} writable {writable} {val:?} -> {x:?} / {y:?}"));
                        out::eval(1);
                        if norm(&x) != yname {
                            bad = Some(("differential_result".into(), "define_attr".into(), format!("attribute definition returned {x:?} through the binding and {y:?} natively")));
                            break;
                        }
                        out::count("differential_attr_definitions", 1);
                        out::distinct(&format!("D/attr/{yname}"));
                        continue;
                    }
                    if op == 9 && r.bool() {
                        // update_flags
                        let ft = r.pick(&flag_types).clone();
                        let fl = ffi::Flags { value: r.u8() };
                        let tm = time_of(r.pick(&quals).clone().into(), r.u64() & 0x0000_FFFF_FFFF_FFFF);
                        let opts = ffi::UpdateOptions { update_static: r.chance(4, 5), event_mode: r.pick(&modes).clone().into() };
                        let x = unsafe { crate::outstation::database_update_flags(pa, idx, ft.clone(), fl.clone(), tm.clone(), opts.clone()) };
                        let y = db.update_flags(idx, ft.clone().into(), (&fl).into(), (&tm).into(), opts.into());
                        let yf: ffi::UpdateInfo = y.into();
                        hist.push(format!("#{step} update_flags {ft:?} index {idx} -> {:?} / {y:?}", x.result()));
                        if x.result() != yf.result() || x.created() != yf.created() || x.discarded() != yf.discarded() {
                            bad = Some(("differential_result".into(), "update_flags".into(), format!("update_flags returned {:?} through the binding and {y:?} natively", x.result())));
                        }
                        continue;
                    }
                    let sv = r.below(64) as c_int;
                    match t {
                        0 => per_type!(database_add_binary_input, database_remove_binary_input, database_update_binary_input_2, database_get_binary_input, BinaryInput, BinaryInput, BinaryInputConfig, ffi::BinaryInputConfig { static_variation: r.pick(&variants::<ffi::StaticBinaryInputVariation>()).clone().into(), event_variation: r.pick(&variants::<ffi::EventBinaryInputVariation>()).clone().into() }, r.bool()),
                        1 => per_type!(database_add_double_bit_binary_input, database_remove_double_bit_binary_input, database_update_double_bit_binary_input_2, database_get_double_bit_binary_input, DoubleBitBinaryInput, DoubleBitBinaryInput, DoubleBitBinaryInputConfig, ffi::DoubleBitBinaryInputConfig { static_variation: r.pick(&variants::<ffi::StaticDoubleBitBinaryInputVariation>()).clone().into(), event_variation: r.pick(&variants::<ffi::EventDoubleBitBinaryInputVariation>()).clone().into() }, r.pick(&variants::<ffi::DoubleBit>()).clone().into()),
                        2 => per_type!(database_add_binary_output_status, database_remove_binary_output_status, database_update_binary_output_status_2, database_get_binary_output_status, BinaryOutputStatus, BinaryOutputStatus, BinaryOutputStatusConfig, ffi::BinaryOutputStatusConfig { static_variation: r.pick(&variants::<ffi::StaticBinaryOutputStatusVariation>()).clone().into(), event_variation: r.pick(&variants::<ffi::EventBinaryOutputStatusVariation>()).clone().into() }, r.bool()),
                        3 => per_type!(database_add_counter, database_remove_counter, database_update_counter_2, database_get_counter, Counter, Counter, CounterConfig, ffi::CounterConfig { static_variation: r.pick(&variants::<ffi::StaticCounterVariation>()).clone().into(), event_variation: r.pick(&variants::<ffi::EventCounterVariation>()).clone().into(), deadband: r.below(3) as u32 }, r.below(10) as u32),
                        4 => per_type!(database_add_frozen_counter, database_remove_frozen_counter, database_update_frozen_counter_2, database_get_frozen_counter, FrozenCounter, FrozenCounter, FrozenCounterConfig, ffi::FrozenCounterConfig { static_variation: r.pick(&variants::<ffi::StaticFrozenCounterVariation>()).clone().into(), event_variation: r.pick(&variants::<ffi::EventFrozenCounterVariation>()).clone().into(), deadband: r.below(3) as u32 }, r.below(10) as u32),
                        5 => per_type!(database_add_analog_input, database_remove_analog_input, database_update_analog_input_2, database_get_analog_input, AnalogInput, AnalogInput, AnalogInputConfig, ffi::AnalogInputConfig { static_variation: r.pick(&variants::<ffi::StaticAnalogInputVariation>()).clone().into(), event_variation: r.pick(&variants::<ffi::EventAnalogInputVariation>()).clone().into(), deadband: r.below(3) as f64 }, r.below(10) as f64 * 0.75),
                        _ => per_type!(database_add_analog_output_status, database_remove_analog_output_status, database_update_analog_output_status_2, database_get_analog_output_status, AnalogOutputStatus, AnalogOutputStatus, AnalogOutputStatusConfig, ffi::AnalogOutputStatusConfig { static_variation: r.pick(&variants::<ffi::StaticAnalogOutputStatusVariation>()).clone().into(), event_variation: r.pick(&variants::<ffi::EventAnalogOutputStatusVariation>()).clone().into(), deadband: r.below(3) as f64 }, r.below(10) as f64 * 1.5),
                    }
                    let _ = sv;
                    out::eval(1);
                    if bad.is_some() {
                        break;
                    }
                }
                // the two databases must be indistinguishable on the wire
                if bad.is_none() {
                    let ia = dnp3::verif::util::db_image(unsafe { &mut *pa });
                    let ib = dnp3::verif::util::db_image(db);
                    if ia != ib {
                        bad = Some(("differential_image".into(), "wire".into(), format!("after the same operations the databases differ on the wire: {} vs {} octets, first difference at {}", ia.len(), ib.len(), ia.iter().zip(ib.iter()).position(|(x, y)| x != y).unwrap_or(ia.len().min(ib.len())))));
                    } else {
                        out::count("differential_sequences_ok", 1);
                        out::count("differential_image_octets", ia.len() as u64);
                    }
                }
            });
        });
        if let Some((rule, sig, why)) = bad {
            out::violation(
                P,
                &format!("C20.{rule}"),
                &sig,
                J::obj(vec![
                    ("why", J::s(why)),
                    ("history", J::arr(hist.iter().rev().take(30).rev().cloned())),
                ]),
                J::obj(vec![
                    ("check", J::s("c20")),
                    ("seed", J::U(a.seed)),
                    ("shard", J::U(a.shard)),
                    ("nshards", J::U(a.nshards)),
                    ("scenario", J::U(s)),
                ]),
            );
        }
        out::distinct(&format!("D/evbuf{evbuf}"));
    }
}

fn c20(a: &ShardArgs) -> Result<(), String> {
    if cfg!(miri) {
        // under the interpreter: the raw-pointer entry points and the struct conversions only
        structs_small(a);
    } else if a.shard == 0 || a.replay.is_some() {
        // exhaustive parts: once
        enums(a);
        structs(a);
    }
    differential(a);
    // K: the callback adapters (every shard a different slice of the random cases)
    {
        let mut r = a.rng(&format!("c20/callbacks/{}", a.shard));
        let rounds = if cfg!(miri) { 4 } else { a.n(40) as usize };
        callbacks::read_handler_adapter(a, &mut r, rounds);
        if !cfg!(miri) && (a.shard == 0 || a.replay.is_some()) {
            callbacks::association_adapters(a, &mut r);
            callbacks::application_adapter(a, &mut r);
            callbacks::information_adapter(a, &mut r);
            callbacks::promise_adapters(a, &mut r);
            callbacks::attribute_adapters(a, &mut r);
        }
        callbacks::builders(a, &mut r, if cfg!(miri) { 6 } else { a.n(150) as usize });
        if !cfg!(miri) {
            configs::configs(a, &mut r, a.n(60) as usize);
        }
        if !cfg!(miri) {
            callbacks::control_adapter(a, &mut r, a.n(12) as usize);
        }
    }
    for p in dnp3::verif::util::take_panics() {
        out::violation(
            P,
            "C20.panic",
            &dnp3::verif::util::norm_location(&p.location),
            J::obj(vec![(
                "why",
                J::s(format!("panic {} at {}", p.message, p.location)),
            )]),
            replay(a, "panic"),
        );
    }
    Ok(())
}
