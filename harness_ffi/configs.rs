//! C20 part S2 — the configuration structures handed to the library when a channel, an association or
//! an outstation is created: every field set to a distinct sentinel, converted by the binding crate,
//! compared field by field with the native value built from the same numbers; then every way in which
//! a value can be out of range, one at a time, must be refused (never silently replaced).
use super::{norm, variants, viol};
use crate::ffi;
use dnp3::app::*;
use dnp3::decode::*;
use dnp3::link::EndpointAddress;
use dnp3::master::{AssociationConfig, Classes, EventClasses, MasterChannelConfig, TimeSyncProcedure};
use dnp3::outstation::database::{ClassZeroConfig, EventBufferConfig};
use dnp3::outstation::{Feature, OutstationConfig};
use dnp3::verif::out::{self, J};
use dnp3::verif::rng::Rng;
use dnp3::verif::ShardArgs;
use std::time::Duration;

fn field(a: &ShardArgs, strukt: &str, name: &str, got: String, want: String, ok: &mut bool) {
    out::eval(1);
    if got != want {
        *ok = false;
        viol(
            a,
            "field_lost",
            &format!("{strukt}|{name}"),
            format!("{strukt}.{name}: the binding layer produced {got}, the numbers given mean {want}"),
        );
    }
}

fn decode_pair(r: &mut Rng) -> (ffi::DecodeLevel, DecodeLevel) {
    let apps = variants::<ffi::AppDecodeLevel>();
    let trs = variants::<ffi::TransportDecodeLevel>();
    let lns = variants::<ffi::LinkDecodeLevel>();
    let phs = variants::<ffi::PhysDecodeLevel>();
    let (fa, ft, fl, fp) = (
        r.pick(&apps).clone(),
        r.pick(&trs).clone(),
        r.pick(&lns).clone(),
        r.pick(&phs).clone(),
    );
    let app = *[
        AppDecodeLevel::Nothing,
        AppDecodeLevel::Header,
        AppDecodeLevel::ObjectHeaders,
        AppDecodeLevel::ObjectValues,
    ]
    .iter()
    .find(|x| norm(*x) == norm(&fa))
    .expect("application decode level by name");
    let tr = *[
        TransportDecodeLevel::Nothing,
        TransportDecodeLevel::Header,
        TransportDecodeLevel::Payload,
    ]
    .iter()
    .find(|x| norm(*x) == norm(&ft))
    .expect("transport decode level by name");
    let ln = *[
        LinkDecodeLevel::Nothing,
        LinkDecodeLevel::Header,
        LinkDecodeLevel::Payload,
    ]
    .iter()
    .find(|x| norm(*x) == norm(&fl))
    .expect("link decode level by name");
    let ph = *[
        PhysDecodeLevel::Nothing,
        PhysDecodeLevel::Length,
        PhysDecodeLevel::Data,
    ]
    .iter()
    .find(|x| norm(*x) == norm(&fp))
    .expect("physical decode level by name");
    (
        ffi::DecodeLevel {
            application: fa.into(),
            transport: ft.into(),
            link: fl.into(),
            physical: fp.into(),
        },
        DecodeLevel::new(app, tr, ln, ph),
    )
}

fn timeout_ms(r: &mut Rng) -> u64 {
    match r.below(4) {
        0 => 1,
        1 => 3_600_000,
        _ => r.range(1, 3_600_000),
    }
}

fn buffer(r: &mut Rng) -> u16 {
    match r.below(4) {
        0 => 249,
        1 => 2048,
        _ => r.range(249, 2048) as u16,
    }
}

fn address(r: &mut Rng) -> u16 {
    match r.below(4) {
        0 => 0,
        1 => 65519,
        _ => r.range(0, 65519) as u16,
    }
}

pub fn configs(a: &ShardArgs, r: &mut Rng, rounds: usize) {
    // ---- master channel
    for _ in 0..rounds {
        let (fd, nd) = decode_pair(r);
        // the master's receive buffer may not be smaller than a full fragment (2048)
        let rx = match r.below(3) {
            0 => 2048u16,
            1 => 65535,
            _ => r.range(2048, 65535) as u16,
        };
        let (addr, tx) = (address(r), buffer(r));
        let f = ffi::MasterChannelConfig {
            address: addr,
            decode_level: fd,
            tx_buffer_size: tx,
            rx_buffer_size: rx,
        };
        match MasterChannelConfig::try_from(f) {
            Err(e) => viol(
                a,
                "valid_config_refused",
                "MasterChannelConfig",
                format!("address {addr} tx {tx} rx {rx} refused with {e:?}"),
            ),
            Ok(n) => {
                let mut ok = true;
                field(a, "MasterChannelConfig", "master_address", format!("{}", n.master_address.raw_value()), addr.to_string(), &mut ok);
                field(a, "MasterChannelConfig", "decode_level", format!("{:?}", n.decode_level), format!("{nd:?}"), &mut ok);
                field(a, "MasterChannelConfig", "tx_buffer_size", format!("{}", n.tx_buffer_size.value()), tx.to_string(), &mut ok);
                field(a, "MasterChannelConfig", "rx_buffer_size", format!("{}", n.rx_buffer_size.value()), rx.to_string(), &mut ok);
                if ok {
                    out::count("configs_ok_master_channel", 1);
                }
            }
        }
    }
    // out-of-range values, one at a time
    for (what, addr, tx, rx) in [
        ("address-reserved", 65520u16, 300u16, 2048u16),
        ("address-broadcast", 65535, 300, 2048),
        ("tx-too-small", 1, 248, 2048),
        ("rx-too-small", 1, 300, 2047),
        ("tx-zero", 1, 0, 2048),
    ] {
        let (fd, _) = decode_pair(r);
        let f = ffi::MasterChannelConfig {
            address: addr,
            decode_level: fd,
            tx_buffer_size: tx,
            rx_buffer_size: rx,
        };
        out::eval(1);
        if let Ok(n) = MasterChannelConfig::try_from(f) {
            viol(
                a,
                "invalid_config_accepted",
                &format!("MasterChannelConfig|{what}"),
                format!("address {addr} tx {tx} rx {rx} was accepted as {n:?}"),
            );
        } else {
            out::count("configs_invalid_refused", 1);
        }
    }
    // ---- association
    let syncs = variants::<ffi::AutoTimeSync>();
    for _ in 0..rounds {
        let b: Vec<bool> = (0..14).map(|_| r.bool()).collect();
        let (rt, kmin, kmax, ka, q) = (
            timeout_ms(r),
            r.range(1, 100_000),
            r.range(100_000, 10_000_000),
            if r.chance(1, 4) { 0 } else { r.range(1, 10_000_000) },
            r.u16(),
        );
        let sync = r.pick(&syncs).clone();
        let f = ffi::AssociationConfig {
            response_timeout: rt,
            disable_unsol_classes: ffi::EventClasses { class1: b[0], class2: b[1], class3: b[2] },
            enable_unsol_classes: ffi::EventClasses { class1: b[3], class2: b[4], class3: b[5] },
            startup_integrity_classes: ffi::Classes { class0: b[6], class1: b[7], class2: b[8], class3: b[9] },
            auto_time_sync: sync.clone().into(),
            auto_tasks_retry_strategy: ffi::RetryStrategy { min_delay: kmin, max_delay: kmax },
            keep_alive_timeout: ka,
            auto_integrity_scan_on_buffer_overflow: b[10],
            event_scan_on_events_available: ffi::EventClasses { class1: b[11], class2: b[12], class3: b[13] },
            max_queued_user_requests: q,
        };
        match AssociationConfig::try_from(f) {
            Err(e) => viol(a, "valid_config_refused", "AssociationConfig", format!("response timeout {rt} ms refused with {e:?}")),
            Ok(n) => {
                let mut ok = true;
                let s = "AssociationConfig";
                field(a, s, "response_timeout", format!("{:?}", n.response_timeout), format!("{:?}", Timeout::from_millis(rt).unwrap()), &mut ok);
                field(a, s, "disable_unsol_classes", format!("{:?}", n.disable_unsol_classes), format!("{:?}", EventClasses::new(b[0], b[1], b[2])), &mut ok);
                field(a, s, "enable_unsol_classes", format!("{:?}", n.enable_unsol_classes), format!("{:?}", EventClasses::new(b[3], b[4], b[5])), &mut ok);
                field(a, s, "startup_integrity_classes", format!("{:?}", n.startup_integrity_classes), format!("{:?}", Classes::new(b[6], EventClasses::new(b[7], b[8], b[9]))), &mut ok);
                let want_sync = match sync {
                    ffi::AutoTimeSync::None => None,
                    ffi::AutoTimeSync::Lan => Some(TimeSyncProcedure::Lan),
                    ffi::AutoTimeSync::NonLan => Some(TimeSyncProcedure::NonLan),
                    ffi::AutoTimeSync::DirectWriteAbsTime => Some(TimeSyncProcedure::DirectWriteAbsTime),
                };
                field(a, s, "auto_time_sync", format!("{:?}", n.auto_time_sync), format!("{want_sync:?}"), &mut ok);
                field(
                    a,
                    s,
                    "auto_tasks_retry_strategy",
                    format!("{:?}", n.auto_tasks_retry_strategy),
                    format!("{:?}", RetryStrategy::new(Duration::from_millis(kmin), Duration::from_millis(kmax))),
                    &mut ok,
                );
                // the schema declares the association's keep-alive in seconds (the outstation's is in milliseconds)
                field(a, s, "keep_alive_timeout", format!("{:?}", n.keep_alive_timeout), format!("{:?}", if ka == 0 { None } else { Some(Duration::from_secs(ka)) }), &mut ok);
                field(a, s, "auto_integrity_scan_on_buffer_overflow", format!("{}", n.auto_integrity_scan_on_buffer_overflow), b[10].to_string(), &mut ok);
                field(a, s, "event_scan_on_events_available", format!("{:?}", n.event_scan_on_events_available), format!("{:?}", EventClasses::new(b[11], b[12], b[13])), &mut ok);
                field(a, s, "max_queued_user_requests", format!("{}", n.max_queued_user_requests), q.to_string(), &mut ok);
                if ok {
                    out::count("configs_ok_association", 1);
                }
            }
        }
    }
    for (what, rt) in [("timeout-zero", 0u64), ("timeout-over-an-hour", 3_600_001)] {
        let f = ffi::AssociationConfig {
            response_timeout: rt,
            disable_unsol_classes: ffi::EventClasses { class1: true, class2: true, class3: true },
            enable_unsol_classes: ffi::EventClasses { class1: true, class2: true, class3: true },
            startup_integrity_classes: ffi::Classes { class0: true, class1: true, class2: true, class3: true },
            auto_time_sync: ffi::AutoTimeSync::None.into(),
            auto_tasks_retry_strategy: ffi::RetryStrategy { min_delay: 1000, max_delay: 10000 },
            keep_alive_timeout: 0,
            auto_integrity_scan_on_buffer_overflow: true,
            event_scan_on_events_available: ffi::EventClasses { class1: false, class2: false, class3: false },
            max_queued_user_requests: 16,
        };
        out::eval(1);
        if let Ok(n) = AssociationConfig::try_from(f) {
            viol(a, "invalid_config_accepted", &format!("AssociationConfig|{what}"), format!("response timeout {rt} ms accepted as {:?}", n.response_timeout));
        } else {
            out::count("configs_invalid_refused", 1);
        }
    }
    // ---- outstation
    let mk = |r: &mut Rng| -> (ffi::OutstationConfig, Vec<u64>, Vec<bool>, DecodeLevel) {
        let (fd, nd) = decode_pair(r);
        // numbers: addresses, 8 buffer maxima, 3 buffer sizes, 2 timeouts, retries, retry delay, keep alive, 2 limits
        let n: Vec<u64> = vec![
            address(r) as u64,
            address(r) as u64,
            r.u16() as u64,
            r.u16() as u64,
            r.u16() as u64,
            r.u16() as u64,
            r.u16() as u64,
            r.u16() as u64,
            r.u16() as u64,
            r.u16() as u64,
            buffer(r) as u64,
            buffer(r) as u64,
            buffer(r) as u64,
            timeout_ms(r),
            timeout_ms(r),
            r.u64() & 0xFFFF_FFFF,
            r.range(0, 100_000_000),
            if r.chance(1, 4) { 0 } else { r.range(1, 100_000_000) },
            r.u16() as u64,
            r.u16() as u64,
        ];
        let b: Vec<bool> = (0..12).map(|_| r.bool()).collect();
        let f = ffi::OutstationConfig {
            outstation_address: n[0] as u16,
            master_address: n[1] as u16,
            event_buffer_config: ffi::EventBufferConfig {
                max_binary: n[2] as u16,
                max_double_bit_binary: n[3] as u16,
                max_binary_output_status: n[4] as u16,
                max_counter: n[5] as u16,
                max_frozen_counter: n[6] as u16,
                max_analog: n[7] as u16,
                max_analog_output_status: n[8] as u16,
                max_octet_string: n[9] as u16,
            },
            solicited_buffer_size: n[10] as u16,
            unsolicited_buffer_size: n[11] as u16,
            rx_buffer_size: n[12] as u16,
            decode_level: fd,
            confirm_timeout: n[13],
            select_timeout: n[14],
            features: ffi::OutstationFeatures {
                self_address: b[0],
                broadcast: b[1],
                unsolicited: b[2],
                respond_to_any_master: b[3],
            },
            max_unsolicited_retries: n[15] as u32,
            unsolicited_retry_delay: n[16],
            keep_alive_timeout: n[17],
            max_read_request_headers: n[18] as u16,
            max_controls_per_request: n[19] as u16,
            class_zero: ffi::ClassZeroConfig {
                binary: b[4],
                double_bit_binary: b[5],
                binary_output_status: b[6],
                counter: b[7],
                frozen_counter: b[8],
                analog: b[9],
                analog_output_status: b[10],
                octet_string: b[11],
            },
        };
        (f, n, b, nd)
    };
    let feat = |x: bool| if x { Feature::Enabled } else { Feature::Disabled };
    for _ in 0..rounds {
        let (f, n, b, nd) = mk(r);
        match crate::outstation::verif_convert_outstation_config(f) {
            Err(e) => viol(a, "valid_config_refused", "OutstationConfig", format!("numbers {n:?} refused with {e:?}")),
            Ok(c) => {
                let mut ok = true;
                let s = "OutstationConfig";
                field(a, s, "outstation_address", c.outstation_address.raw_value().to_string(), n[0].to_string(), &mut ok);
                field(a, s, "master_address", c.master_address.raw_value().to_string(), n[1].to_string(), &mut ok);
                let e = &c.event_buffer_config;
                field(
                    a,
                    s,
                    "event_buffer_config",
                    format!(
                        "{} {} {} {} {} {} {} {}",
                        e.max_binary, e.max_double_binary, e.max_binary_output_status, e.max_counter, e.max_frozen_counter, e.max_analog, e.max_analog_output_status, e.max_octet_string
                    ),
                    format!("{} {} {} {} {} {} {} {}", n[2], n[3], n[4], n[5], n[6], n[7], n[8], n[9]),
                    &mut ok,
                );
                field(a, s, "solicited_buffer_size", c.solicited_buffer_size.value().to_string(), n[10].to_string(), &mut ok);
                field(a, s, "unsolicited_buffer_size", c.unsolicited_buffer_size.value().to_string(), n[11].to_string(), &mut ok);
                field(a, s, "rx_buffer_size", c.rx_buffer_size.value().to_string(), n[12].to_string(), &mut ok);
                field(a, s, "decode_level", format!("{:?}", c.decode_level), format!("{nd:?}"), &mut ok);
                field(a, s, "confirm_timeout", format!("{:?}", c.confirm_timeout), format!("{:?}", Timeout::from_millis(n[13]).unwrap()), &mut ok);
                field(a, s, "select_timeout", format!("{:?}", c.select_timeout), format!("{:?}", Timeout::from_millis(n[14]).unwrap()), &mut ok);
                field(
                    a,
                    s,
                    "features",
                    format!("{:?} {:?} {:?} {:?}", c.features.self_address, c.features.broadcast, c.features.unsolicited, c.features.respond_to_any_master),
                    format!("{:?} {:?} {:?} {:?}", feat(b[0]), feat(b[1]), feat(b[2]), feat(b[3])),
                    &mut ok,
                );
                field(a, s, "max_unsolicited_retries", format!("{:?}", c.max_unsolicited_retries), format!("{:?}", Some(n[15] as usize)), &mut ok);
                field(a, s, "unsolicited_retry_delay", format!("{:?}", c.unsolicited_retry_delay), format!("{:?}", Duration::from_millis(n[16])), &mut ok);
                field(a, s, "keep_alive_timeout", format!("{:?}", c.keep_alive_timeout), format!("{:?}", if n[17] == 0 { None } else { Some(Duration::from_millis(n[17])) }), &mut ok);
                field(a, s, "max_read_request_headers", format!("{:?}", c.max_read_request_headers), format!("{:?}", Some(n[18] as u16)), &mut ok);
                field(a, s, "max_controls_per_request", format!("{:?}", c.max_controls_per_request), format!("{:?}", Some(n[19] as u16)), &mut ok);
                let z = &c.class_zero;
                field(
                    a,
                    s,
                    "class_zero",
                    format!("{} {} {} {} {} {} {} {}", z.binary, z.double_bit_binary, z.binary_output_status, z.counter, z.frozen_counter, z.analog, z.analog_output_status, z.octet_string),
                    format!("{} {} {} {} {} {} {} {}", b[4], b[5], b[6], b[7], b[8], b[9], b[10], b[11]),
                    &mut ok,
                );
                if ok {
                    out::count("configs_ok_outstation", 1);
                }
            }
        }
    }
    // one field out of range at a time
    for what in [
        "outstation-address-reserved",
        "master-address-broadcast",
        "solicited-buffer-too-small",
        "unsolicited-buffer-too-small",
        "rx-buffer-too-small",
        "confirm-timeout-zero",
        "select-timeout-over-an-hour",
    ] {
        let (mut f, _, _, _) = mk(r);
        match what {
            "outstation-address-reserved" => f.outstation_address = 65520,
            "master-address-broadcast" => f.master_address = 65535,
            "solicited-buffer-too-small" => f.solicited_buffer_size = 248,
            "unsolicited-buffer-too-small" => f.unsolicited_buffer_size = 100,
            "rx-buffer-too-small" => f.rx_buffer_size = 0,
            "confirm-timeout-zero" => f.confirm_timeout = 0,
            _ => f.select_timeout = 3_600_001,
        }
        out::eval(1);
        if let Ok(c) = crate::outstation::verif_convert_outstation_config(f) {
            viol(a, "invalid_config_accepted", &format!("OutstationConfig|{what}"), format!("accepted as {c:?}"));
        } else {
            out::count("configs_invalid_refused", 1);
        }
    }
}
