//! C20 part K — the adapters that carry values across the boundary through callbacks.
//!
//! The binding crate implements the library's traits (`ReadHandler`, `AssociationInformation`,
//! `ControlHandler`, `OutstationApplication`, `OutstationInformation`, the promise callbacks) on
//! the generated C interface structs. Here every such interface struct is filled with recording
//! `extern "C"` callbacks, the *native* trait method is called with generated arguments, and what
//! the callback received (which callback, each argument, every item of an iterator, in order) is
//! compared with what was passed in; values a callback returns are compared with what the native
//! caller gets back.
use super::{norm, viol};
use crate::ffi;
use dnp3::app::measurement::*;
use dnp3::app::*;
use dnp3::master::{AssociationHandler, AssociationInformation, HeaderInfo, ReadHandler, ReadType};
use dnp3::verif::out::{self, J};
use dnp3::verif::rng::Rng;
use dnp3::verif::ShardArgs;
use std::os::raw::{c_int, c_void};

type Log = Vec<String>;

unsafe fn log<'a>(ctx: *mut c_void) -> &'a mut Log {
    &mut *(ctx as *mut Log)
}

fn f_time(t: &ffi::Timestamp) -> String {
    match t.quality() {
        ffi::TimeQuality::InvalidTime => "notime".to_string(),
        q => format!("{}:{}", norm(&q), t.value()),
    }
}

fn n_time(t: &Option<Time>) -> String {
    match t {
        None => "notime".to_string(),
        Some(Time::Synchronized(x)) => format!("synchronizedtime:{}", x.raw_value()),
        Some(Time::Unsynchronized(x)) => format!("unsynchronizedtime:{}", x.raw_value()),
    }
}

fn f_info(i: &ffi::HeaderInfo) -> String {
    format!(
        "{}/{}/ev{}/fl{}",
        norm(&i.variation()),
        norm(&i.qualifier()),
        i.is_event,
        i.has_flags
    )
}

fn n_info(v: Variation, q: QualifierCode, is_event: bool, has_flags: bool) -> String {
    format!("{}/{}/ev{}/fl{}", norm(&v), norm(&q), is_event, has_flags)
}

fn f_header(h: &ffi::ResponseHeader) -> String {
    let c = h.control_field();
    let i1 = &h.iin.iin1;
    let i2 = &h.iin.iin2;
    let b = |x: bool| if x { '1' } else { '0' };
    let iin1: String = [
        i1.broadcast,
        i1.class_1_events,
        i1.class_2_events,
        i1.class_3_events,
        i1.need_time,
        i1.local_control,
        i1.device_trouble,
        i1.device_restart,
    ]
    .iter()
    .map(|x| b(*x))
    .collect();
    let iin2: String = [
        i2.no_func_code_support,
        i2.object_unknown,
        i2.parameter_error,
        i2.event_buffer_overflow,
        i2.already_executing,
        i2.config_corrupt,
        i2.reserved_2,
        i2.reserved_1,
    ]
    .iter()
    .map(|x| b(*x))
    .collect();
    format!(
        "fir{} fin{} con{} uns{} seq{} {} iin1={iin1} iin2={iin2}",
        c.fir,
        c.fin,
        c.con,
        c.uns,
        c.seq,
        norm(&h.func())
    )
}

fn n_header(h: &ResponseHeader) -> String {
    let bits = |v: u8| -> String {
        (0..8)
            .map(|k| if v & (1 << k) != 0 { '1' } else { '0' })
            .collect()
    };
    format!(
        "fir{} fin{} con{} uns{} seq{} {} iin1={} iin2={}",
        h.control.fir,
        h.control.fin,
        h.control.con,
        h.control.uns,
        h.control.seq.value(),
        norm(&h.function),
        bits(h.iin.iin1.value),
        bits(h.iin.iin2.value)
    )
}

// ---- recording callbacks of the master's read handler ---------------------------------------

extern "C" fn rh_begin(read_type: c_int, header: ffi::ResponseHeader, ctx: *mut c_void) {
    unsafe { log(ctx) }.push(format!(
        "begin {} {}",
        norm(&ffi::ReadType::from(read_type)),
        f_header(&header)
    ));
}
extern "C" fn rh_end(read_type: c_int, header: ffi::ResponseHeader, ctx: *mut c_void) {
    unsafe { log(ctx) }.push(format!(
        "end {} {}",
        norm(&ffi::ReadType::from(read_type)),
        f_header(&header)
    ));
}

macro_rules! rh_iter_cb {
    ($fname:ident, $label:literal, $iter:ty, $next:path, |$x:ident| $fmt:expr) => {
        extern "C" fn $fname(info: ffi::HeaderInfo, values: *mut $iter, ctx: *mut c_void) {
            let l = unsafe { log(ctx) };
            l.push(format!("{} {}", $label, f_info(&info)));
            loop {
                let item = unsafe { $next(values) };
                match item {
                    Some($x) => l.push($fmt),
                    None => break,
                }
            }
            // the iterator stays exhausted
            if unsafe { $next(values) }.is_some() {
                l.push("item after the end".into());
            }
        }
    };
}

rh_iter_cb!(
    rh_binary,
    "binary",
    crate::BinaryInputIterator,
    crate::binary_input_iterator_next,
    |x| format!("{} {} {:#04x} {}", x.index, x.value, x.flags.value, f_time(&x.time))
);
rh_iter_cb!(
    rh_double,
    "double",
    crate::DoubleBitBinaryInputIterator,
    crate::double_bit_binary_input_iterator_next,
    |x| format!("{} {} {:#04x} {}", x.index, norm(&x.value()), x.flags.value, f_time(&x.time))
);
rh_iter_cb!(
    rh_bos,
    "bos",
    crate::BinaryOutputStatusIterator,
    crate::binary_output_status_iterator_next,
    |x| format!("{} {} {:#04x} {}", x.index, x.value, x.flags.value, f_time(&x.time))
);
rh_iter_cb!(
    rh_counter,
    "counter",
    crate::CounterIterator,
    crate::counter_iterator_next,
    |x| format!("{} {} {:#04x} {}", x.index, x.value, x.flags.value, f_time(&x.time))
);
rh_iter_cb!(
    rh_frozen,
    "frozen",
    crate::FrozenCounterIterator,
    crate::frozen_counter_iterator_next,
    |x| format!("{} {} {:#04x} {}", x.index, x.value, x.flags.value, f_time(&x.time))
);
rh_iter_cb!(
    rh_analog,
    "analog",
    crate::AnalogInputIterator,
    crate::analog_input_iterator_next,
    |x| format!("{} {:016x} {:#04x} {}", x.index, x.value.to_bits(), x.flags.value, f_time(&x.time))
);
rh_iter_cb!(
    rh_frozen_analog,
    "frozenanalog",
    crate::FrozenAnalogInputIterator,
    crate::frozen_analog_input_iterator_next,
    |x| format!("{} {:016x} {:#04x} {}", x.index, x.value.to_bits(), x.flags.value, f_time(&x.time))
);
rh_iter_cb!(
    rh_aos,
    "aos",
    crate::AnalogOutputStatusIterator,
    crate::analog_output_status_iterator_next,
    |x| format!("{} {:016x} {:#04x} {}", x.index, x.value.to_bits(), x.flags.value, f_time(&x.time))
);
rh_iter_cb!(
    rh_boce,
    "boce",
    crate::BinaryOutputCommandEventIterator,
    crate::binary_output_command_event_iterator_next,
    |x| format!("{} {} {} {}", x.index, x.commanded_state, norm(&x.status()), f_time(&x.time))
);
rh_iter_cb!(
    rh_aoce,
    "aoce",
    crate::AnalogOutputCommandEventIterator,
    crate::analog_output_command_event_iterator_next,
    |x| format!(
        "{} {:016x} {} {} {}",
        x.index,
        x.commanded_value.to_bits(),
        norm(&x.command_type()),
        norm(&x.status()),
        f_time(&x.time)
    )
);
rh_iter_cb!(
    rh_uint,
    "uint",
    crate::UnsignedIntegerIterator,
    crate::unsigned_integer_iterator_next,
    |x| format!("{} {}", x.index, x.value)
);

extern "C" fn rh_octets<'a>(
    info: ffi::HeaderInfo,
    values: *mut crate::OctetStringIterator<'a>,
    ctx: *mut c_void,
) {
    let l = unsafe { log(ctx) };
    l.push(format!("octets {}", f_info(&info)));
    loop {
        let item = unsafe { crate::octet_string_iterator_next(values) };
        let Some(x) = item else { break };
        let mut bytes = vec![];
        loop {
            let p = unsafe { crate::byte_iterator_next(x.value) };
            if p.is_null() {
                break;
            }
            bytes.push(unsafe { *p });
        }
        l.push(format!("{} {:02x?}", x.index, bytes));
    }
}

extern "C" fn rh_abs_time(info: ffi::HeaderInfo, time: ffi::Timestamp, ctx: *mut c_void) {
    unsafe { log(ctx) }.push(format!("abstime {} {}", f_info(&info), f_time(&time)));
}

fn read_handler(ctx: *mut Log) -> ffi::ReadHandler {
    ffi::ReadHandler {
        begin_fragment: Some(rh_begin),
        end_fragment: Some(rh_end),
        handle_binary_input: Some(rh_binary),
        handle_double_bit_binary_input: Some(rh_double),
        handle_binary_output_status: Some(rh_bos),
        handle_counter: Some(rh_counter),
        handle_frozen_counter: Some(rh_frozen),
        handle_analog_input: Some(rh_analog),
        handle_frozen_analog_input: Some(rh_frozen_analog),
        handle_analog_output_status: Some(rh_aos),
        handle_binary_output_command_event: Some(rh_boce),
        handle_analog_output_command_event: Some(rh_aoce),
        handle_unsigned_integer: Some(rh_uint),
        handle_octet_string: Some(rh_octets),
        handle_abs_time: Some(rh_abs_time),
        handle_string_attr: None,
        handle_variation_list_attr: None,
        handle_uint_attr: None,
        handle_bool_attr: None,
        handle_int_attr: None,
        handle_time_attr: None,
        handle_float_attr: None,
        handle_octet_string_attr: None,
        handle_bit_string_attr: None,
        on_destroy: None,
        ctx: ctx as *mut c_void,
    }
}

fn some_time(r: &mut Rng) -> Option<Time> {
    let v = match r.below(4) {
        0 => 0,
        1 => 0x0000_FFFF_FFFF_FFFF,
        _ => r.u64() & 0x0000_FFFF_FFFF_FFFF,
    };
    match r.below(3) {
        0 => None,
        1 => Some(Time::synchronized(v)),
        _ => Some(Time::unsynchronized(v)),
    }
}

fn some_f64(r: &mut Rng) -> f64 {
    match r.below(8) {
        0 => f64::NAN,
        1 => f64::INFINITY,
        2 => f64::NEG_INFINITY,
        3 => -0.0,
        4 => f64::MAX,
        5 => f64::MIN_POSITIVE,
        _ => f64::from_bits(r.u64()),
    }
}

fn all_variations() -> Vec<Variation> {
    dnp3::verif::util::all_variations()
}

const QUALIFIERS: [QualifierCode; 8] = [
    QualifierCode::Range8,
    QualifierCode::Range16,
    QualifierCode::AllObjects,
    QualifierCode::Count8,
    QualifierCode::Count16,
    QualifierCode::CountAndPrefix8,
    QualifierCode::CountAndPrefix16,
    QualifierCode::FreeFormat16,
];

fn compare(a: &ShardArgs, what: &str, sig: &str, got: &[String], want: &[String]) {
    out::eval(1);
    if got != want {
        let k = got
            .iter()
            .zip(want.iter())
            .position(|(g, w)| g != w)
            .unwrap_or(got.len().min(want.len()));
        viol(
            a,
            "callback_mismatch",
            &format!("{what}|{sig}"),
            format!(
                "{what}: the callback side saw {} entries, {} expected; first difference at {k}: got {:?}, expected {:?}",
                got.len(),
                want.len(),
                got.get(k),
                want.get(k)
            ),
        );
    } else {
        out::count(&format!("callbacks_ok_{what}"), 1);
        out::count("callback_entries_compared", got.len() as u64);
    }
}

/// K1: the master's `ReadHandler` and association callbacks
pub fn read_handler_adapter(a: &ShardArgs, r: &mut Rng, rounds: usize) {
    let variations = all_variations();
    let mut seen_types = std::collections::BTreeSet::new();
    for round in 0..rounds {
        let mut got: Box<Log> = Box::new(vec![]);
        let mut want: Log = vec![];
        let mut h = read_handler(&mut *got as *mut Log);
        // fragment brackets: every control octet / IIN combination over the rounds
        let ctrl = r.u8();
        let header = ResponseHeader {
            control: dnp3::verif::util::control_field_from(ctrl),
            function: if r.bool() {
                ResponseFunction::Response
            } else {
                ResponseFunction::UnsolicitedResponse
            },
            iin: Iin {
                iin1: Iin1 { value: if round < 256 { round as u8 } else { r.u8() } },
                iin2: Iin2 { value: if round < 256 { (255 - round) as u8 } else { r.u8() } },
            },
        };
        let rt = *r.pick(&[
            ReadType::StartupIntegrity,
            ReadType::Unsolicited,
            ReadType::SinglePoll,
            ReadType::PeriodicPoll,
        ]);
        let _ = ReadHandler::begin_fragment(&mut h, rt, header);
        want.push(format!("begin {} {}", norm(&rt), n_header(&header)));
        let nheaders = r.range(1, 5);
        for _ in 0..nheaders {
            let v = *r.pick(&variations);
            let q = *r.pick(&QUALIFIERS);
            let (ev, fl) = (r.bool(), r.bool());
            let info = dnp3::verif::util::header_info(v, q, ev, fl);
            let istr = n_info(v, q, ev, fl);
            let n = match r.below(6) {
                0 => 0,
                1 => 1,
                _ => r.range(2, 9) as usize,
            };
            let kind = r.below(14);
            seen_types.insert(kind);
            macro_rules! flagged {
                ($label:literal, $method:ident, $ty:ident, $val:expr, $fmtv:expr) => {{
                    let items: Vec<($ty, u16)> = (0..n)
                        .map(|_| {
                            (
                                $ty {
                                    value: $val,
                                    flags: Flags::new(r.u8()),
                                    time: some_time(r),
                                },
                                r.u16(),
                            )
                        })
                        .collect();
                    want.push(format!("{} {}", $label, istr));
                    for (m, i) in &items {
                        want.push(format!(
                            "{} {} {:#04x} {}",
                            i,
                            $fmtv(&m.value),
                            m.flags.value,
                            n_time(&m.time)
                        ));
                    }
                    ReadHandler::$method(&mut h, info, &mut items.into_iter());
                }};
            }
            match kind {
                0 => flagged!("binary", handle_binary_input, BinaryInput, r.bool(), |v: &bool| v.to_string()),
                1 => flagged!(
                    "double",
                    handle_double_bit_binary_input,
                    DoubleBitBinaryInput,
                    *r.pick(&[
                        DoubleBit::Intermediate,
                        DoubleBit::DeterminedOff,
                        DoubleBit::DeterminedOn,
                        DoubleBit::Indeterminate
                    ]),
                    |v: &DoubleBit| norm(v)
                ),
                2 => flagged!("bos", handle_binary_output_status, BinaryOutputStatus, r.bool(), |v: &bool| v.to_string()),
                3 => flagged!("counter", handle_counter, Counter, r.u64() as u32, |v: &u32| v.to_string()),
                4 => flagged!("frozen", handle_frozen_counter, FrozenCounter, r.u64() as u32, |v: &u32| v.to_string()),
                5 => flagged!("analog", handle_analog_input, AnalogInput, some_f64(r), |v: &f64| format!("{:016x}", v.to_bits())),
                6 => flagged!("frozenanalog", handle_frozen_analog_input, FrozenAnalogInput, some_f64(r), |v: &f64| format!("{:016x}", v.to_bits())),
                7 => flagged!("aos", handle_analog_output_status, AnalogOutputStatus, some_f64(r), |v: &f64| format!("{:016x}", v.to_bits())),
                8 => {
                    let items: Vec<(BinaryOutputCommandEvent, u16)> = (0..n)
                        .map(|_| {
                            (
                                BinaryOutputCommandEvent {
                                    commanded_state: r.bool(),
                                    status: dnp3::app::control::CommandStatus::from(r.u8()),
                                    time: some_time(r),
                                },
                                r.u16(),
                            )
                        })
                        .collect();
                    want.push(format!("boce {istr}"));
                    for (m, i) in &items {
                        want.push(format!(
                            "{} {} {} {}",
                            i,
                            m.commanded_state,
                            norm(&m.status),
                            n_time(&m.time)
                        ));
                    }
                    ReadHandler::handle_binary_output_command_event(&mut h, info, &mut items.into_iter());
                }
                9 => {
                    let items: Vec<(AnalogOutputCommandEvent, u16)> = (0..n)
                        .map(|_| {
                            let cv = match r.below(4) {
                                0 => AnalogCommandValue::I16(r.u16() as i16),
                                1 => AnalogCommandValue::I32(r.u64() as i32),
                                2 => AnalogCommandValue::F32(f32::from_bits(r.u64() as u32)),
                                _ => AnalogCommandValue::F64(some_f64(r)),
                            };
                            (
                                AnalogOutputCommandEvent {
                                    status: dnp3::app::control::CommandStatus::from(r.u8()),
                                    commanded_value: cv,
                                    time: some_time(r),
                                },
                                r.u16(),
                            )
                        })
                        .collect();
                    want.push(format!("aoce {istr}"));
                    for (m, i) in &items {
                        let (val, ty): (f64, &str) = match m.commanded_value {
                            AnalogCommandValue::I16(x) => (x as f64, "i16"),
                            AnalogCommandValue::I32(x) => (x as f64, "i32"),
                            AnalogCommandValue::F32(x) => (x as f64, "f32"),
                            AnalogCommandValue::F64(x) => (x, "f64"),
                        };
                        want.push(format!(
                            "{} {:016x} {} {} {}",
                            i,
                            val.to_bits(),
                            ty,
                            norm(&m.status),
                            n_time(&m.time)
                        ));
                    }
                    ReadHandler::handle_analog_output_command_event(&mut h, info, &mut items.into_iter());
                }
                10 => {
                    let items: Vec<(UnsignedInteger, u16)> = (0..n)
                        .map(|_| (UnsignedInteger { value: r.u8() }, r.u16()))
                        .collect();
                    want.push(format!("uint {istr}"));
                    for (m, i) in &items {
                        want.push(format!("{} {}", i, m.value));
                    }
                    ReadHandler::handle_unsigned_integer(&mut h, info, &mut items.into_iter());
                }
                11 => {
                    let store: Vec<(Vec<u8>, u16)> = (0..n)
                        .map(|_| {
                            let len = match r.below(4) {
                                0 => 0,
                                1 => 255,
                                _ => r.range(1, 20) as usize,
                            };
                            ((0..len).map(|_| r.u8()).collect(), r.u16())
                        })
                        .collect();
                    want.push(format!("octets {istr}"));
                    for (b, i) in &store {
                        want.push(format!("{} {:02x?}", i, b));
                    }
                    let mut it = store.iter().map(|(b, i)| (b.as_slice(), *i));
                    ReadHandler::handle_octet_string(&mut h, info, &mut it);
                }
                12 => {
                    let t = Timestamp::new(r.u64() & 0x0000_FFFF_FFFF_FFFF);
                    want.push(format!(
                        "abstime {istr} synchronizedtime:{}",
                        t.raw_value()
                    ));
                    // the binding reports an absolute time as a synchronized time stamp
                    ReadHandler::handle_abs_time(&mut h, info, t);
                }
                _ => {
                    // two headers of different types back to back must not share iterator state
                    let items: Vec<(Counter, u16)> = vec![(
                        Counter {
                            value: 7,
                            flags: Flags::new(1),
                            time: None,
                        },
                        9,
                    )];
                    want.push(format!("counter {istr}"));
                    want.push("9 7 0x01 notime".into());
                    ReadHandler::handle_counter(&mut h, info, &mut items.into_iter());
                }
            }
        }
        let _ = ReadHandler::end_fragment(&mut h, rt, header);
        want.push(format!("end {} {}", norm(&rt), n_header(&header)));
        compare(a, "read_handler", &format!("ctrl{}", ctrl >> 4), &got, &want);
    }
    out::count("read_handler_measurement_kinds", seen_types.len() as u64);
}

// ---- association information -----------------------------------------------------------------

extern "C" fn ai_start(task_type: c_int, fc: c_int, seq: u8, ctx: *mut c_void) {
    unsafe { log(ctx) }.push(format!(
        "start {} {} {seq}",
        norm(&ffi::TaskType::from(task_type)),
        norm(&ffi::FunctionCode::from(fc))
    ));
}
extern "C" fn ai_success(task_type: c_int, fc: c_int, seq: u8, ctx: *mut c_void) {
    unsafe { log(ctx) }.push(format!(
        "success {} {} {seq}",
        norm(&ffi::TaskType::from(task_type)),
        norm(&ffi::FunctionCode::from(fc))
    ));
}
extern "C" fn ai_fail(task_type: c_int, error: c_int, ctx: *mut c_void) {
    unsafe { log(ctx) }.push(format!(
        "fail {} {}",
        norm(&ffi::TaskType::from(task_type)),
        norm(&ffi::TaskError::from(error))
    ));
}
extern "C" fn ai_unsol(is_duplicate: bool, seq: u8, ctx: *mut c_void) {
    unsafe { log(ctx) }.push(format!("unsol {is_duplicate} {seq}"));
}

extern "C" fn ah_time_valid(ctx: *mut c_void) -> ffi::UtcTimestamp {
    let v = unsafe { *(ctx as *mut u64) };
    ffi::UtcTimestamp {
        value: v,
        is_valid: true,
    }
}
extern "C" fn ah_time_invalid(ctx: *mut c_void) -> ffi::UtcTimestamp {
    let v = unsafe { *(ctx as *mut u64) };
    ffi::UtcTimestamp {
        value: v,
        is_valid: false,
    }
}

pub fn association_adapters(a: &ShardArgs, r: &mut Rng) {
    use dnp3::master::{TaskError, TaskType};
    let task_types = [
        TaskType::UserRead,
        TaskType::PeriodicPoll,
        TaskType::StartupIntegrity,
        TaskType::AutoEventScan,
        TaskType::Command,
        TaskType::ClearRestartBit,
        TaskType::EnableUnsolicited,
        TaskType::DisableUnsolicited,
        TaskType::TimeSync,
        TaskType::Restart,
        TaskType::WriteDeadBands,
        TaskType::GenericEmptyResponse(FunctionCode::Write),
        TaskType::FileRead,
        TaskType::GetFileInfo,
        TaskType::FileWriteBlock,
        TaskType::FileOpen,
        TaskType::FileClose,
        TaskType::FileAuth,
    ];
    let mut got: Box<Log> = Box::new(vec![]);
    let mut want: Log = vec![];
    let mut info = ffi::AssociationInformation {
        task_start: Some(ai_start),
        task_success: Some(ai_success),
        task_fail: Some(ai_fail),
        unsolicited_response: Some(ai_unsol),
        on_destroy: None,
        ctx: &mut *got as *mut Log as *mut c_void,
    };
    let tname = |t: &TaskType| {
        let s = norm(t);
        s
    };
    for t in task_types.iter() {
        for code in 0..=255u8 {
            let Some(fc) = FunctionCode::from(code) else {
                continue;
            };
            let seq = dnp3::verif::util::control_field_from(r.below(16) as u8).seq;
            AssociationInformation::task_start(&mut info, *t, fc, seq);
            want.push(format!("start {} {} {}", tname(t), norm(&fc), seq.value()));
            AssociationInformation::task_success(&mut info, *t, fc, seq);
            want.push(format!("success {} {} {}", tname(t), norm(&fc), seq.value()));
        }
        for e in super::all_task_errors() {
            let name = super::task_error_name(&e).to_lowercase().replace('_', "");
            AssociationInformation::task_fail(&mut info, *t, e);
            want.push(format!("fail {} {}", tname(t), name));
        }
    }
    for dup in [false, true] {
        for s in 0..16u8 {
            AssociationInformation::unsolicited_response(&mut info, dup, dnp3::verif::util::control_field_from(s).seq);
            want.push(format!("unsol {dup} {s}"));
        }
    }
    compare(a, "association_information", "all", &got, &want);
    // the master asks the application for the time
    for _ in 0..64 {
        let mut v: u64 = r.u64() & 0x0000_FFFF_FFFF_FFFF;
        for valid in [true, false] {
            let h = ffi::AssociationHandler {
                get_current_time: Some(if valid { ah_time_valid } else { ah_time_invalid }),
                on_destroy: None,
                ctx: &mut v as *mut u64 as *mut c_void,
            };
            let t = AssociationHandler::get_current_time(&h);
            out::eval(1);
            let want = if valid { Some(v) } else { None };
            if t.map(|x| x.raw_value()) != want {
                viol(
                    a,
                    "callback_mismatch",
                    "association_handler|get_current_time",
                    format!("the application answered (value {v}, valid {valid}); the master received {t:?}"),
                );
            } else {
                out::count("callbacks_ok_get_current_time", 1);
            }
        }
    }
}

// ---- K2: the outstation's application, information and control callbacks --------------------

use dnp3::app::control::*;
use dnp3::outstation::database::DatabaseHandle;
use dnp3::outstation::{
    ApplicationIin, BroadcastAction, BufferState, ClassCount, ControlHandler, ControlSupport,
    FreezeIndices, FreezeInterval, FreezeType, OperateType, OutstationApplication,
    OutstationInformation, RequestError, RestartDelay, TypeCount,
};
use std::sync::atomic::{AtomicI32, AtomicU32, AtomicUsize, Ordering};

/// what the recording callbacks answer: an enumeration value, a number, the database pointer they expect
static RET: AtomicI32 = AtomicI32::new(0);
static RET_NUM: AtomicU32 = AtomicU32::new(0);
static DB_PTR: AtomicUsize = AtomicUsize::new(0);

fn db_ok(p: *mut DatabaseHandle) -> &'static str {
    if p as usize == DB_PTR.load(Ordering::Relaxed) {
        "db"
    } else {
        "WRONG-DATABASE-POINTER"
    }
}

fn f_g12(v: &ffi::Group12Var1) -> String {
    format!(
        "{}/{}/{}/{} count{} on{} off{}",
        norm(&v.code.tcc()),
        v.code.clear,
        v.code.queue,
        norm(&v.code.op_type()),
        v.count,
        v.on_time,
        v.off_time
    )
}

fn n_g12(v: &Group12Var1) -> String {
    let tcc = match v.code.tcc {
        TripCloseCode::Unknown(_) => "nul".to_string(),
        x => norm(&x),
    };
    let op = match v.code.op_type {
        OpType::Unknown(_) => "nul".to_string(),
        x => norm(&x),
    };
    format!(
        "{}/{}/{}/{} count{} on{} off{}",
        tcc, v.code.clear, v.code.queue, op, v.count, v.on_time, v.off_time
    )
}

extern "C" fn ch_begin(ctx: *mut c_void) {
    unsafe { log(ctx) }.push("begin".into());
}
extern "C" fn ch_end(db: *mut DatabaseHandle, ctx: *mut c_void) {
    unsafe { log(ctx) }.push(format!("end {}", db_ok(db)));
}
extern "C" fn ch_sel_g12(v: ffi::Group12Var1, index: u16, db: *mut DatabaseHandle, ctx: *mut c_void) -> c_int {
    unsafe { log(ctx) }.push(format!("select g12v1 {} {index} {}", f_g12(&v), db_ok(db)));
    RET.load(Ordering::Relaxed)
}
extern "C" fn ch_op_g12(v: ffi::Group12Var1, index: u16, op: c_int, db: *mut DatabaseHandle, ctx: *mut c_void) -> c_int {
    unsafe { log(ctx) }.push(format!(
        "operate g12v1 {} {index} {} {}",
        f_g12(&v),
        norm(&ffi::OperateType::from(op)),
        db_ok(db)
    ));
    RET.load(Ordering::Relaxed)
}
macro_rules! ch_analog {
    ($sel:ident, $op:ident, $label:literal, $ty:ty, |$v:ident| $fmt:expr) => {
        extern "C" fn $sel($v: $ty, index: u16, db: *mut DatabaseHandle, ctx: *mut c_void) -> c_int {
            unsafe { log(ctx) }.push(format!("select {} {} {index} {}", $label, $fmt, db_ok(db)));
            RET.load(Ordering::Relaxed)
        }
        extern "C" fn $op($v: $ty, index: u16, op: c_int, db: *mut DatabaseHandle, ctx: *mut c_void) -> c_int {
            unsafe { log(ctx) }.push(format!(
                "operate {} {} {index} {} {}",
                $label,
                $fmt,
                norm(&ffi::OperateType::from(op)),
                db_ok(db)
            ));
            RET.load(Ordering::Relaxed)
        }
    };
}
ch_analog!(ch_sel_v1, ch_op_v1, "g41v1", i32, |v| v.to_string());
ch_analog!(ch_sel_v2, ch_op_v2, "g41v2", i16, |v| v.to_string());
ch_analog!(ch_sel_v3, ch_op_v3, "g41v3", f32, |v| format!("{:08x}", v.to_bits()));
ch_analog!(ch_sel_v4, ch_op_v4, "g41v4", f64, |v| format!("{:016x}", v.to_bits()));

fn control_handler(ctx: *mut Log) -> ffi::ControlHandler {
    ffi::ControlHandler {
        begin_fragment: Some(ch_begin),
        end_fragment: Some(ch_end),
        select_g12v1: Some(ch_sel_g12),
        operate_g12v1: Some(ch_op_g12),
        select_g41v1: Some(ch_sel_v1),
        operate_g41v1: Some(ch_op_v1),
        select_g41v2: Some(ch_sel_v2),
        operate_g41v2: Some(ch_op_v2),
        select_g41v3: Some(ch_sel_v3),
        operate_g41v3: Some(ch_op_v3),
        select_g41v4: Some(ch_sel_v4),
        operate_g41v4: Some(ch_op_v4),
        on_destroy: None,
        ctx: ctx as *mut c_void,
    }
}

const OP_TYPES: [OperateType; 3] = [
    OperateType::SelectBeforeOperate,
    OperateType::DirectOperate,
    OperateType::DirectOperateNoAck,
];

pub fn control_adapter(a: &ShardArgs, r: &mut Rng, rounds: usize) {
    let mut out_handle = dnp3::verif::util::detached_outstation(4);
    let mut db = out_handle.get_database_handle();
    DB_PTR.store(&mut db as *mut DatabaseHandle as usize, Ordering::Relaxed);
    let statuses = super::variants::<ffi::CommandStatus>();
    let mut got: Box<Log> = Box::new(vec![]);
    let mut want: Log = vec![];
    let mut h = control_handler(&mut *got as *mut Log);
    let mut returned = 0u64;
    for round in 0..rounds {
        ControlHandler::begin_fragment(&mut h);
        want.push("begin".into());
        for _ in 0..r.range(1, 5) {
            // what the application answers, and what the library must get
            let st = statuses[(round + r.usize_below(statuses.len())) % statuses.len()].clone();
            RET.store(st.clone().into(), Ordering::Relaxed);
            let index = r.u16();
            let op = *r.pick(&OP_TYPES);
            let select = r.bool();
            let res: CommandStatus = match r.below(5) {
                0 => {
                    let c = Group12Var1::new(
                        dnp3::verif::util::control_code_from(r.u8()),
                        r.u8(),
                        r.u64() as u32,
                        r.u64() as u32,
                    );
                    if select {
                        want.push(format!("select g12v1 {} {index} db", n_g12(&c)));
                        ControlSupport::<Group12Var1>::select(&mut h, c, index, &mut db)
                    } else {
                        want.push(format!("operate g12v1 {} {index} {} db", n_g12(&c), norm(&op)));
                        ControlSupport::<Group12Var1>::operate(&mut h, c, index, op, &mut db)
                    }
                }
                1 => {
                    let c = Group41Var1::new(r.u64() as i32);
                    if select {
                        want.push(format!("select g41v1 {} {index} db", c.value));
                        ControlSupport::<Group41Var1>::select(&mut h, c, index, &mut db)
                    } else {
                        want.push(format!("operate g41v1 {} {index} {} db", c.value, norm(&op)));
                        ControlSupport::<Group41Var1>::operate(&mut h, c, index, op, &mut db)
                    }
                }
                2 => {
                    let c = Group41Var2::new(r.u16() as i16);
                    if select {
                        want.push(format!("select g41v2 {} {index} db", c.value));
                        ControlSupport::<Group41Var2>::select(&mut h, c, index, &mut db)
                    } else {
                        want.push(format!("operate g41v2 {} {index} {} db", c.value, norm(&op)));
                        ControlSupport::<Group41Var2>::operate(&mut h, c, index, op, &mut db)
                    }
                }
                3 => {
                    let c = Group41Var3::new(f32::from_bits(r.u64() as u32));
                    if select {
                        want.push(format!("select g41v3 {:08x} {index} db", c.value.to_bits()));
                        ControlSupport::<Group41Var3>::select(&mut h, c, index, &mut db)
                    } else {
                        want.push(format!("operate g41v3 {:08x} {index} {} db", c.value.to_bits(), norm(&op)));
                        ControlSupport::<Group41Var3>::operate(&mut h, c, index, op, &mut db)
                    }
                }
                _ => {
                    let c = Group41Var4::new(some_f64(r));
                    if select {
                        want.push(format!("select g41v4 {:016x} {index} db", c.value.to_bits()));
                        ControlSupport::<Group41Var4>::select(&mut h, c, index, &mut db)
                    } else {
                        want.push(format!("operate g41v4 {:016x} {index} {} db", c.value.to_bits(), norm(&op)));
                        ControlSupport::<Group41Var4>::operate(&mut h, c, index, op, &mut db)
                    }
                }
            };
            out::eval(1);
            if norm(&res) != norm(&st) {
                viol(
                    a,
                    "callback_mismatch",
                    &format!("control_status|{}", norm(&st)),
                    format!("the application answered {st:?}; the library received {res:?}"),
                );
            } else {
                returned += 1;
            }
        }
        let _ = ControlHandler::end_fragment(&mut h, &mut db);
        want.push("end db".into());
    }
    out::count("callbacks_ok_control_status_returned", returned);
    compare(a, "control_handler", "all", &got, &want);
    drop(out_handle);
}

// ---- outstation application ---------------------------------------------------------------------

extern "C" fn oa_delay(_ctx: *mut c_void) -> u16 {
    RET_NUM.load(Ordering::Relaxed) as u16
}
extern "C" fn oa_write_time(time: u64, ctx: *mut c_void) -> c_int {
    unsafe { log(ctx) }.push(format!("write_absolute_time {time}"));
    RET.load(Ordering::Relaxed)
}
extern "C" fn oa_iin(_ctx: *mut c_void) -> ffi::ApplicationIin {
    let v = RET_NUM.load(Ordering::Relaxed);
    ffi::ApplicationIin {
        need_time: v & 1 != 0,
        local_control: v & 2 != 0,
        device_trouble: v & 4 != 0,
        config_corrupt: v & 8 != 0,
    }
}
extern "C" fn oa_cold(ctx: *mut c_void) -> ffi::RestartDelay {
    unsafe { log(ctx) }.push("cold_restart".into());
    ffi::RestartDelay {
        restart_type: RET.load(Ordering::Relaxed),
        value: RET_NUM.load(Ordering::Relaxed) as u16,
    }
}
extern "C" fn oa_warm(ctx: *mut c_void) -> ffi::RestartDelay {
    unsafe { log(ctx) }.push("warm_restart".into());
    ffi::RestartDelay {
        restart_type: RET.load(Ordering::Relaxed),
        value: RET_NUM.load(Ordering::Relaxed) as u16,
    }
}
extern "C" fn oa_fr_all(ft: c_int, db: *mut DatabaseHandle, ctx: *mut c_void) -> c_int {
    unsafe { log(ctx) }.push(format!("freeze all {} {}", norm(&ffi::FreezeType::from(ft)), db_ok(db)));
    RET.load(Ordering::Relaxed)
}
extern "C" fn oa_fr_all_at(db: *mut DatabaseHandle, time: u64, interval: u32, ctx: *mut c_void) -> c_int {
    unsafe { log(ctx) }.push(format!("freeze all at {time} every {interval} {}", db_ok(db)));
    RET.load(Ordering::Relaxed)
}
extern "C" fn oa_fr_range(start: u16, stop: u16, ft: c_int, db: *mut DatabaseHandle, ctx: *mut c_void) -> c_int {
    unsafe { log(ctx) }.push(format!(
        "freeze {start}..{stop} {} {}",
        norm(&ffi::FreezeType::from(ft)),
        db_ok(db)
    ));
    RET.load(Ordering::Relaxed)
}
extern "C" fn oa_fr_range_at(start: u16, stop: u16, db: *mut DatabaseHandle, time: u64, interval: u32, ctx: *mut c_void) -> c_int {
    unsafe { log(ctx) }.push(format!("freeze {start}..{stop} at {time} every {interval} {}", db_ok(db)));
    RET.load(Ordering::Relaxed)
}
extern "C" fn oa_support_db(_ctx: *mut c_void) -> bool {
    RET_NUM.load(Ordering::Relaxed) != 0
}
extern "C" fn oa_begin_db(ctx: *mut c_void) {
    unsafe { log(ctx) }.push("begin_dead_bands".into());
}
extern "C" fn oa_write_db(index: u16, v: f64, ctx: *mut c_void) {
    unsafe { log(ctx) }.push(format!("dead_band {index} {:016x}", v.to_bits()));
}
extern "C" fn oa_end_db(ctx: *mut c_void) {
    unsafe { log(ctx) }.push("end_dead_bands".into());
}
extern "C" fn oa_begin_confirm(ctx: *mut c_void) {
    unsafe { log(ctx) }.push("begin_confirm".into());
}
extern "C" fn oa_cleared(id: u64, ctx: *mut c_void) {
    unsafe { log(ctx) }.push(format!("cleared {id}"));
}
extern "C" fn oa_end_confirm(s: ffi::BufferState, ctx: *mut c_void) {
    let c = &s.classes;
    let t = &s.types;
    unsafe { log(ctx) }.push(format!(
        "end_confirm classes {} {} {} types {} {} {} {} {} {} {} {}",
        c.num_class_1,
        c.num_class_2,
        c.num_class_3,
        t.num_binary_input,
        t.num_double_bit_binary_input,
        t.num_binary_output_status,
        t.num_counter,
        t.num_frozen_counter,
        t.num_analog,
        t.num_analog_output_status,
        t.num_octet_string
    ));
}

fn application(ctx: *mut Log) -> ffi::OutstationApplication {
    ffi::OutstationApplication {
        get_processing_delay_ms: Some(oa_delay),
        write_absolute_time: Some(oa_write_time),
        get_application_iin: Some(oa_iin),
        cold_restart: Some(oa_cold),
        warm_restart: Some(oa_warm),
        freeze_counters_all: Some(oa_fr_all),
        freeze_counters_all_at_time: Some(oa_fr_all_at),
        freeze_counters_range: Some(oa_fr_range),
        freeze_counters_range_at_time: Some(oa_fr_range_at),
        support_write_analog_dead_bands: Some(oa_support_db),
        begin_write_analog_dead_bands: Some(oa_begin_db),
        write_analog_dead_band: Some(oa_write_db),
        end_write_analog_dead_bands: Some(oa_end_db),
        write_string_attr: None,
        write_float_attr: None,
        write_double_attr: None,
        write_uint_attr: None,
        write_int_attr: None,
        write_octet_string_attr: None,
        write_bit_string_attr: None,
        write_time_attr: None,
        begin_confirm: Some(oa_begin_confirm),
        event_cleared: Some(oa_cleared),
        end_confirm: Some(oa_end_confirm),
        on_destroy: None,
        ctx: ctx as *mut c_void,
    }
}

fn request_result_name(r: &Result<(), RequestError>) -> String {
    match r {
        Ok(()) => "ok".into(),
        Err(e) => norm(e),
    }
}

pub fn application_adapter(a: &ShardArgs, r: &mut Rng) {
    let mut out_handle = dnp3::verif::util::detached_outstation(4);
    let mut db = out_handle.get_database_handle();
    DB_PTR.store(&mut db as *mut DatabaseHandle as usize, Ordering::Relaxed);
    let mut got: Box<Log> = Box::new(vec![]);
    let mut want: Log = vec![];
    let mut app = application(&mut *got as *mut Log);
    let mut check = |what: &str, ok: bool, why: String| {
        out::eval(1);
        if !ok {
            viol(a, "callback_mismatch", &format!("application|{what}"), why);
        } else {
            out::count("callbacks_ok_application_results", 1);
        }
    };
    // processing delay
    for v in [0u16, 1, 255, 256, 65535, r.u16()] {
        RET_NUM.store(v as u32, Ordering::Relaxed);
        let x = OutstationApplication::get_processing_delay_ms(&app);
        check("processing_delay", x == v, format!("application answered {v}, library received {x}"));
    }
    // time writes
    for res in super::variants::<ffi::WriteTimeResult>() {
        RET.store(res.clone().into(), Ordering::Relaxed);
        let t = r.u64() & 0x0000_FFFF_FFFF_FFFF;
        let x = OutstationApplication::write_absolute_time(&mut app, Timestamp::new(t));
        want.push(format!("write_absolute_time {t}"));
        check(
            "write_absolute_time",
            request_result_name(&x) == norm(&res),
            format!("application answered {res:?}, library received {x:?}"),
        );
    }
    // application indications: all 16 combinations
    for v in 0..16u32 {
        RET_NUM.store(v, Ordering::Relaxed);
        let x: ApplicationIin = OutstationApplication::get_application_iin(&app);
        let got_bits = (x.need_time as u32)
            | (x.local_control as u32) << 1
            | (x.device_trouble as u32) << 2
            | (x.config_corrupt as u32) << 3;
        check("application_iin", got_bits == v, format!("application answered bits {v:04b}, library received {x:?}"));
    }
    // restart delays
    for ty in super::variants::<ffi::RestartDelayType>() {
        for v in [0u16, 1, 65535, r.u16()] {
            RET.store(ty.clone().into(), Ordering::Relaxed);
            RET_NUM.store(v as u32, Ordering::Relaxed);
            for cold in [true, false] {
                let x = if cold {
                    want.push("cold_restart".into());
                    OutstationApplication::cold_restart(&mut app)
                } else {
                    want.push("warm_restart".into());
                    OutstationApplication::warm_restart(&mut app)
                };
                let ok = match (&ty, x) {
                    (ffi::RestartDelayType::NotSupported, None) => true,
                    (ffi::RestartDelayType::Seconds, Some(RestartDelay::Seconds(s))) => s == v,
                    (ffi::RestartDelayType::MilliSeconds, Some(RestartDelay::Milliseconds(s))) => s == v,
                    _ => false,
                };
                check("restart_delay", ok, format!("application answered ({ty:?}, {v}), library received {x:?}"));
            }
        }
    }
    // freezes: indices x type x answer
    for res in super::variants::<ffi::FreezeResult>() {
        RET.store(res.clone().into(), Ordering::Relaxed);
        for _ in 0..24 {
            let (start, stop) = (r.u16(), r.u16());
            let indices = if r.bool() {
                FreezeIndices::All
            } else {
                FreezeIndices::Range(start, stop)
            };
            let t = match r.below(3) {
                0 => 0u64,
                _ => r.u64() & 0x0000_FFFF_FFFF_FFFF,
            };
            let i = match r.below(3) {
                0 => 0u32,
                _ => r.u64() as u32,
            };
            let ft = match r.below(3) {
                0 => FreezeType::ImmediateFreeze,
                1 => FreezeType::FreezeAndClear,
                _ => FreezeType::FreezeAtTime(FreezeInterval::new(Timestamp::new(t), i)),
            };
            let idx = match indices {
                FreezeIndices::All => "all".to_string(),
                FreezeIndices::Range(s, e) => format!("{s}..{e}"),
            };
            want.push(match ft {
                FreezeType::ImmediateFreeze => format!("freeze {idx} immediatefreeze db"),
                FreezeType::FreezeAndClear => format!("freeze {idx} freezeandclear db"),
                FreezeType::FreezeAtTime(_) => format!("freeze {idx} at {t} every {i} db"),
            });
            let x = OutstationApplication::freeze_counter(&mut app, indices, ft, &mut db);
            check(
                "freeze_result",
                request_result_name(&x) == norm(&res),
                format!("application answered {res:?}, library received {x:?}"),
            );
        }
    }
    // dead-band writes
    for v in [0u32, 1] {
        RET_NUM.store(v, Ordering::Relaxed);
        let x = OutstationApplication::support_write_analog_dead_bands(&mut app);
        check("support_dead_bands", x == (v != 0), format!("application answered {v}, library received {x}"));
    }
    OutstationApplication::begin_write_analog_dead_bands(&mut app);
    want.push("begin_dead_bands".into());
    for _ in 0..32 {
        let (i, v) = (r.u16(), some_f64(r));
        OutstationApplication::write_analog_dead_band(&mut app, i, v);
        want.push(format!("dead_band {i} {:016x}", v.to_bits()));
    }
    let _ = OutstationApplication::end_write_analog_dead_bands(&mut app);
    want.push("end_dead_bands".into());
    // confirmation bracket with distinct sentinels in every counter
    for _ in 0..16 {
        OutstationApplication::begin_confirm(&mut app);
        want.push("begin_confirm".into());
        for _ in 0..r.range(0, 4) {
            let id = r.u64();
            OutstationApplication::event_cleared(&mut app, id);
            want.push(format!("cleared {id}"));
        }
        let n: Vec<usize> = (0..11).map(|k| (r.u16() as usize) * 16 + k).collect();
        let s = BufferState {
            classes: ClassCount {
                num_class_1: n[0],
                num_class_2: n[1],
                num_class_3: n[2],
            },
            types: TypeCount {
                num_binary_input: n[3],
                num_double_bit_binary_input: n[4],
                num_binary_output_status: n[5],
                num_counter: n[6],
                num_frozen_counter: n[7],
                num_analog: n[8],
                num_analog_output_status: n[9],
                num_octet_string: n[10],
            },
        };
        let _ = OutstationApplication::end_confirm(&mut app, s);
        want.push(format!(
            "end_confirm classes {} {} {} types {} {} {} {} {} {} {} {}",
            n[0], n[1], n[2], n[3], n[4], n[5], n[6], n[7], n[8], n[9], n[10]
        ));
    }
    drop(check);
    compare(a, "outstation_application", "all", &got, &want);
    drop(out_handle);
}

// ---- outstation information -------------------------------------------------------------------------

extern "C" fn oi_request(h: ffi::RequestHeader, ctx: *mut c_void) {
    let c = &h.control_field;
    unsafe { log(ctx) }.push(format!(
        "request fir{} fin{} con{} uns{} seq{} {}",
        c.fir,
        c.fin,
        c.con,
        c.uns,
        c.seq,
        norm(&h.function())
    ));
}
extern "C" fn oi_broadcast(fc: c_int, action: c_int, ctx: *mut c_void) {
    unsafe { log(ctx) }.push(format!(
        "broadcast {} {}",
        norm(&ffi::FunctionCode::from(fc)),
        norm(&ffi::BroadcastAction::from(action))
    ));
}
macro_rules! oi_seq {
    ($f:ident, $label:literal) => {
        extern "C" fn $f(ecsn: u8, ctx: *mut c_void) {
            unsafe { log(ctx) }.push(format!("{} {ecsn}", $label));
        }
    };
}
oi_seq!(oi_enter_sol, "enter_solicited_confirm_wait");
oi_seq!(oi_sol_timeout, "solicited_confirm_timeout");
oi_seq!(oi_sol_received, "solicited_confirm_received");
oi_seq!(oi_enter_unsol, "enter_unsolicited_confirm_wait");
oi_seq!(oi_unsol_confirmed, "unsolicited_confirmed");
extern "C" fn oi_new_request(ctx: *mut c_void) {
    unsafe { log(ctx) }.push("solicited_confirm_wait_new_request".into());
}
extern "C" fn oi_wrong_seq(ecsn: u8, seq: u8, ctx: *mut c_void) {
    unsafe { log(ctx) }.push(format!("wrong_solicited_confirm_seq {ecsn} {seq}"));
}
extern "C" fn oi_unexpected(uns: bool, seq: u8, ctx: *mut c_void) {
    unsafe { log(ctx) }.push(format!("unexpected_confirm {uns} {seq}"));
}
extern "C" fn oi_unsol_timeout(ecsn: u8, retry: bool, ctx: *mut c_void) {
    unsafe { log(ctx) }.push(format!("unsolicited_confirm_timeout {ecsn} {retry}"));
}
extern "C" fn oi_clear_restart(ctx: *mut c_void) {
    unsafe { log(ctx) }.push("clear_restart_iin".into());
}

pub fn information_adapter(a: &ShardArgs, r: &mut Rng) {
    let mut got: Box<Log> = Box::new(vec![]);
    let mut want: Log = vec![];
    let mut info = ffi::OutstationInformation {
        process_request_from_idle: Some(oi_request),
        broadcast_received: Some(oi_broadcast),
        enter_solicited_confirm_wait: Some(oi_enter_sol),
        solicited_confirm_timeout: Some(oi_sol_timeout),
        solicited_confirm_received: Some(oi_sol_received),
        solicited_confirm_wait_new_request: Some(oi_new_request),
        wrong_solicited_confirm_seq: Some(oi_wrong_seq),
        unexpected_confirm: Some(oi_unexpected),
        enter_unsolicited_confirm_wait: Some(oi_enter_unsol),
        unsolicited_confirm_timeout: Some(oi_unsol_timeout),
        unsolicited_confirmed: Some(oi_unsol_confirmed),
        clear_restart_iin: Some(oi_clear_restart),
        on_destroy: None,
        ctx: &mut *got as *mut Log as *mut c_void,
    };
    let sq = |x: u8| dnp3::verif::util::control_field_from(x & 15).seq;
    for code in 0..=255u8 {
        let Some(fc) = FunctionCode::from(code) else {
            continue;
        };
        // every control octet with every function code over the loop
        for k in 0..4u8 {
            let ctrl = code.wrapping_mul(7).wrapping_add(k.wrapping_mul(67)) ^ r.u8();
            let cf = dnp3::verif::util::control_field_from(ctrl);
            OutstationInformation::process_request_from_idle(
                &mut info,
                RequestHeader {
                    control: cf,
                    function: fc,
                },
            );
            want.push(format!(
                "request fir{} fin{} con{} uns{} seq{} {}",
                cf.fir,
                cf.fin,
                cf.con,
                cf.uns,
                cf.seq.value(),
                norm(&fc)
            ));
        }
        for action in [
            BroadcastAction::Processed,
            BroadcastAction::IgnoredByConfiguration,
            BroadcastAction::BadObjectHeaders,
            BroadcastAction::UnsupportedFunction(fc),
        ] {
            OutstationInformation::broadcast_received(&mut info, fc, action);
            want.push(format!("broadcast {} {}", norm(&fc), norm(&action)));
        }
    }
    for s in 0..16u8 {
        let t = (s * 5 + 3) & 15;
        OutstationInformation::enter_solicited_confirm_wait(&mut info, sq(s));
        want.push(format!("enter_solicited_confirm_wait {s}"));
        OutstationInformation::solicited_confirm_timeout(&mut info, sq(s));
        want.push(format!("solicited_confirm_timeout {s}"));
        OutstationInformation::solicited_confirm_received(&mut info, sq(s));
        want.push(format!("solicited_confirm_received {s}"));
        OutstationInformation::solicited_confirm_wait_new_request(&mut info);
        want.push("solicited_confirm_wait_new_request".into());
        OutstationInformation::wrong_solicited_confirm_seq(&mut info, sq(s), sq(t));
        want.push(format!("wrong_solicited_confirm_seq {s} {t}"));
        for b in [false, true] {
            OutstationInformation::unexpected_confirm(&mut info, b, sq(s));
            want.push(format!("unexpected_confirm {b} {s}"));
            OutstationInformation::unsolicited_confirm_timeout(&mut info, sq(s), b);
            want.push(format!("unsolicited_confirm_timeout {s} {b}"));
        }
        OutstationInformation::enter_unsolicited_confirm_wait(&mut info, sq(s));
        want.push(format!("enter_unsolicited_confirm_wait {s}"));
        OutstationInformation::unsolicited_confirmed(&mut info, sq(s));
        want.push(format!("unsolicited_confirmed {s}"));
    }
    OutstationInformation::clear_restart_iin(&mut info);
    want.push("clear_restart_iin".into());
    compare(a, "outstation_information", "all", &got, &want);
}

// ---- K3: promise completion -> completion / failure callbacks -------------------------------------

use dnp3::master::{
    AuthKey, CommandError, CommandResponseError, FileError, FileHandle, FileInfo, OpenFile, TaskError, TimeSyncError,
    WriteError,
};
use sfio_promise::FutureType;

extern "C" fn pc_nothing(result: c_int, ctx: *mut c_void) {
    unsafe { log(ctx) }.push(format!("complete {}", norm(&ffi::Nothing::from(result))));
}
extern "C" fn pc_u32(result: u32, ctx: *mut c_void) {
    unsafe { log(ctx) }.push(format!("complete {result}"));
}
extern "C" fn pc_u64(result: u64, ctx: *mut c_void) {
    unsafe { log(ctx) }.push(format!("complete {result}"));
}
extern "C" fn pc_open(result: ffi::OpenFile, ctx: *mut c_void) {
    unsafe { log(ctx) }.push(format!(
        "complete handle{} size{} block{}",
        result.file_handle, result.file_size, result.max_block_size
    ));
}
fn f_perm(p: &ffi::Permissions) -> String {
    let b = |x: bool| if x { '1' } else { '0' };
    [&p.world, &p.group, &p.owner]
        .iter()
        .map(|s| format!("{}{}{}", b(s.execute), b(s.write), b(s.read)))
        .collect::<Vec<_>>()
        .join("/")
}
fn n_perm(p: &dnp3::app::Permissions) -> String {
    let b = |x: bool| if x { '1' } else { '0' };
    [&p.world, &p.group, &p.owner]
        .iter()
        .map(|s| format!("{}{}{}", b(s.execute), b(s.write), b(s.read)))
        .collect::<Vec<_>>()
        .join("/")
}
fn f_file_info(i: &ffi::FileInfo) -> String {
    format!(
        "{:?} {} size{} t{} {}",
        i.file_name().to_string_lossy(),
        norm(&i.file_type()),
        i.size,
        i.time_created,
        f_perm(&i.permissions)
    )
}
fn n_file_info(i: &FileInfo) -> String {
    let ty = match i.file_type {
        dnp3::app::FileType::Directory => "directory",
        dnp3::app::FileType::File => "simple",
        dnp3::app::FileType::Other(_) => "other",
    };
    format!(
        "{:?} {} size{} t{} {}",
        i.name,
        ty,
        i.size,
        i.time_created.raw_value(),
        n_perm(&i.permissions)
    )
}
extern "C" fn pc_info(result: ffi::FileInfo, ctx: *mut c_void) {
    unsafe { log(ctx) }.push(format!("complete {}", f_file_info(&result)));
}
extern "C" fn pc_dir(result: *mut crate::FileInfoIterator, ctx: *mut c_void) {
    let l = unsafe { log(ctx) };
    l.push("complete listing".into());
    while let Some(i) = unsafe { crate::master::file_info_iterator_next(result) } {
        l.push(format!("entry {}", f_file_info(i)));
    }
}
extern "C" fn pf(error: c_int, ctx: *mut c_void) {
    unsafe { log(ctx) }.push(format!("failure {error}"));
}

fn some_file_info(r: &mut Rng) -> FileInfo {
    let set = |r: &mut Rng| dnp3::app::PermissionSet {
        execute: r.bool(),
        write: r.bool(),
        read: r.bool(),
    };
    FileInfo {
        name: format!("dir/file-{}.bin", r.u16()),
        file_type: match r.below(3) {
            0 => dnp3::app::FileType::Directory,
            1 => dnp3::app::FileType::File,
            _ => dnp3::app::FileType::Other(r.u16() | 2),
        },
        size: r.u64() as u32,
        time_created: Timestamp::new(r.u64() & 0x0000_FFFF_FFFF_FFFF),
        permissions: dnp3::app::Permissions {
            world: set(r),
            group: set(r),
            owner: set(r),
        },
    }
}

pub fn promise_adapters(a: &ShardArgs, r: &mut Rng) {
    let mut got: Box<Log> = Box::new(vec![]);
    let mut want: Log = vec![];
    let ctx = &mut *got as *mut Log as *mut c_void;
    let task_errors = super::all_task_errors();
    let mut drops_ok = 0u64;
    macro_rules! on_drop_is_shutdown {
        ($cb:ident, $res:ty) => {{
            let x: $res = <ffi::$cb as FutureType<$res>>::on_drop();
            out::eval(1);
            let txt = format!("{x:?}").to_lowercase();
            if x.is_ok() || !txt.contains("shutdown") {
                viol(
                    a,
                    "callback_mismatch",
                    concat!("promise_dropped|", stringify!($cb)),
                    format!("a dropped promise of {} resolves to {x:?}", stringify!($cb)),
                );
            } else {
                drops_ok += 1;
            }
        }};
    }
    // one macro per shape: (callback struct, completion callback, result type, ok values with their rendering, errors with the binding error type)
    macro_rules! promise {
        ($cb:ident, $complete:ident, $ok:ty, $err:ty, $ffi_err:ident, $oks:expr, $errs:expr) => {{
            let oks: Vec<($ok, String)> = $oks;
            for (v, txt) in oks {
                let cb = ffi::$cb {
                    on_complete: Some($complete),
                    on_failure: Some(pf),
                    on_destroy: None,
                    ctx,
                };
                want.push(format!("complete {txt}"));
                <ffi::$cb as FutureType<Result<$ok, $err>>>::complete(cb, Ok(v));
            }
            let errs: Vec<$err> = $errs;
            for e in errs {
                let cb = ffi::$cb {
                    on_complete: Some($complete),
                    on_failure: Some(pf),
                    on_destroy: None,
                    ctx,
                };
                let f: ffi::$ffi_err = e.clone().into();
                let code: c_int = f.into();
                want.push(format!("failure {code}"));
                <ffi::$cb as FutureType<Result<$ok, $err>>>::complete(cb, Err(e));
            }
            on_drop_is_shutdown!($cb, Result<$ok, $err>);
        }};
    }
    let file_errors = |task_errors: &Vec<TaskError>| -> Vec<FileError> {
        let mut v = vec![
            FileError::BadResponse,
            FileError::BadStatus(dnp3::app::FileStatus::PermissionDenied),
            FileError::NoPermission,
            FileError::BadBlockNum,
            FileError::AbortByUser,
            FileError::MaxLengthExceeded,
            FileError::WrongHandle,
        ];
        v.extend(task_errors.iter().map(|e| FileError::TaskError(*e)));
        v
    };
    promise!(
        ReadTaskCallback,
        pc_nothing,
        (),
        TaskError,
        ReadError,
        vec![((), "nothing".into())],
        task_errors.clone()
    );
    promise!(
        LinkStatusCallback,
        pc_nothing,
        (),
        TaskError,
        LinkStatusError,
        vec![((), "nothing".into())],
        task_errors.clone()
    );
    promise!(
        RestartTaskCallback,
        pc_u64,
        std::time::Duration,
        TaskError,
        RestartError,
        [0u64, 1, 999, 65_535_000, r.u64() % 100_000_000]
            .iter()
            .map(|ms| (std::time::Duration::from_millis(*ms), ms.to_string()))
            .collect(),
        task_errors.clone()
    );
    promise!(
        EmptyResponseCallback,
        pc_nothing,
        (),
        WriteError,
        EmptyResponseError,
        vec![((), "nothing".into())],
        {
            let mut v: Vec<WriteError> = task_errors.iter().map(|e| WriteError::Task(*e)).collect();
            v.push(WriteError::IinError(Iin2 { value: 4 }));
            v
        }
    );
    promise!(
        CommandTaskCallback,
        pc_nothing,
        (),
        CommandError,
        CommandError,
        vec![((), "nothing".into())],
        {
            let mut v: Vec<CommandError> = vec![];
            for e in &task_errors {
                v.push(CommandError::Task(*e));
                v.push(CommandError::Response(CommandResponseError::Request(*e)));
            }
            v.push(CommandError::Response(CommandResponseError::BadStatus(
                dnp3::app::control::CommandStatus::Timeout,
            )));
            v.push(CommandError::Response(CommandResponseError::HeaderCountMismatch));
            v.push(CommandError::Response(CommandResponseError::HeaderTypeMismatch));
            v.push(CommandError::Response(CommandResponseError::ObjectCountMismatch));
            v.push(CommandError::Response(CommandResponseError::ObjectValueMismatch));
            v
        }
    );
    promise!(
        TimeSyncTaskCallback,
        pc_nothing,
        (),
        TimeSyncError,
        TimeSyncError,
        vec![((), "nothing".into())],
        {
            let mut v: Vec<TimeSyncError> = task_errors.iter().map(|e| TimeSyncError::Task(*e)).collect();
            v.extend([
                TimeSyncError::ClockRollback,
                TimeSyncError::SystemTimeNotUnix,
                TimeSyncError::BadOutstationTimeDelay(9),
                TimeSyncError::Overflow,
                TimeSyncError::StillNeedsTime,
                TimeSyncError::SystemTimeNotAvailable,
            ]);
            v
        }
    );
    promise!(
        FileOperationCallback,
        pc_nothing,
        (),
        FileError,
        FileError,
        vec![((), "nothing".into())],
        file_errors(&task_errors)
    );
    promise!(
        FileAuthCallback,
        pc_u32,
        AuthKey,
        FileError,
        FileError,
        [0u32, 1, 0xFFFF_FFFF, r.u64() as u32]
            .iter()
            .map(|k| (AuthKey::new(*k), k.to_string()))
            .collect(),
        file_errors(&task_errors)
    );
    promise!(
        FileOpenCallback,
        pc_open,
        OpenFile,
        FileError,
        FileError,
        (0..6)
            .map(|_| {
                let (h, s, b) = (r.u64() as u32, r.u64() as u32, r.u16());
                (
                    OpenFile {
                        file_handle: FileHandle::new(h),
                        file_size: s,
                        max_block_size: b,
                    },
                    format!("handle{h} size{s} block{b}"),
                )
            })
            .collect(),
        file_errors(&task_errors)
    );
    promise!(
        FileInfoCallback,
        pc_info,
        FileInfo,
        FileError,
        FileError,
        (0..24)
            .map(|_| {
                let i = some_file_info(r);
                let t = n_file_info(&i);
                (i, t)
            })
            .collect(),
        file_errors(&task_errors)
    );
    // a directory listing: the entries in order
    for n in [0usize, 1, 2, 7] {
        let items: Vec<FileInfo> = (0..n).map(|_| some_file_info(r)).collect();
        want.push("complete listing".into());
        for i in &items {
            want.push(format!("entry {}", n_file_info(i)));
        }
        let cb = ffi::ReadDirectoryCallback {
            on_complete: Some(pc_dir),
            on_failure: Some(pf),
            on_destroy: None,
            ctx,
        };
        <ffi::ReadDirectoryCallback as FutureType<Result<Vec<FileInfo>, FileError>>>::complete(cb, Ok(items));
    }
    for e in file_errors(&task_errors) {
        let cb = ffi::ReadDirectoryCallback {
            on_complete: Some(pc_dir),
            on_failure: Some(pf),
            on_destroy: None,
            ctx,
        };
        let f: ffi::FileError = e.into();
        let code: c_int = f.into();
        want.push(format!("failure {code}"));
        <ffi::ReadDirectoryCallback as FutureType<Result<Vec<FileInfo>, FileError>>>::complete(cb, Err(e));
    }
    on_drop_is_shutdown!(ReadDirectoryCallback, Result<Vec<FileInfo>, FileError>);
    out::count("callbacks_ok_promise_dropped", drops_ok);
    compare(a, "promise_completion", "all", &got, &want);
}

// ---- K4: request, command and dead-band builders against the native builders --------------------

use dnp3::master::{CommandBuilder, CommandSupport, DeadBandHeader, Headers, ReadHeader};

fn native_variation_by_name() -> std::collections::BTreeMap<String, Variation> {
    let mut m = std::collections::BTreeMap::new();
    for v in all_variations() {
        let txt = format!("{v:?}");
        if txt.contains('(') {
            // variations with a payload (group 0 attributes, octet strings of a given length) are not plain enumeration values
            continue;
        }
        m.insert(norm(&v), v);
    }
    m
}

pub fn builders(a: &ShardArgs, r: &mut Rng, rounds: usize) {
    let by_name = native_variation_by_name();
    let ffi_vars: Vec<(ffi::Variation, Variation)> = super::variants::<ffi::Variation>()
        .into_iter()
        .filter_map(|f| by_name.get(&norm(&f)).map(|n| (f, *n)))
        .collect();
    out::count("builder_variations_paired", ffi_vars.len() as u64);
    let hex = |b: &Option<Vec<u8>>| match b {
        Some(b) => b.iter().map(|x| format!("{x:02x}")).collect::<String>(),
        None => "<not encodable>".into(),
    };
    for _ in 0..rounds {
        // ---- requests
        unsafe {
            let mut native = Headers::new();
            let mut trace: Vec<String> = vec![];
            let (fv, nv) = r.pick(&ffi_vars).clone();
            let req = match r.below(7) {
                0 => {
                    let c = [r.bool(), r.bool(), r.bool(), r.bool()];
                    trace.push(format!("new_class {c:?}"));
                    for (k, v) in [
                        (1, Variation::Group60Var2),
                        (2, Variation::Group60Var3),
                        (3, Variation::Group60Var4),
                        (0, Variation::Group60Var1),
                    ] {
                        if c[k] {
                            native.push_read_header(ReadHeader::all_objects(v));
                        }
                    }
                    crate::request_new_class(c[0], c[1], c[2], c[3])
                }
                1 => {
                    trace.push(format!("new_all_objects {fv:?}"));
                    native.push_read_header(ReadHeader::all_objects(nv));
                    crate::request_new_all_objects(fv)
                }
                2 => {
                    let (s, e) = (r.u8(), r.u8());
                    trace.push(format!("new_one_byte_range {fv:?} {s} {e}"));
                    native.push_read_header(ReadHeader::one_byte_range(nv, s, e));
                    crate::request_new_one_byte_range(fv, s, e)
                }
                3 => {
                    let (s, e) = (r.u16(), r.u16());
                    trace.push(format!("new_two_byte_range {fv:?} {s} {e}"));
                    native.push_read_header(ReadHeader::two_byte_range(nv, s, e));
                    crate::request_new_two_byte_range(fv, s, e)
                }
                4 => {
                    let c = r.u8();
                    trace.push(format!("new_one_byte_limited_count {fv:?} {c}"));
                    native.push_read_header(ReadHeader::one_byte_limited_count(nv, c));
                    crate::request_new_one_byte_limited_count(fv, c)
                }
                5 => {
                    let c = r.u16();
                    trace.push(format!("new_two_byte_limited_count {fv:?} {c}"));
                    native.push_read_header(ReadHeader::two_byte_limited_count(nv, c));
                    crate::request_new_two_byte_limited_count(fv, c)
                }
                _ => {
                    trace.push("create".into());
                    crate::request_create()
                }
            };
            for _ in 0..r.range(0, 5) {
                let (fv, nv) = r.pick(&ffi_vars).clone();
                match r.below(9) {
                    0 => {
                        let (s, e) = (r.u8(), r.u8());
                        trace.push(format!("add_one_byte_range {fv:?} {s} {e}"));
                        native.push_read_header(ReadHeader::one_byte_range(nv, s, e));
                        crate::request::request_add_one_byte_range_header(req, fv, s, e);
                    }
                    1 => {
                        let (s, e) = (r.u16(), r.u16());
                        trace.push(format!("add_two_byte_range {fv:?} {s} {e}"));
                        native.push_read_header(ReadHeader::two_byte_range(nv, s, e));
                        crate::request::request_add_two_byte_range_header(req, fv, s, e);
                    }
                    2 => {
                        trace.push(format!("add_all_objects {fv:?}"));
                        native.push_read_header(ReadHeader::all_objects(nv));
                        crate::request::request_add_all_objects_header(req, fv);
                    }
                    3 => {
                        let c = r.u8();
                        trace.push(format!("add_one_byte_limited_count {fv:?} {c}"));
                        native.push_read_header(ReadHeader::one_byte_limited_count(nv, c));
                        crate::request_add_one_byte_limited_count_header(req, fv, c);
                    }
                    4 => {
                        let c = r.u16();
                        trace.push(format!("add_two_byte_limited_count {fv:?} {c}"));
                        native.push_read_header(ReadHeader::two_byte_limited_count(nv, c));
                        crate::request_add_two_byte_limited_count_header(req, fv, c);
                    }
                    5 => {
                        let (var, set) = (r.u8(), r.u8());
                        trace.push(format!("add_specific_attribute var{var} set{set}"));
                        native.push_read_header(ReadHeader::one_byte_range(Variation::Group0(var), set, set));
                        crate::request::request_add_specific_attribute(req, var, set);
                    }
                    6 => {
                        let (var, set, val) = (r.u8(), r.u8(), r.u64() as u32);
                        trace.push(format!("add_uint_attribute var{var} set{set} {val}"));
                        native.push_attr(dnp3::app::attr::OwnedAttribute::new(
                            dnp3::app::attr::AttrSet::new(set),
                            var,
                            dnp3::app::attr::OwnedAttrValue::UnsignedInt(val),
                        ));
                        crate::request::request_add_uint_attribute(req, var, set, val);
                    }
                    7 => {
                        let (var, set) = (r.u8(), r.u8());
                        let text = format!("name-{}", r.u16());
                        trace.push(format!("add_string_attribute var{var} set{set} {text}"));
                        native.push_attr(dnp3::app::attr::OwnedAttribute::new(
                            dnp3::app::attr::AttrSet::new(set),
                            var,
                            dnp3::app::attr::OwnedAttrValue::VisibleString(text.clone()),
                        ));
                        let c = std::ffi::CString::new(text).unwrap();
                        crate::request::request_add_string_attribute(req, var, set, &c);
                    }
                    _ => {
                        let (t, i) = (
                            if r.bool() { 0 } else { r.u64() & 0x0000_FFFF_FFFF_FFFF },
                            if r.bool() { 0 } else { r.u64() as u32 },
                        );
                        trace.push(format!("add_time_and_interval {t} {i}"));
                        native.push_freeze_interval(FreezeInterval::new(Timestamp::new(t), i));
                        crate::request::request_add_time_and_interval(req, t, i);
                    }
                }
            }
            let got_h = dnp3::verif::util::headers_bytes(&(*req).build_headers());
            let want_h = dnp3::verif::util::headers_bytes(&native);
            let got_r = dnp3::verif::util::read_request_bytes(&(*req).build_read_request());
            let want_r = dnp3::verif::util::read_request_bytes(&native.to_read_request());
            crate::request_destroy(req);
            out::eval(1);
            if got_h != want_h || got_r != want_r {
                viol(
                    a,
                    "builder_mismatch",
                    &format!("request|{}", trace.last().map(|t| t.split(' ').next().unwrap_or("")).unwrap_or("")),
                    format!(
                        "request built through the binding entry points {trace:?} encodes as {} / READ {}; the native builder gives {} / READ {}",
                        hex(&got_h),
                        hex(&got_r),
                        hex(&want_h),
                        hex(&want_r)
                    ),
                );
            } else {
                out::count("builders_ok_request", 1);
            }
        }
        // ---- command sets
        unsafe {
            let set = crate::command_set_create();
            let mut native = CommandBuilder::new();
            let mut trace: Vec<String> = vec![];
            let tccs = super::variants::<ffi::TripCloseCode>();
            let ops = super::variants::<ffi::OpType>();
            for _ in 0..r.range(1, 7) {
                let wide = r.bool();
                let (i8, i16) = (r.u8(), r.u16());
                match r.below(6) {
                    0 => {
                        let (tcc, op) = (r.pick(&tccs).clone(), r.pick(&ops).clone());
                        let (clear, queue, count, on, off) = (r.bool(), r.bool(), r.u8(), r.u64() as u32, r.u64() as u32);
                        let f = ffi::Group12Var1 {
                            code: ffi::ControlCode {
                                tcc: tcc.clone().into(),
                                clear,
                                queue,
                                op_type: op.clone().into(),
                            },
                            count,
                            on_time: on,
                            off_time: off,
                        };
                        // the same control built natively from its wire octet
                        let tcc_bits: u8 = match tcc {
                            ffi::TripCloseCode::Nul => 0,
                            ffi::TripCloseCode::Close => 1,
                            ffi::TripCloseCode::Trip => 2,
                            ffi::TripCloseCode::Reserved => 3,
                        };
                        let op_bits: u8 = match op {
                            ffi::OpType::Nul => 0,
                            ffi::OpType::PulseOn => 1,
                            ffi::OpType::PulseOff => 2,
                            ffi::OpType::LatchOn => 3,
                            ffi::OpType::LatchOff => 4,
                        };
                        let octet = (tcc_bits << 6) | ((clear as u8) << 5) | ((queue as u8) << 4) | op_bits;
                        let n = Group12Var1::new(dnp3::verif::util::control_code_from(octet), count, on, off);
                        trace.push(format!("g12v1 wide{wide} code{octet:#04x}"));
                        if wide {
                            CommandSupport::<Group12Var1>::add_u16(&mut native, n, i16);
                            crate::command_set_add_g12_v1_u16(set, i16, f);
                        } else {
                            CommandSupport::<Group12Var1>::add_u8(&mut native, n, i8);
                            crate::command_set_add_g12_v1_u8(set, i8, f);
                        }
                    }
                    1 => {
                        let v = r.u64() as i32;
                        trace.push(format!("g41v1 wide{wide} {v}"));
                        if wide {
                            CommandSupport::<Group41Var1>::add_u16(&mut native, Group41Var1::new(v), i16);
                            crate::command_set_add_g41_v1_u16(set, i16, v);
                        } else {
                            CommandSupport::<Group41Var1>::add_u8(&mut native, Group41Var1::new(v), i8);
                            crate::command_set_add_g41_v1_u8(set, i8, v);
                        }
                    }
                    2 => {
                        let v = r.u16() as i16;
                        trace.push(format!("g41v2 wide{wide} {v}"));
                        if wide {
                            CommandSupport::<Group41Var2>::add_u16(&mut native, Group41Var2::new(v), i16);
                            crate::command_set_add_g41_v2_u16(set, i16, v);
                        } else {
                            CommandSupport::<Group41Var2>::add_u8(&mut native, Group41Var2::new(v), i8);
                            crate::command_set_add_g41_v2_u8(set, i8, v);
                        }
                    }
                    3 => {
                        let v = f32::from_bits(r.u64() as u32);
                        trace.push(format!("g41v3 wide{wide} {:08x}", v.to_bits()));
                        if wide {
                            CommandSupport::<Group41Var3>::add_u16(&mut native, Group41Var3::new(v), i16);
                            crate::command_set_add_g41_v3_u16(set, i16, v);
                        } else {
                            CommandSupport::<Group41Var3>::add_u8(&mut native, Group41Var3::new(v), i8);
                            crate::command_set_add_g41_v3_u8(set, i8, v);
                        }
                    }
                    4 => {
                        let v = some_f64(r);
                        trace.push(format!("g41v4 wide{wide} {:016x}", v.to_bits()));
                        if wide {
                            CommandSupport::<Group41Var4>::add_u16(&mut native, Group41Var4::new(v), i16);
                            crate::command_set_add_g41_v4_u16(set, i16, v);
                        } else {
                            CommandSupport::<Group41Var4>::add_u8(&mut native, Group41Var4::new(v), i8);
                            crate::command_set_add_g41_v4_u8(set, i8, v);
                        }
                    }
                    _ => {
                        trace.push("finish_header".into());
                        native.finish_header();
                        crate::command_set_finish_header(set);
                    }
                }
            }
            let got = dnp3::verif::util::command_bytes(&(*set).clone().build());
            let want = dnp3::verif::util::command_bytes(&native.build());
            crate::command_set_destroy(set);
            out::eval(1);
            if got != want {
                viol(
                    a,
                    "builder_mismatch",
                    &format!("command_set|{}", trace.last().map(|t| t.split(' ').next().unwrap_or("")).unwrap_or("")),
                    format!("command set {trace:?} encodes as {}; the native builder gives {}", hex(&got), hex(&want)),
                );
            } else {
                out::count("builders_ok_command_set", 1);
            }
        }
        // ---- dead-band requests
        unsafe {
            let req = crate::write_dead_band_request::write_dead_band_request_create();
            let mut trace: Vec<String> = vec![];
            // reference: consecutive items of one kind share a header
            let mut want: Vec<DeadBandHeader> = vec![];
            #[derive(PartialEq, Clone, Copy)]
            enum K {
                V1U8,
                V1U16,
                V2U8,
                V2U16,
                V3U8,
                V3U16,
            }
            let mut cur: Option<(K, Vec<(u16, f64)>)> = None;
            let mut flush = |cur: &mut Option<(K, Vec<(u16, f64)>)>, want: &mut Vec<DeadBandHeader>| {
                if let Some((k, items)) = cur.take() {
                    want.push(match k {
                        K::V1U8 => DeadBandHeader::group34_var1_u8(items.iter().map(|(i, v)| (*i as u8, *v as u16)).collect()),
                        K::V1U16 => DeadBandHeader::group34_var1_u16(items.iter().map(|(i, v)| (*i, *v as u16)).collect()),
                        K::V2U8 => DeadBandHeader::group34_var2_u8(items.iter().map(|(i, v)| (*i as u8, *v as u32)).collect()),
                        K::V2U16 => DeadBandHeader::group34_var2_u16(items.iter().map(|(i, v)| (*i, *v as u32)).collect()),
                        K::V3U8 => DeadBandHeader::group34_var3_u8(items.iter().map(|(i, v)| (*i as u8, *v as f32)).collect()),
                        K::V3U16 => DeadBandHeader::group34_var3_u16(items.iter().map(|(i, v)| (*i, *v as f32)).collect()),
                    });
                }
            };
            for _ in 0..r.range(1, 8) {
                let k = *r.pick(&[K::V1U8, K::V1U16, K::V2U8, K::V2U16, K::V3U8, K::V3U16]);
                if r.chance(1, 6) {
                    trace.push("finish_header".into());
                    flush(&mut cur, &mut want);
                    crate::write_dead_band_request::write_dead_band_request_finish_header(req);
                    continue;
                }
                let idx = match k {
                    K::V1U8 | K::V2U8 | K::V3U8 => r.u8() as u16,
                    _ => r.u16(),
                };
                let val: f64 = match k {
                    K::V1U8 | K::V1U16 => r.u16() as f64,
                    K::V2U8 | K::V2U16 => (r.u64() as u32) as f64,
                    _ => (r.u16() as f32 * 0.25) as f64,
                };
                match &mut cur {
                    Some((ck, items)) if *ck == k => items.push((idx, val)),
                    _ => {
                        flush(&mut cur, &mut want);
                        cur = Some((k, vec![(idx, val)]));
                    }
                }
                use crate::write_dead_band_request as w;
                match k {
                    K::V1U8 => w::write_dead_band_request_add_g34v1_u8(req, idx as u8, val as u16),
                    K::V1U16 => w::write_dead_band_request_add_g34v1_u16(req, idx, val as u16),
                    K::V2U8 => w::write_dead_band_request_add_g34v2_u8(req, idx as u8, val as u32),
                    K::V2U16 => w::write_dead_band_request_add_g34v2_u16(req, idx, val as u32),
                    K::V3U8 => w::write_dead_band_request_add_g34v3_u8(req, idx as u8, val as f32),
                    K::V3U16 => w::write_dead_band_request_add_g34v3_u16(req, idx, val as f32),
                }
                trace.push(format!("add kind{} idx{idx} {val}", k as u8));
            }
            flush(&mut cur, &mut want);
            let got = format!("{:?}", (*req).build());
            let want = format!("{want:?}");
            crate::write_dead_band_request::write_dead_band_request_destroy(req);
            out::eval(1);
            if got != want {
                viol(
                    a,
                    "builder_mismatch",
                    "dead_band_request",
                    format!("dead-band request {trace:?} is {got}; the native constructors give {want}"),
                );
            } else {
                out::count("builders_ok_dead_band_request", 1);
            }
        }
    }
}

// ---- K5: device attributes through the master's handler and the outstation's application ---------

use dnp3::app::attr::{
    AttrSet, AttrValue, Attribute, BoolAttr, FloatAttr, FloatType, OctetStringAttr, OwnedAttrValue, OwnedAttribute,
    StringAttr, TimeAttr, UIntAttr, VariationListAttr,
};

fn c_text(p: *const std::os::raw::c_char) -> String {
    if p.is_null() {
        return "<null>".into();
    }
    unsafe { std::ffi::CStr::from_ptr(p) }.to_string_lossy().to_string()
}

fn iter_bytes(it: *mut crate::ByteIterator<'_>) -> Vec<u8> {
    let mut v = vec![];
    loop {
        let p = unsafe { crate::byte_iterator_next(it) };
        if p.is_null() {
            break;
        }
        v.push(unsafe { *p });
    }
    v
}

extern "C" fn ra_string(_i: ffi::HeaderInfo, attr: c_int, set: u8, var: u8, value: *const std::os::raw::c_char, ctx: *mut c_void) {
    unsafe { log(ctx) }.push(format!("string {} {set} {var} {:?}", norm(&ffi::StringAttr::from(attr)), c_text(value)));
}
extern "C" fn ra_list(_i: ffi::HeaderInfo, attr: c_int, set: u8, var: u8, value: *mut crate::AttrItemIter, ctx: *mut c_void) {
    let mut items = vec![];
    while let Some(x) = unsafe { crate::attr_item_iter_next(value) } {
        items.push((x.variation, x.properties.is_writable));
    }
    unsafe { log(ctx) }.push(format!("list {} {set} {var} {items:?}", norm(&ffi::VariationListAttr::from(attr))));
}
extern "C" fn ra_uint(_i: ffi::HeaderInfo, attr: c_int, set: u8, var: u8, value: u32, ctx: *mut c_void) {
    unsafe { log(ctx) }.push(format!("uint {} {set} {var} {value}", norm(&ffi::UintAttr::from(attr))));
}
extern "C" fn ra_bool(_i: ffi::HeaderInfo, attr: c_int, set: u8, var: u8, value: bool, ctx: *mut c_void) {
    unsafe { log(ctx) }.push(format!("bool {} {set} {var} {value}", norm(&ffi::BoolAttr::from(attr))));
}
extern "C" fn ra_int(_i: ffi::HeaderInfo, attr: c_int, set: u8, var: u8, value: i32, ctx: *mut c_void) {
    unsafe { log(ctx) }.push(format!("int {} {set} {var} {value}", norm(&ffi::IntAttr::from(attr))));
}
extern "C" fn ra_time(_i: ffi::HeaderInfo, attr: c_int, set: u8, var: u8, value: u64, ctx: *mut c_void) {
    unsafe { log(ctx) }.push(format!("time {} {set} {var} {value}", norm(&ffi::TimeAttr::from(attr))));
}
extern "C" fn ra_float(_i: ffi::HeaderInfo, attr: c_int, set: u8, var: u8, value: f64, ctx: *mut c_void) {
    unsafe { log(ctx) }.push(format!("float {} {set} {var} {:016x}", norm(&ffi::FloatAttr::from(attr)), value.to_bits()));
}
extern "C" fn ra_octets<'a>(_i: ffi::HeaderInfo, attr: c_int, set: u8, var: u8, value: *mut crate::ByteIterator<'a>, ctx: *mut c_void) {
    let b = iter_bytes(value);
    unsafe { log(ctx) }.push(format!("octets {} {set} {var} {b:02x?}", norm(&ffi::OctetStringAttr::from(attr))));
}
extern "C" fn ra_bits<'a>(_i: ffi::HeaderInfo, attr: c_int, set: u8, var: u8, value: *mut crate::ByteIterator<'a>, ctx: *mut c_void) {
    let b = iter_bytes(value);
    unsafe { log(ctx) }.push(format!("bits {} {set} {var} {b:02x?}", norm(&ffi::BitStringAttr::from(attr))));
}

const STRING_ATTRS: [StringAttr; 18] = [
    StringAttr::ConfigId,
    StringAttr::ConfigVersion,
    StringAttr::ConfigDigestAlgorithm,
    StringAttr::MasterResourceId,
    StringAttr::UserAssignedSecondaryOperatorName,
    StringAttr::UserAssignedPrimaryOperatorName,
    StringAttr::UserAssignedSystemName,
    StringAttr::UserSpecificAttributes,
    StringAttr::DeviceManufacturerSoftwareVersion,
    StringAttr::DeviceManufacturerHardwareVersion,
    StringAttr::UserAssignedOwnerName,
    StringAttr::UserAssignedLocation,
    StringAttr::UserAssignedId,
    StringAttr::UserAssignedDeviceName,
    StringAttr::DeviceSerialNumber,
    StringAttr::DeviceSubsetAndConformance,
    StringAttr::ProductNameAndModel,
    StringAttr::DeviceManufacturersName,
];
const UINT_ATTRS: [UIntAttr; 23] = [
    UIntAttr::SecureAuthVersion,
    UIntAttr::NumSecurityStatsPerAssoc,
    UIntAttr::NumMasterDefinedDataSetProto,
    UIntAttr::NumOutstationDefinedDataSetProto,
    UIntAttr::NumMasterDefinedDataSets,
    UIntAttr::NumOutstationDefinedDataSets,
    UIntAttr::MaxBinaryOutputPerRequest,
    UIntAttr::LocalTimingAccuracy,
    UIntAttr::DurationOfTimeAccuracy,
    UIntAttr::MaxAnalogOutputIndex,
    UIntAttr::NumAnalogOutputs,
    UIntAttr::MaxBinaryOutputIndex,
    UIntAttr::NumBinaryOutputs,
    UIntAttr::MaxCounterIndex,
    UIntAttr::NumCounter,
    UIntAttr::MaxAnalogInputIndex,
    UIntAttr::NumAnalogInput,
    UIntAttr::MaxDoubleBitBinaryInputIndex,
    UIntAttr::NumDoubleBitBinaryInput,
    UIntAttr::MaxBinaryInputIndex,
    UIntAttr::NumBinaryInput,
    UIntAttr::MaxTxFragmentSize,
    UIntAttr::MaxRxFragmentSize,
];
const BOOL_ATTRS: [BoolAttr; 9] = [
    BoolAttr::SupportsAnalogOutputEvents,
    BoolAttr::SupportsBinaryOutputEvents,
    BoolAttr::SupportsFrozenCounterEvents,
    BoolAttr::SupportsFrozenCounters,
    BoolAttr::SupportsCounterEvents,
    BoolAttr::SupportsFrozenAnalogInputs,
    BoolAttr::SupportsAnalogInputEvents,
    BoolAttr::SupportsDoubleBitBinaryInputEvents,
    BoolAttr::SupportsBinaryInputEvents,
];
const FLOAT_ATTRS: [FloatAttr; 3] = [
    FloatAttr::DeviceLocationAltitude,
    FloatAttr::DeviceLocationLongitude,
    FloatAttr::DeviceLocationLatitude,
];
const TIME_ATTRS: [TimeAttr; 2] = [TimeAttr::ConfigBuildDate, TimeAttr::ConfigLastChangeDate];

/// name of the well-known attribute that variation `var` of the default set is, for a value of kind `kind`
fn known_name(kind: &str, set: u8, var: u8) -> String {
    if set != 0 {
        return "unknown".into();
    }
    let hit = match kind {
        "string" => STRING_ATTRS.iter().find(|x| x.variation() == var).map(|x| norm(x)),
        "uint" => UINT_ATTRS.iter().find(|x| x.variation() == var).map(|x| norm(x)),
        "bool" => BOOL_ATTRS.iter().find(|x| x.variation() == var).map(|x| norm(x)),
        "float" => FLOAT_ATTRS.iter().find(|x| x.variation() == var).map(|x| norm(x)),
        "time" => TIME_ATTRS.iter().find(|x| x.variation() == var).map(|x| norm(x)),
        "octets" => {
            if OctetStringAttr::ConfigDigest.variation() == var {
                Some(norm(&OctetStringAttr::ConfigDigest))
            } else {
                None
            }
        }
        "list" => {
            if VariationListAttr::ListOfVariations.variation() == var {
                Some(norm(&VariationListAttr::ListOfVariations))
            } else {
                None
            }
        }
        _ => None,
    };
    hit.unwrap_or_else(|| "unknown".into())
}

/// every variation of the default set that has a well-known meaning, with the kind of value it takes
fn known_variations() -> Vec<(u8, &'static str)> {
    let mut v: Vec<(u8, &'static str)> = vec![];
    v.extend(STRING_ATTRS.iter().map(|x| (x.variation(), "string")));
    v.extend(UINT_ATTRS.iter().map(|x| (x.variation(), "uint")));
    v.extend(BOOL_ATTRS.iter().map(|x| (x.variation(), "bool")));
    v.extend(FLOAT_ATTRS.iter().map(|x| (x.variation(), "float")));
    v.extend(TIME_ATTRS.iter().map(|x| (x.variation(), "time")));
    v.push((OctetStringAttr::ConfigDigest.variation(), "octets"));
    v
}

pub fn attribute_adapters(a: &ShardArgs, r: &mut Rng) {
    let mut got: Box<Log> = Box::new(vec![]);
    let mut want: Log = vec![];
    let mut h = read_handler(&mut *got as *mut Log);
    h.handle_string_attr = Some(ra_string);
    h.handle_variation_list_attr = Some(ra_list);
    h.handle_uint_attr = Some(ra_uint);
    h.handle_bool_attr = Some(ra_bool);
    h.handle_int_attr = Some(ra_int);
    h.handle_time_attr = Some(ra_time);
    h.handle_float_attr = Some(ra_float);
    h.handle_octet_string_attr = Some(ra_octets);
    h.handle_bit_string_attr = Some(ra_bits);
    let known = known_variations();
    let mut delivered = 0u64;
    // (set, variation, kind): every well-known variation with its own kind of value, then the same variations in a private
    // set, then arbitrary variations with every kind
    let mut cases: Vec<(u8, u8, &'static str)> = vec![];
    for (var, kind) in &known {
        cases.push((0, *var, kind));
        cases.push((7, *var, kind));
    }
    for _ in 0..120 {
        let kind = *r.pick(&["string", "uint", "int", "float", "time", "octets", "bits"]);
        let set = *r.pick(&[1u8, 2, 100, 255]);
        cases.push((set, r.u8(), kind));
    }
    for (set, var, kind) in cases {
        let (value, text): (OwnedAttrValue, String) = match kind {
            "string" => {
                let t = format!("value-{}", r.u16());
                (OwnedAttrValue::VisibleString(t.clone()), format!("{t:?}"))
            }
            "uint" => {
                let v = match r.below(3) {
                    0 => r.u8() as u32,
                    1 => r.u16() as u32,
                    _ => r.u64() as u32,
                };
                (OwnedAttrValue::UnsignedInt(v), v.to_string())
            }
            "bool" => {
                let v = r.bool();
                (OwnedAttrValue::SignedInt(v as i32), v.to_string())
            }
            "int" => {
                let v = match r.below(3) {
                    0 => (r.u8() as i8) as i32,
                    1 => (r.u16() as i16) as i32,
                    _ => r.u64() as i32,
                };
                (OwnedAttrValue::SignedInt(v), v.to_string())
            }
            "float" => {
                if r.bool() {
                    let v = (r.u16() as f32) * 0.5 - 1000.0;
                    (OwnedAttrValue::FloatingPoint(FloatType::F32(v)), format!("{:016x}", (v as f64).to_bits()))
                } else {
                    let v = (r.u64() as u32) as f64 * 0.125 - 5.0e8;
                    (OwnedAttrValue::FloatingPoint(FloatType::F64(v)), format!("{:016x}", v.to_bits()))
                }
            }
            "time" => {
                let v = r.u64() & 0x0000_FFFF_FFFF_FFFF;
                (OwnedAttrValue::Dnp3Time(Timestamp::new(v)), v.to_string())
            }
            "octets" => {
                let b: Vec<u8> = (0..r.range(0, 20)).map(|_| r.u8()).collect();
                (OwnedAttrValue::OctetString(b.clone()), format!("{b:02x?}"))
            }
            _ => {
                let b: Vec<u8> = (0..r.range(0, 20)).map(|_| r.u8()).collect();
                (OwnedAttrValue::BitString(b.clone()), format!("{b:02x?}"))
            }
        };
        let owned = OwnedAttribute::new(AttrSet::new(set), var, value);
        let Some(bytes) = dnp3::verif::util::owned_attribute_bytes(&owned) else {
            continue;
        };
        // what the handler must be told: the kind follows the value; in the default set a signed integer in one of the
        // boolean variations is a boolean; a value of the wrong kind for a well-known variation is not delivered at all
        let native_kind = if kind == "bool" && set != 0 { "int" } else { kind };
        let shown = if native_kind == "int" && kind == "bool" {
            // private set: the integer itself
            if text == "true" { "1".to_string() } else { "0".to_string() }
        } else {
            text.clone()
        };
        let name = match native_kind {
            "int" | "bits" => "unknown".to_string(),
            k => known_name(k, set, var),
        };
        let before = got.len();
        let ok = dnp3::verif::util::deliver_response_objects(&bytes, &mut h);
        if !ok {
            continue;
        }
        if got.len() == before {
            // refused by the library's own typing of the default set (e.g. an integer in a string variation): not this check's subject
            out::count("attribute_not_delivered_by_library", 1);
            continue;
        }
        want.truncate(before);
        want.push(format!("{native_kind} {name} {set} {var} {shown}"));
        delivered += 1;
        // keep the two logs aligned entry by entry
        if got.len() != want.len() {
            break;
        }
    }
    // variation lists, encoded by hand (the owned attribute type has no such value): g0v255, range 8, U8BS8LIST
    for set in [0u8, 3] {
        let items: Vec<(u8, bool)> = (0..r.range(0, 9)).map(|_| (r.u8(), r.bool())).collect();
        let mut bytes = vec![0u8, 255, 0x00, set, set, 254, (items.len() * 2) as u8];
        for (v, w) in &items {
            bytes.push(*v);
            bytes.push(*w as u8);
        }
        let before = got.len();
        if dnp3::verif::util::deliver_response_objects(&bytes, &mut h) && got.len() > before {
            want.push(format!("list {} {set} 255 {items:?}", known_name("list", set, 255)));
            delivered += 1;
        }
    }
    out::count("callbacks_ok_attributes_delivered", delivered);
    compare(a, "read_handler_attributes", "all", &got, &want);

    // ---- the outstation side: a WRITE of an attribute reaches the application through the typed callbacks
    static ANSWER: std::sync::atomic::AtomicBool = std::sync::atomic::AtomicBool::new(true);
    extern "C" fn wa_string(set: u8, var: u8, attr: c_int, value: *const std::os::raw::c_char, ctx: *mut c_void) -> bool {
        unsafe { log(ctx) }.push(format!("string {} {set} {var} {:?}", norm(&ffi::StringAttr::from(attr)), c_text(value)));
        ANSWER.load(Ordering::Relaxed)
    }
    extern "C" fn wa_float(set: u8, var: u8, attr: c_int, value: f32, ctx: *mut c_void) -> bool {
        unsafe { log(ctx) }.push(format!("float32 {} {set} {var} {:08x}", norm(&ffi::FloatAttr::from(attr)), value.to_bits()));
        ANSWER.load(Ordering::Relaxed)
    }
    extern "C" fn wa_double(set: u8, var: u8, attr: c_int, value: f64, ctx: *mut c_void) -> bool {
        unsafe { log(ctx) }.push(format!("float64 {} {set} {var} {:016x}", norm(&ffi::FloatAttr::from(attr)), value.to_bits()));
        ANSWER.load(Ordering::Relaxed)
    }
    extern "C" fn wa_uint(set: u8, var: u8, attr: c_int, value: u32, ctx: *mut c_void) -> bool {
        unsafe { log(ctx) }.push(format!("uint {} {set} {var} {value}", norm(&ffi::UintAttr::from(attr))));
        ANSWER.load(Ordering::Relaxed)
    }
    extern "C" fn wa_int(set: u8, var: u8, attr: c_int, value: i32, ctx: *mut c_void) -> bool {
        unsafe { log(ctx) }.push(format!("int {} {set} {var} {value}", norm(&ffi::IntAttr::from(attr))));
        ANSWER.load(Ordering::Relaxed)
    }
    extern "C" fn wa_octets<'a>(set: u8, var: u8, attr: c_int, value: *mut crate::ByteIterator<'a>, ctx: *mut c_void) -> bool {
        let b = iter_bytes(value);
        unsafe { log(ctx) }.push(format!("octets {} {set} {var} {b:02x?}", norm(&ffi::OctetStringAttr::from(attr))));
        ANSWER.load(Ordering::Relaxed)
    }
    extern "C" fn wa_bits<'a>(set: u8, var: u8, attr: c_int, value: *mut crate::ByteIterator<'a>, ctx: *mut c_void) -> bool {
        let b = iter_bytes(value);
        unsafe { log(ctx) }.push(format!("bits {} {set} {var} {b:02x?}", norm(&ffi::BitStringAttr::from(attr))));
        ANSWER.load(Ordering::Relaxed)
    }
    extern "C" fn wa_time(set: u8, var: u8, attr: c_int, value: u64, ctx: *mut c_void) -> bool {
        unsafe { log(ctx) }.push(format!("time {} {set} {var} {value}", norm(&ffi::TimeAttr::from(attr))));
        ANSWER.load(Ordering::Relaxed)
    }
    let mut got2: Box<Log> = Box::new(vec![]);
    let mut want2: Log = vec![];
    let mut app = application(&mut *got2 as *mut Log);
    app.write_string_attr = Some(wa_string);
    app.write_float_attr = Some(wa_float);
    app.write_double_attr = Some(wa_double);
    app.write_uint_attr = Some(wa_uint);
    app.write_int_attr = Some(wa_int);
    app.write_octet_string_attr = Some(wa_octets);
    app.write_bit_string_attr = Some(wa_bits);
    app.write_time_attr = Some(wa_time);
    let mut answers_ok = 0u64;
    for round in 0..200 {
        let (set, var, kind): (u8, u8, &str) = if round < known.len() {
            (0, known[round].0, known[round].1)
        } else {
            (*r.pick(&[1u8, 9, 255]), r.u8(), *r.pick(&["string", "uint", "int", "float", "time", "octets", "bits"]))
        };
        let answer = r.bool();
        ANSWER.store(answer, Ordering::Relaxed);
        let text = format!("w-{}", r.u16());
        let bytes: Vec<u8> = (0..r.range(0, 12)).map(|_| r.u8()).collect();
        let (value, line, reaches): (AttrValue, String, bool) = match kind {
            "string" => (AttrValue::VisibleString(&text), format!("string {} {set} {var} {text:?}", known_name("string", set, var)), true),
            "uint" => {
                let v = r.u64() as u32;
                (AttrValue::UnsignedInt(v), format!("uint {} {set} {var} {v}", known_name("uint", set, var)), true)
            }
            "bool" => {
                // none of the boolean attributes can be written: the application is not asked
                (AttrValue::SignedInt(1), String::new(), false)
            }
            "int" => {
                let v = r.u64() as i32;
                (AttrValue::SignedInt(v), format!("int unknown {set} {var} {v}"), true)
            }
            "float" => {
                if r.bool() {
                    let v = (r.u16() as f32) * 0.25;
                    (AttrValue::FloatingPoint(FloatType::F32(v)), format!("float32 {} {set} {var} {:08x}", known_name("float", set, var), v.to_bits()), true)
                } else {
                    let v = (r.u64() as u32) as f64 * 0.5;
                    (AttrValue::FloatingPoint(FloatType::F64(v)), format!("float64 {} {set} {var} {:016x}", known_name("float", set, var), v.to_bits()), true)
                }
            }
            "time" => {
                let v = r.u64() & 0x0000_FFFF_FFFF_FFFF;
                (AttrValue::Dnp3Time(Timestamp::new(v)), format!("time {} {set} {var} {v}", known_name("time", set, var)), true)
            }
            "octets" => (AttrValue::OctetString(&bytes), format!("octets {} {set} {var} {bytes:02x?}", known_name("octets", set, var)), true),
            _ => (AttrValue::BitString(&bytes), format!("bits unknown {set} {var} {bytes:02x?}"), true),
        };
        let attr = Attribute {
            set: AttrSet::new(set),
            variation: var,
            value,
        };
        let before = got2.len();
        let res = OutstationApplication::write_device_attr(&mut app, attr);
        let res = now(res).unwrap_or(false);
        out::eval(1);
        if reaches {
            want2.push(line);
            if res != answer {
                viol(
                    a,
                    "callback_mismatch",
                    &format!("write_device_attr|{kind}"),
                    format!("the application answered {answer} to the write of ({set},{var}); the library received {res}"),
                );
            } else {
                answers_ok += 1;
            }
        } else if got2.len() != before || res {
            viol(
                a,
                "callback_mismatch",
                &format!("write_device_attr|{kind}"),
                format!("a write that cannot be made reached the application or was reported as accepted ({res})"),
            );
        }
    }
    out::count("callbacks_ok_attribute_write_answers", answers_ok);
    compare(a, "application_attribute_writes", "all", &got2, &want2);
}

/// the value of a `MaybeAsync` that is ready at once (the binding adapters never defer)
fn now<T>(m: MaybeAsync<T>) -> Option<T> {
    use std::future::Future;
    use std::task::{Context, Poll, RawWaker, RawWakerVTable, Waker};
    fn raw() -> RawWaker {
        fn no(_: *const ()) {}
        fn clone(_: *const ()) -> RawWaker {
            raw()
        }
        static VT: RawWakerVTable = RawWakerVTable::new(clone, no, no, no);
        RawWaker::new(std::ptr::null(), &VT)
    }
    let waker = unsafe { Waker::from_raw(raw()) };
    let mut cx = Context::from_waker(&waker);
    let mut fut = Box::pin(m.get());
    match fut.as_mut().poll(&mut cx) {
        Poll::Ready(x) => Some(x),
        Poll::Pending => None,
    }
}
