//! C20 part K — the adapters that carry values across the boundary through callbacks.
//!
//! The binding crate implements the library's traits (`ReadHandler`, `AssociationInformation`,
//! `ControlHandler`, `OutstationApplication`, `OutstationInformation`, the promise callbacks) on
//! the generated C interface structs. Here every such interface struct is filled with recording
//! `extern "C"` callbacks, the *native* trait method is called with generated arguments, and what
//! the callback received (which callback, each argument, every item of an iterator, in order) is
//! compared with what was passed in; values a callback returns are compared with what the native
//! caller gets back.
use super::{norm, viol};
use crate::ffi;
use dnp3::app::measurement::*;
use dnp3::app::*;
use dnp3::master::{AssociationHandler, AssociationInformation, HeaderInfo, ReadHandler, ReadType};
use dnp3::verif::out::{self, J};
use dnp3::verif::rng::Rng;
use dnp3::verif::ShardArgs;
use std::os::raw::{c_int, c_void};

type Log = Vec<String>;

unsafe fn log<'a>(ctx: *mut c_void) -> &'a mut Log {
    &mut *(ctx as *mut Log)
}

fn f_time(t: &ffi::Timestamp) -> String {
    match t.quality() {
        ffi::TimeQuality::InvalidTime => "notime".to_string(),
        q => format!("{}:{}", norm(&q), t.value()),
    }
}

fn n_time(t: &Option<Time>) -> String {
    match t {
        None => "notime".to_string(),
        Some(Time::Synchronized(x)) => format!("synchronizedtime:{}", x.raw_value()),
        Some(Time::Unsynchronized(x)) => format!("unsynchronizedtime:{}", x.raw_value()),
    }
}

fn f_info(i: &ffi::HeaderInfo) -> String {
    format!(
        "{}/{}/ev{}/fl{}",
        norm(&i.variation()),
        norm(&i.qualifier()),
        i.is_event,
        i.has_flags
    )
}

fn n_info(v: Variation, q: QualifierCode, is_event: bool, has_flags: bool) -> String {
    format!("{}/{}/ev{}/fl{}", norm(&v), norm(&q), is_event, has_flags)
}

fn f_header(h: &ffi::ResponseHeader) -> String {
    let c = h.control_field();
    let i1 = &h.iin.iin1;
    let i2 = &h.iin.iin2;
    let b = |x: bool| if x { '1' } else { '0' };
    let iin1: String = [
        i1.broadcast,
        i1.class_1_events,
        i1.class_2_events,
        i1.class_3_events,
        i1.need_time,
        i1.local_control,
        i1.device_trouble,
        i1.device_restart,
    ]
    .iter()
    .map(|x| b(*x))
    .collect();
    let iin2: String = [
        i2.no_func_code_support,
        i2.object_unknown,
        i2.parameter_error,
        i2.event_buffer_overflow,
        i2.already_executing,
        i2.config_corrupt,
        i2.reserved_2,
        i2.reserved_1,
    ]
    .iter()
    .map(|x| b(*x))
    .collect();
    format!(
        "fir{} fin{} con{} uns{} seq{} {} iin1={iin1} iin2={iin2}",
        c.fir,
        c.fin,
        c.con,
        c.uns,
        c.seq,
        norm(&h.func())
    )
}

fn n_header(h: &ResponseHeader) -> String {
    let bits = |v: u8| -> String {
        (0..8)
            .map(|k| if v & (1 << k) != 0 { '1' } else { '0' })
            .collect()
    };
    format!(
        "fir{} fin{} con{} uns{} seq{} {} iin1={} iin2={}",
        h.control.fir,
        h.control.fin,
        h.control.con,
        h.control.uns,
        h.control.seq.value(),
        norm(&h.function),
        bits(h.iin.iin1.value),
        bits(h.iin.iin2.value)
    )
}

// ---- recording callbacks of the master's read handler ---------------------------------------

extern "C" fn rh_begin(read_type: c_int, header: ffi::ResponseHeader, ctx: *mut c_void) {
    unsafe { log(ctx) }.push(format!(
        "begin {} {}",
        norm(&ffi::ReadType::from(read_type)),
        f_header(&header)
    ));
}
extern "C" fn rh_end(read_type: c_int, header: ffi::ResponseHeader, ctx: *mut c_void) {
    unsafe { log(ctx) }.push(format!(
        "end {} {}",
        norm(&ffi::ReadType::from(read_type)),
        f_header(&header)
    ));
}

macro_rules! rh_iter_cb {
    ($fname:ident, $label:literal, $iter:ty, $next:path, |$x:ident| $fmt:expr) => {
        extern "C" fn $fname(info: ffi::HeaderInfo, values: *mut $iter, ctx: *mut c_void) {
            let l = unsafe { log(ctx) };
            l.push(format!("{} {}", $label, f_info(&info)));
            loop {
                let item = unsafe { $next(values) };
                match item {
                    Some($x) => l.push($fmt),
                    None => break,
                }
            }
            // the iterator stays exhausted
            if unsafe { $next(values) }.is_some() {
                l.push("item after the end".into());
            }
        }
    };
}

rh_iter_cb!(
    rh_binary,
    "binary",
    crate::BinaryInputIterator,
    crate::binary_input_iterator_next,
    |x| format!("{} {} {:#04x} {}", x.index, x.value, x.flags.value, f_time(&x.time))
);
rh_iter_cb!(
    rh_double,
    "double",
    crate::DoubleBitBinaryInputIterator,
    crate::double_bit_binary_input_iterator_next,
    |x| format!("{} {} {:#04x} {}", x.index, norm(&x.value()), x.flags.value, f_time(&x.time))
);
rh_iter_cb!(
    rh_bos,
    "bos",
    crate::BinaryOutputStatusIterator,
    crate::binary_output_status_iterator_next,
    |x| format!("{} {} {:#04x} {}", x.index, x.value, x.flags.value, f_time(&x.time))
);
rh_iter_cb!(
    rh_counter,
    "counter",
    crate::CounterIterator,
    crate::counter_iterator_next,
    |x| format!("{} {} {:#04x} {}", x.index, x.value, x.flags.value, f_time(&x.time))
);
rh_iter_cb!(
    rh_frozen,
    "frozen",
    crate::FrozenCounterIterator,
    crate::frozen_counter_iterator_next,
    |x| format!("{} {} {:#04x} {}", x.index, x.value, x.flags.value, f_time(&x.time))
);
rh_iter_cb!(
    rh_analog,
    "analog",
    crate::AnalogInputIterator,
    crate::analog_input_iterator_next,
    |x| format!("{} {:016x} {:#04x} {}", x.index, x.value.to_bits(), x.flags.value, f_time(&x.time))
);
rh_iter_cb!(
    rh_frozen_analog,
    "frozenanalog",
    crate::FrozenAnalogInputIterator,
    crate::frozen_analog_input_iterator_next,
    |x| format!("{} {:016x} {:#04x} {}", x.index, x.value.to_bits(), x.flags.value, f_time(&x.time))
);
rh_iter_cb!(
    rh_aos,
    "aos",
    crate::AnalogOutputStatusIterator,
    crate::analog_output_status_iterator_next,
    |x| format!("{} {:016x} {:#04x} {}", x.index, x.value.to_bits(), x.flags.value, f_time(&x.time))
);
rh_iter_cb!(
    rh_boce,
    "boce",
    crate::BinaryOutputCommandEventIterator,
    crate::binary_output_command_event_iterator_next,
    |x| format!("{} {} {} {}", x.index, x.commanded_state, norm(&x.status()), f_time(&x.time))
);
rh_iter_cb!(
    rh_aoce,
    "aoce",
    crate::AnalogOutputCommandEventIterator,
    crate::analog_output_command_event_iterator_next,
    |x| format!(
        "{} {:016x} {} {} {}",
        x.index,
        x.commanded_value.to_bits(),
        norm(&x.command_type()),
        norm(&x.status()),
        f_time(&x.time)
    )
);
rh_iter_cb!(
    rh_uint,
    "uint",
    crate::UnsignedIntegerIterator,
    crate::unsigned_integer_iterator_next,
    |x| format!("{} {}", x.index, x.value)
);

extern "C" fn rh_octets<'a>(
    info: ffi::HeaderInfo,
    values: *mut crate::OctetStringIterator<'a>,
    ctx: *mut c_void,
) {
    let l = unsafe { log(ctx) };
    l.push(format!("octets {}", f_info(&info)));
    loop {
        let item = unsafe { crate::octet_string_iterator_next(values) };
        let Some(x) = item else { break };
        let mut bytes = vec![];
        loop {
            let p = unsafe { crate::byte_iterator_next(x.value) };
            if p.is_null() {
                break;
            }
            bytes.push(unsafe { *p });
        }
        l.push(format!("{} {:02x?}", x.index, bytes));
    }
}

extern "C" fn rh_abs_time(info: ffi::HeaderInfo, time: ffi::Timestamp, ctx: *mut c_void) {
    unsafe { log(ctx) }.push(format!("abstime {} {}", f_info(&info), f_time(&time)));
}

fn read_handler(ctx: *mut Log) -> ffi::ReadHandler {
    ffi::ReadHandler {
        begin_fragment: Some(rh_begin),
        end_fragment: Some(rh_end),
        handle_binary_input: Some(rh_binary),
        handle_double_bit_binary_input: Some(rh_double),
        handle_binary_output_status: Some(rh_bos),
        handle_counter: Some(rh_counter),
        handle_frozen_counter: Some(rh_frozen),
        handle_analog_input: Some(rh_analog),
        handle_frozen_analog_input: Some(rh_frozen_analog),
        handle_analog_output_status: Some(rh_aos),
        handle_binary_output_command_event: Some(rh_boce),
        handle_analog_output_command_event: Some(rh_aoce),
        handle_unsigned_integer: Some(rh_uint),
        handle_octet_string: Some(rh_octets),
        handle_abs_time: Some(rh_abs_time),
        handle_string_attr: None,
        handle_variation_list_attr: None,
        handle_uint_attr: None,
        handle_bool_attr: None,
        handle_int_attr: None,
        handle_time_attr: None,
        handle_float_attr: None,
        handle_octet_string_attr: None,
        handle_bit_string_attr: None,
        on_destroy: None,
        ctx: ctx as *mut c_void,
    }
}

fn some_time(r: &mut Rng) -> Option<Time> {
    let v = match r.below(4) {
        0 => 0,
        1 => 0x0000_FFFF_FFFF_FFFF,
        _ => r.u64() & 0x0000_FFFF_FFFF_FFFF,
    };
    match r.below(3) {
        0 => None,
        1 => Some(Time::synchronized(v)),
        _ => Some(Time::unsynchronized(v)),
    }
}

fn some_f64(r: &mut Rng) -> f64 {
    match r.below(8) {
        0 => f64::NAN,
        1 => f64::INFINITY,
        2 => f64::NEG_INFINITY,
        3 => -0.0,
        4 => f64::MAX,
        5 => f64::MIN_POSITIVE,
        _ => f64::from_bits(r.u64()),
    }
}

fn all_variations() -> Vec<Variation> {
    dnp3::verif::util::all_variations()
}

const QUALIFIERS: [QualifierCode; 8] = [
    QualifierCode::Range8,
    QualifierCode::Range16,
    QualifierCode::AllObjects,
    QualifierCode::Count8,
    QualifierCode::Count16,
    QualifierCode::CountAndPrefix8,
    QualifierCode::CountAndPrefix16,
    QualifierCode::FreeFormat16,
];

fn compare(a: &ShardArgs, what: &str, sig: &str, got: &[String], want: &[String]) {
    out::eval(1);
    if got != want {
        let k = got
            .iter()
            .zip(want.iter())
            .position(|(g, w)| g != w)
            .unwrap_or(got.len().min(want.len()));
        viol(
            a,
            "callback_mismatch",
            &format!("{what}|{sig}"),
            format!(
                "{what}: the callback side saw {} entries, {} expected; first difference at {k}: got {:?}, expected {:?}",
                got.len(),
                want.len(),
                got.get(k),
                want.get(k)
            ),
        );
    } else {
        out::count(&format!("callbacks_ok_{what}"), 1);
        out::count("callback_entries_compared", got.len() as u64);
    }
}

/// K1: the master's `ReadHandler` and association callbacks
pub fn read_handler_adapter(a: &ShardArgs, r: &mut Rng, rounds: usize) {
    let variations = all_variations();
    let mut seen_types = std::collections::BTreeSet::new();
    for round in 0..rounds {
        let mut got: Box<Log> = Box::new(vec![]);
        let mut want: Log = vec![];
        let mut h = read_handler(&mut *got as *mut Log);
        // fragment brackets: every control octet / IIN combination over the rounds
        let ctrl = r.u8();
        let header = ResponseHeader {
            control: dnp3::verif::util::control_field_from(ctrl),
            function: if r.bool() {
                ResponseFunction::Response
            } else {
                ResponseFunction::UnsolicitedResponse
            },
            iin: Iin {
                iin1: Iin1 { value: if round < 256 { round as u8 } else { r.u8() } },
                iin2: Iin2 { value: if round < 256 { (255 - round) as u8 } else { r.u8() } },
            },
        };
        let rt = *r.pick(&[
            ReadType::StartupIntegrity,
            ReadType::Unsolicited,
            ReadType::SinglePoll,
            ReadType::PeriodicPoll,
        ]);
        let _ = ReadHandler::begin_fragment(&mut h, rt, header);
        want.push(format!("begin {} {}", norm(&rt), n_header(&header)));
        let nheaders = r.range(1, 5);
        for _ in 0..nheaders {
            let v = *r.pick(&variations);
            let q = *r.pick(&QUALIFIERS);
            let (ev, fl) = (r.bool(), r.bool());
            let info = dnp3::verif::util::header_info(v, q, ev, fl);
            let istr = n_info(v, q, ev, fl);
            let n = match r.below(6) {
                0 => 0,
                1 => 1,
                _ => r.range(2, 9) as usize,
            };
            let kind = r.below(14);
            seen_types.insert(kind);
            macro_rules! flagged {
                ($label:literal, $method:ident, $ty:ident, $val:expr, $fmtv:expr) => {{
                    let items: Vec<($ty, u16)> = (0..n)
                        .map(|_| {
                            (
                                $ty {
                                    value: $val,
                                    flags: Flags::new(r.u8()),
                                    time: some_time(r),
                                },
                                r.u16(),
                            )
                        })
                        .collect();
                    want.push(format!("{} {}", $label, istr));
                    for (m, i) in &items {
                        want.push(format!(
                            "{} {} {:#04x} {}",
                            i,
                            $fmtv(&m.value),
                            m.flags.value,
                            n_time(&m.time)
                        ));
                    }
                    ReadHandler::$method(&mut h, info, &mut items.into_iter());
                }};
            }
            match kind {
                0 => flagged!("binary", handle_binary_input, BinaryInput, r.bool(), |v: &bool| v.to_string()),
                1 => flagged!(
                    "double",
                    handle_double_bit_binary_input,
                    DoubleBitBinaryInput,
                    *r.pick(&[
                        DoubleBit::Intermediate,
                        DoubleBit::DeterminedOff,
                        DoubleBit::DeterminedOn,
                        DoubleBit::Indeterminate
                    ]),
                    |v: &DoubleBit| norm(v)
                ),
                2 => flagged!("bos", handle_binary_output_status, BinaryOutputStatus, r.bool(), |v: &bool| v.to_string()),
                3 => flagged!("counter", handle_counter, Counter, r.u64() as u32, |v: &u32| v.to_string()),
                4 => flagged!("frozen", handle_frozen_counter, FrozenCounter, r.u64() as u32, |v: &u32| v.to_string()),
                5 => flagged!("analog", handle_analog_input, AnalogInput, some_f64(r), |v: &f64| format!("{:016x}", v.to_bits())),
                6 => flagged!("frozenanalog", handle_frozen_analog_input, FrozenAnalogInput, some_f64(r), |v: &f64| format!("{:016x}", v.to_bits())),
                7 => flagged!("aos", handle_analog_output_status, AnalogOutputStatus, some_f64(r), |v: &f64| format!("{:016x}", v.to_bits())),
                8 => {
                    let items: Vec<(BinaryOutputCommandEvent, u16)> = (0..n)
                        .map(|_| {
                            (
                                BinaryOutputCommandEvent {
                                    commanded_state: r.bool(),
                                    status: dnp3::app::control::CommandStatus::from(r.u8()),
                                    time: some_time(r),
                                },
                                r.u16(),
                            )
                        })
                        .collect();
                    want.push(format!("boce {istr}"));
                    for (m, i) in &items {
                        want.push(format!(
                            "{} {} {} {}",
                            i,
                            m.commanded_state,
                            norm(&m.status),
                            n_time(&m.time)
                        ));
                    }
                    ReadHandler::handle_binary_output_command_event(&mut h, info, &mut items.into_iter());
                }
                9 => {
                    let items: Vec<(AnalogOutputCommandEvent, u16)> = (0..n)
                        .map(|_| {
                            let cv = match r.below(4) {
                                0 => AnalogCommandValue::I16(r.u16() as i16),
                                1 => AnalogCommandValue::I32(r.u64() as i32),
                                2 => AnalogCommandValue::F32(f32::from_bits(r.u64() as u32)),
                                _ => AnalogCommandValue::F64(some_f64(r)),
                            };
                            (
                                AnalogOutputCommandEvent {
                                    status: dnp3::app::control::CommandStatus::from(r.u8()),
                                    commanded_value: cv,
                                    time: some_time(r),
                                },
                                r.u16(),
                            )
                        })
                        .collect();
                    want.push(format!("aoce {istr}"));
                    for (m, i) in &items {
                        let (val, ty): (f64, &str) = match m.commanded_value {
                            AnalogCommandValue::I16(x) => (x as f64, "i16"),
                            AnalogCommandValue::I32(x) => (x as f64, "i32"),
                            AnalogCommandValue::F32(x) => (x as f64, "f32"),
                            AnalogCommandValue::F64(x) => (x, "f64"),
                        };
                        want.push(format!(
                            "{} {:016x} {} {} {}",
                            i,
                            val.to_bits(),
                            ty,
                            norm(&m.status),
                            n_time(&m.time)
                        ));
                    }
                    ReadHandler::handle_analog_output_command_event(&mut h, info, &mut items.into_iter());
                }
                10 => {
                    let items: Vec<(UnsignedInteger, u16)> = (0..n)
                        .map(|_| (UnsignedInteger { value: r.u8() }, r.u16()))
                        .collect();
                    want.push(format!("uint {istr}"));
                    for (m, i) in &items {
                        want.push(format!("{} {}", i, m.value));
                    }
                    ReadHandler::handle_unsigned_integer(&mut h, info, &mut items.into_iter());
                }
                11 => {
                    let store: Vec<(Vec<u8>, u16)> = (0..n)
                        .map(|_| {
                            let len = match r.below(4) {
                                0 => 0,
                                1 => 255,
                                _ => r.range(1, 20) as usize,
                            };
                            ((0..len).map(|_| r.u8()).collect(), r.u16())
                        })
                        .collect();
                    want.push(format!("octets {istr}"));
                    for (b, i) in &store {
                        want.push(format!("{} {:02x?}", i, b));
                    }
                    let mut it = store.iter().map(|(b, i)| (b.as_slice(), *i));
                    ReadHandler::handle_octet_string(&mut h, info, &mut it);
                }
                12 => {
                    let t = Timestamp::new(r.u64() & 0x0000_FFFF_FFFF_FFFF);
                    want.push(format!(
                        "abstime {istr} synchronizedtime:{}",
                        t.raw_value()
                    ));
                    // the binding reports an absolute time as a synchronized time stamp
                    ReadHandler::handle_abs_time(&mut h, info, t);
                }
                _ => {
                    // two headers of different types back to back must not share iterator state
                    let items: Vec<(Counter, u16)> = vec![(
                        Counter {
                            value: 7,
                            flags: Flags::new(1),
                            time: None,
                        },
                        9,
                    )];
                    want.push(format!("counter {istr}"));
                    want.push("9 7 0x01 notime".into());
                    ReadHandler::handle_counter(&mut h, info, &mut items.into_iter());
                }
            }
        }
        let _ = ReadHandler::end_fragment(&mut h, rt, header);
        want.push(format!("end {} {}", norm(&rt), n_header(&header)));
        compare(a, "read_handler", &format!("ctrl{}", ctrl >> 4), &got, &want);
    }
    out::count("read_handler_measurement_kinds", seen_types.len() as u64);
}

// ---- association information -----------------------------------------------------------------

extern "C" fn ai_start(task_type: c_int, fc: c_int, seq: u8, ctx: *mut c_void) {
    unsafe { log(ctx) }.push(format!(
        "start {} {} {seq}",
        norm(&ffi::TaskType::from(task_type)),
        norm(&ffi::FunctionCode::from(fc))
    ));
}
extern "C" fn ai_success(task_type: c_int, fc: c_int, seq: u8, ctx: *mut c_void) {
    unsafe { log(ctx) }.push(format!(
        "success {} {} {seq}",
        norm(&ffi::TaskType::from(task_type)),
        norm(&ffi::FunctionCode::from(fc))
    ));
}
extern "C" fn ai_fail(task_type: c_int, error: c_int, ctx: *mut c_void) {
    unsafe { log(ctx) }.push(format!(
        "fail {} {}",
        norm(&ffi::TaskType::from(task_type)),
        norm(&ffi::TaskError::from(error))
    ));
}
extern "C" fn ai_unsol(is_duplicate: bool, seq: u8, ctx: *mut c_void) {
    unsafe { log(ctx) }.push(format!("unsol {is_duplicate} {seq}"));
}

extern "C" fn ah_time_valid(ctx: *mut c_void) -> ffi::UtcTimestamp {
    let v = unsafe { *(ctx as *mut u64) };
    ffi::UtcTimestamp {
        value: v,
        is_valid: true,
    }
}
extern "C" fn ah_time_invalid(ctx: *mut c_void) -> ffi::UtcTimestamp {
    let v = unsafe { *(ctx as *mut u64) };
    ffi::UtcTimestamp {
        value: v,
        is_valid: false,
    }
}

pub fn association_adapters(a: &ShardArgs, r: &mut Rng) {
    use dnp3::master::{TaskError, TaskType};
    let task_types = [
        TaskType::UserRead,
        TaskType::PeriodicPoll,
        TaskType::StartupIntegrity,
        TaskType::AutoEventScan,
        TaskType::Command,
        TaskType::ClearRestartBit,
        TaskType::EnableUnsolicited,
        TaskType::DisableUnsolicited,
        TaskType::TimeSync,
        TaskType::Restart,
        TaskType::WriteDeadBands,
        TaskType::GenericEmptyResponse(FunctionCode::Write),
        TaskType::FileRead,
        TaskType::GetFileInfo,
        TaskType::FileWriteBlock,
        TaskType::FileOpen,
        TaskType::FileClose,
        TaskType::FileAuth,
    ];
    let mut got: Box<Log> = Box::new(vec![]);
    let mut want: Log = vec![];
    let mut info = ffi::AssociationInformation {
        task_start: Some(ai_start),
        task_success: Some(ai_success),
        task_fail: Some(ai_fail),
        unsolicited_response: Some(ai_unsol),
        on_destroy: None,
        ctx: &mut *got as *mut Log as *mut c_void,
    };
    let tname = |t: &TaskType| {
        let s = norm(t);
        s
    };
    for t in task_types.iter() {
        for code in 0..=255u8 {
            let Some(fc) = FunctionCode::from(code) else {
                continue;
            };
            let seq = dnp3::verif::util::control_field_from(r.below(16) as u8).seq;
            AssociationInformation::task_start(&mut info, *t, fc, seq);
            want.push(format!("start {} {} {}", tname(t), norm(&fc), seq.value()));
            AssociationInformation::task_success(&mut info, *t, fc, seq);
            want.push(format!("success {} {} {}", tname(t), norm(&fc), seq.value()));
        }
        for e in super::all_task_errors() {
            let name = super::task_error_name(&e).to_lowercase().replace('_', "");
            AssociationInformation::task_fail(&mut info, *t, e);
            want.push(format!("fail {} {}", tname(t), name));
        }
    }
    for dup in [false, true] {
        for s in 0..16u8 {
            AssociationInformation::unsolicited_response(&mut info, dup, dnp3::verif::util::control_field_from(s).seq);
            want.push(format!("unsol {dup} {s}"));
        }
    }
    compare(a, "association_information", "all", &got, &want);
    // the master asks the application for the time
    for _ in 0..64 {
        let mut v: u64 = r.u64() & 0x0000_FFFF_FFFF_FFFF;
        for valid in [true, false] {
            let h = ffi::AssociationHandler {
                get_current_time: Some(if valid { ah_time_valid } else { ah_time_invalid }),
                on_destroy: None,
                ctx: &mut v as *mut u64 as *mut c_void,
            };
            let t = AssociationHandler::get_current_time(&h);
            out::eval(1);
            let want = if valid { Some(v) } else { None };
            if t.map(|x| x.raw_value()) != want {
                viol(
                    a,
                    "callback_mismatch",
                    "association_handler|get_current_time",
                    format!("the application answered (value {v}, valid {valid}); the master received {t:?}"),
                );
            } else {
                out::count("callbacks_ok_get_current_time", 1);
            }
        }
    }
}
