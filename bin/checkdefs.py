"""Per-property run definitions used by bin/check (levels, shard runs, non-vacuity requirements)."""

HARNESS_TRUST = [
    "reference codecs under /verif/harness/inside/refcodec (bit-serial CRC, framer, reassembler, object table) are correct; they are self-tested at start-up",
    "hooks H1/H3 (cfg dnp3_verif) do not change behaviour: PhysLayer::Verif uses the same AsyncRead/AsyncWrite calls as Tcp",
    "checked build: opt-level 1, overflow-checks on, debug-assertions on",
]

CHECKS = {
    "C06": dict(
        level="fault_enumeration",
        rule=("cases = (frame formatted by the library | bit-flipped frame | noise+frame) x chunking x error mode x read mode x rx buffer size, "
              "each fed to the real link::reader::Reader through PhysLayer::Verif and compared with the reference de-framer; "
              "a case is non-trivial when the oracle was evaluated on it; distinct = distinct (part, mode, payload-length class, chunking class, "
              "mutation/noise class, buffer size) tuples"),
        runs=[dict(check="c06", scale=6, timeout_s=900)],
        required=["roundtrip_ok", "flip1_rejected", "flip2_rejected", "flip3_rejected", "noise_target_found",
                  "datagram_split_not_stitched", "datagram_whole_ok", "single_split_sweeps", "buffer_wrap_cases"],
        thorough_scale=30.0,
        exhaustive_note="weight-1 flips exhaustive on 2 headers per payload length 0..=250 (all 8 in thorough); weight-2 exhaustive on payload lengths {0,1,15,16,17} (+{31,32,33,250} thorough); every single split point of a two-frame stream for each payload length",
        assumptions=HARNESS_TRUST,
    ),
    "C08": dict(
        level="exploration",
        rule=("cases = (fragment length 1..=2299 written by the real transport Writer and re-read by the real transport Reader under 3 chunkings x rx buffer sizes) + "
              "(valid segment streams from 1-2 senders mutated by drop/dup/swap/re-address/FIR,FIN flips/sequence skips/interleaving/link-status and empty frames); "
              "+ (session boundaries: one Reader, reset() between two connections, the first of which ends k segments into a fragment and the second of which continues with the remaining segments: nothing of the cut fragment may be delivered); non-trivial = oracle evaluated; distinct = (length class mod 249, length vs rx buffer, chunking) and (role, set of mutation classes, rx size, chunking) tuples"),
        runs=[dict(check="c08", timeout_s=900)],
        required=["D_fragment_up_to_rx_answered", "D_fragment_beyond_rx_dropped", "writer_ok", "roundtrip_ok", "oversize_dropped_next_ok", "delivered_explained", "clean_runs_delivered", "tail_after_damage_ok", "writer_resets", "session_boundary_ok"],
        thorough_scale=40.0,
        exhaustive_note="every fragment length 1..=2299 (lengths above 2048 exceed every rx buffer and must be dropped); all 64 starting transport sequence values via the running writer sequence",
        assumptions=HARNESS_TRUST,
    ),
    "C07": dict(
        level="fault_enumeration",
        rule=("part A: exhaustive table 256 control bytes x 7 destination classes x 7 source classes x {master,outstation} x self-address on/off x 3 secondary states x {empty,6-byte} payload "
              "on the real link::layer::Layer, each followed by a link-status probe; part A2: random FCB sequences; part B (when built): application fragments from foreign master/broadcast in each session state. "
              "distinct = (role, function class, FCV, destination class, source class, self-address, secondary state, payload) tuples"),
        runs=[dict(check="c07", scale=8, timeout_s=900)],
        required=["master_self_address_ignored", "master_own_address_served", "mixed_source_fragment_ignored", "empty_frame_after_rejected_frame_ignored", "link_status_answered", "confirmed_delivered", "confirmed_duplicate_suppressed"],
        thorough_scale=20.0,
        exhaustive_note="link table: all 256 control bytes x 7 dest x 7 src x roles x self-address x 3 secondary states x 2 payloads enumerated completely on every run",
        assumptions=HARNESS_TRUST,
    ),
    "C12": dict(
        level="exploration",
        rule=("scenario = random outstation configuration (tx/rx sizes, decode level, unsolicited on/off, limits) x session state (idle, solicited confirm wait, unsolicited ready, unsolicited confirm wait) "
              "x 1-6 generated requests (8 classes: acceptable, no-reply functions, every unsupported function code, bad header flags, unparsable objects, header rejected for the function at first/middle/last/only position, unexpected objects); "
              "rules S1-S5 evaluated on every transmitted fragment; distinct = (state, request class incl. function code and position, deferred/now) tuples in which a rule was evaluated; "
              "part T (READ selection table): one READ per (group, variation) the library knows (and ten it does not) x {all objects, 8/16-bit range, 8/16-bit count} against a database with three points and events of every type: "
              "objects of the requested group only (none for groups without a point type), the requested variation (or its promotion), inside the range, within the count, exact selection for default-variation static READs; "
              "part L (header limit): READs with limit+0/1/2/5 one-point headers for limits 1, 3, 64 (default), 65, 80, answered at once and deferred behind the null unsolicited response: served in full at the limit, an IIN2 error bit whenever fewer objects come back than headers were sent"),
        runs=[dict(check="c12", scale=10, timeout_s=900)],
        required=["L_over_limit_reported_deferred", "L_over_limit_reported_at-once", "L_at_limit_served_in_full_deferred", "T_read_table_ok", "T_static_selection_exact_ok", "T_no_objects_for_groups_without_points_ok", "S1_seq_ok", "S3_no_reply_ok", "S4_size_ok", "S4_parse_ok", "S5_error_reported", "unsol_fragments_checked", "unsol_seq_consecutive", "series_continuations", "deferred_reads", "state_sol_confirm_wait_reached", "S2_application_value_ok", "S2_restart_not_supported_ok"],
        thorough_scale=25.0,
        abnormal_exit_is_violation=True,
        assumptions=HARNESS_TRUST,
    ),
    "C04": dict(
        level="exploration",
        rule=("history = sequence over {SELECT, OPERATE(same objects / one byte differs), DIRECT_OPERATE, READ, CONFIRM, malformed, broadcast, foreign-master, exact repeat, advance to T-1/T/T+1 ms of the select timeout, reconnect close/pre-empt} "
              "with adversarial sequence numbers; systematic part: SELECT,x,OPERATE and SELECT,x,y,OPERATE for all x,y of a 12-symbol alphabet; every OPERATE is judged by the reference justification predicate; "
              "distinct = (verdict reason incl. which conjunct fails / what intervened, polled|unsolicited, number of select repeats)"),
        runs=[dict(check="c04", scale=10, timeout_s=900)],
        required=["justified_executed_once", "unjustified_rejected", "selects_successful", "selects_failed", "select_repeats", "systematic_histories"],
        thorough_scale=25.0,
        abnormal_exit_is_violation=True,
        exhaustive_note="all 157 histories SELECT [x [y]] OPERATE over the 12-symbol alphabet on every run; thorough adds all 1728 x,y,z,OPERATE histories",
        assumptions=HARNESS_TRUST,
    ),
    "C05": dict(
        level="exploration",
        rule=("scenario = configuration (tx sizes 249..2048, unsolicited on/off, retry limits) x one of: (a) every executing non-READ function sent, then repeated 1-3 times after {nothing, a new event, a time advance}, from idle / unsolicited-ready / unsolicited confirm wait; "
              "(b1) READ answered by a 1..n fragment series, the READ repeated 1-3 times while fragment k awaits its confirm; (b2) data unsolicited response retried after confirm timeouts while events arrive or solicited traffic uses the other buffer. "
              "distinct = (part, function/request shape, session state, disturbance, fragment number, retry number) tuples"),
        runs=[dict(check="c05", scale=10, timeout_s=900)],
        required=["repeat_not_executed", "repeat_echo_identical", "repeat_no_reply_ok", "series_echo_identical", "series_echo_identical_frag2plus", "unsol_retry_identical", "multi_fragment_series", "deferred_read_repeat_served_once"],
        thorough_scale=25.0,
        abnormal_exit_is_violation=True,
        assumptions=HARNESS_TRUST,
    ),
    "C03": dict(
        level="exploration",
        rule=("scenario = random outstation (8 point types, random event variations/classes, per-type buffer sizes 0..100, tx 249..2048, unsolicited on/off, retry limits) x 4-18 operations from "
              "{1-5 uniquely time-stamped forced updates, READ by class/type/count-limited with a per-fragment follow-up action (right confirm, wrong sequence, wrong UNS, timeout, late confirm, aborting request, reconnect close/pre-empt, leave), "
              "ENABLE/DISABLE_UNSOLICITED, reaction to an outstanding unsolicited response (confirm right/wrong, timeout/retry, DISABLE, reconnect), restart-bit write, application flags, broadcast}; "
              "ledger rules R0-R6 evaluated on every update result, every event object on the wire and every event_cleared callback; "
              "hook H6 audits the live buffer under the database's own mutex at every transaction, selection, response build and confirmation: list links both ways, free-slot accounting, total and written counters recomputed from the records, capacity, id order, overflow flag (rules L1-L4, A1-A6); distinct = (profile, solicited/unsolicited, fragment number, follow-up action) tuples"),
        runs=[dict(check="c03", scale=10, timeout_s=900)],
        required=["fragments_with_more_than_255_events_attributed", "points_removed_while_holding_events", "events_created", "overflows", "event_objects_attributed", "R1_release_justified", "R3_conservation_ok", "R4_order_ok", "R5_selection_prefix_ok", "R5_unsol_selection_ok",
                  "confirms_with_expected_release", "sol_timeouts", "late_confirms", "aborts", "reconnect_close", "reconnect_preempt", "disable_during_unsol_wait", "reads_deferred", "unsol_retries",
                  "event_buffer_audits", "event_buffer_audits_at_clear_written", "event_buffer_audits_at_events_info", "event_buffer_audits_at_write_unsolicited", "reconnect_by_disable"],
        thorough_scale=30.0,
        abnormal_exit_is_violation=True,
        assumptions=HARNESS_TRUST + ["event objects are attributed to ledger ids by (type, index, value, flags, time when the variation carries it); updates use unique timestamps"],
    ),
    "C13": dict(
        level="exploration",
        rule=("same driver as C03 with a profile weighted to small buffers (overflow striking written and unwritten events), broadcasts of the three confirm modes, restart-bit writes and application flag flips; "
              "every freshly built response (solicited and unsolicited) has its IIN octets compared with the ledger: class bits, overflow, restart, broadcast, need-time/local-control/device-trouble/config-corrupt; "
              "hook H6 audits the counters those bits are computed from against the buffer's records at every release of the database mutex (rules A1-A6, L1-L4); "
              "distinct = (profile, solicited/unsolicited, fragment number, follow-up action) tuples"),
        runs=[dict(check="c13", scale=10, timeout_s=900)],
        required=["points_removed_while_holding_events", "iin_checked", "class_bit_ok", "overflow_bit_set_ok", "restart_bit_ok", "app_bit_set_ok", "broadcast_bit_ok", "restart_writes", "broadcasts", "overflow_discarded_carried_event",
                  "event_buffer_audits", "event_buffer_audits_at_clear_written", "event_buffer_audits_at_events_info", "reconnect_by_disable",
                  "broadcast_enable_disable", "broadcast_restart_write"],
        thorough_scale=30.0,
        abnormal_exit_is_violation=True,
        assumptions=HARNESS_TRUST,
    ),
    "C01": dict(
        level="exploration",
        rule=("E2: grammar-generated application fragments (every function code, every table variation x qualifier x boundary counts/ranges, free-format and attribute objects with inconsistent lengths, then truncated/extended/bit-flipped) through ParsedFragment::parse, Display at 4 levels, full iteration and measurement extraction, both zero-length-string options; "
              "random/damaged link frames and transport segments through the real readers; all under catch_unwind with overflow checks on. "
              "E1: the same inputs as raw bytes (random chunking) or framed fragments (incl. maximal-size control requests, foreign/broadcast addresses) injected into live outstation and master sessions prepared in 6 states x both link error modes x buffer sizes x 108 decode levels; "
              "after each input: quiescence (spin), panic hook, task alive; at the end link-status and READ probes in virtual time. distinct = (role, state, input class, error mode) and (function, length bucket) tuples"),
        runs=[dict(check="c01", timeout_s=1200),
              # parsers / formatters / extraction / link + transport readers under the Miri interpreter (dependency unsafe code: xxhash)
              dict(check="c01", flavor="miri", tier="thorough", scale=0.00003, extra=["--direct-only"], timeout_s=300)],
        required=["probe_with_chatter", "direct_fragments_parsed", "direct_objects_accepted", "direct_link_streams", "probe_link_status_ok", "probe_read_ok", "close_mode_session_ended_on_framing_error", "master_probe_read_ok", "master_probe_ok_chatter0", "master_probe_ok_chatter1", "master_probe_ok_chatter2", "master_probe_ok_chatter3", "master_close_mode_session_ended_on_framing_error"],
        thorough_scale=25.0,
        abnormal_exit_is_violation=True,
        assumptions=HARNESS_TRUST,
    ),
    "C11": dict(
        level="exploration",
        rule=("scenario = random database (8 types, sparse/dense indices incl. 65535, random static variations incl. packed formats) x tx buffer 249..2048 x 1-4 READs, each with 1-4 headers from "
              "{class 0, all objects of a group with default or specific variation, 8/16-bit ranges incl. overlapping and end-of-range}; per fragment: updates applied while it awaits its confirm, then right confirm / wrong+right / timeout+late confirm / reconnect close / reconnect pre-empt / new request; "
              "the concatenated static objects are compared header by header with the mirror snapshot taken when the request was sent; the C03 driver is run as a second part for the event side of series gating; third part, real threads (the C02 workload: two user threads committing 1-4 point updates per transaction while the master polls over TCP): the static objects of every response series, whatever the number of fragments, must all be explained by ONE database state between two transactions (intervals of the ledger counter during which each point showed the reported value are intersected over the series; rule torn_snapshot). "
              "distinct = (fragments in series, how it ended, tx size, headers) tuples"),
        runs=[dict(check="c11", scale=10, timeout_s=900), dict(check="c03", timeout_s=900, scale=4),
              # real threads: the C02 workload with the one-instant rule (torn_snapshot) evaluated on every response series
              dict(check="c02", scale=0.5, timeout_s=1500)],
        required=["points_removed_during_series", "points_added_during_series", "reads_with_more_than_64_headers_ok", "reads_deferred_behind_null_unsolicited", "deferred_read_superseded", "objects_checked", "complete_series_ok", "multi_fragment_series_ok", "partial_series_prefix_ok", "updates_between_fragments", "wrong_confirms", "series_ended_by_timeout", "series_ended_by_reconnect", "series_ended_by_new_request",
                  "snapshot_fragments_consistent", "snapshot_later_fragments", "snapshot_instant_unique"],
        thorough_scale=25.0,
        abnormal_exit_is_violation=True,
        assumptions=HARNESS_TRUST,
    ),
    "C14": dict(
        level="exploration",
        rule=("scenario = unsolicited-enabled outstation (retry limit None/0/1/3, confirm timeout 50..1000 ms, retry delay 0..5000 ms) x 4-22 steps from {advance exactly T, T-1, 1 ms, D, random; right/wrong unsolicited confirm; update of a class 1/2/3 point; "
              "ENABLE/DISABLE of random classes; READ; non-READ request; reconnect close/pre-empt}; rules U1-U8 are evaluated afterwards over the virtual-time-stamped log of every unsolicited and solicited fragment; "
              "the C03 driver (unsolicited selection and U1 on data) runs as a second part. distinct = (retry limit, timeout, delay, number of unsolicited transmissions, null confirmed) tuples"),
        runs=[dict(check="c14", scale=10, timeout_s=900), dict(check="c03", timeout_s=900, scale=4)],
        required=["U7_reads_with_headers_up_to_the_limit", "long_retry_delay_waited", "U1_fresh_null_sequence_ok", "null_confirmed_scenarios", "U2_data_responses_checked", "U4_retry_ok", "U5_retry_delay_ok", "U7_non_read_immediate_ok", "U7_deferred_read_served_ok", "U7_read_idle_ok", "U8_prompt_unsolicited_ok",
                  "new_series_after_confirm", "new_series_after_reconnect", "new_series_after_disable"],
        thorough_scale=25.0,
        abnormal_exit_is_violation=True,
        assumptions=HARNESS_TRUST,
    ),
    "C15": dict(
        level="exploration",
        rule=("scenario = master with two associations on one channel; 1-3 user tasks (read single/multi-fragment, direct operate, select+operate, non-LAN time sync, restart, dead-band write, empty-response request, file info, file read [open / block / close steps]); for each the harness (as outstation) sends a stream of 0-4 unacceptable fragments "
              "{wrong sequence, wrong source (other association / unknown), solicited with UNS, illegal FIR/FIN/CON for the position, IIN2 rejection, unsolicited (null/data), duplicate unsolicited, truncated objects, unknown object} optionally followed by the faithful answer; "
              "distinct = (task kind, fragment class, fragment position, CON) tuples in which the acceptance/confirm/delivery rules were evaluated"),
        runs=[dict(check="c15", scale=10, timeout_s=900)],
        required=["mixed_source_responses_sent", "custom_handler_deliveries_ok", "misflagged_unsolicited_sent", "accepted_confirmed_ok", "rejected_not_confirmed_ok", "completed_with_answer_ok", "not_completed_without_answer_ok", "deliveries_match_ok", "unsolicited_confirmed_ok", "unsolicited_delivery_ok", "unsolicited_duplicates_sent", "startup_unsol_retry_delivered_ok", "startup_unsol_duplicate_null_ok", "long_series_ok"],
        thorough_scale=25.0,
        abnormal_exit_is_violation=True,
        assumptions=HARNESS_TRUST,
    ),
    "C16": dict(
        level="fault_enumeration",
        rule=("part A: for generated command sets (5 control types, 8/16-bit indices, 1-3 headers) and both modes, the COMPLETE catalogue of single-change echo mutations (every status code, every value byte, index, dropped/duplicated/swapped object, prefix width, variation, dropped/swapped/extra header, empty, truncated, IIN2 rejection) applied to the first reply and, for select-before-operate, to the second; "
              "part B: every request kind (read, direct operate, select+operate, 3 time-sync procedures, cold/warm restart, dead-band write, link status, empty-response, file read through a recording FileReader [open, two blocks, close], the same after authentication [5 steps], directory read [listing cut inside a descriptor], file info, file authenticate / open / write block / write last block / close) x every protocol step x {no failure, reply lost, reply lost with channel chatter, link error, channel disabled, association removed, association removed and the reply then arrives, master task cancelled (runtime shutdown); for file operations also 8 replies that do not grant the step: failure status or zero key, other variation, truncated, IIN2 rejection, empty, two headers, wrong handle, wrong block}; part Q: queue full and no connection. "
              "distinct = (part, mode, mutation class, step) and (request kind, step, failure) tuples"),
        runs=[dict(check="c16", scale=6, timeout_s=900)],
        required=["queued_resolved_after_disable_ok", "faithful_echo_ok", "mutated_echo_rejected", "operate_withheld_ok", "operate_matches_select_ok", "catalogue_runs", "faithful_exchange_ok", "failure_reported_in_time", "failure_points_enumerated", "queue_full_rejected_ok", "no_connection_rejected_ok", "file_close_failure_after_completion_ok",
                  "faithful_ok_read_directory", "faithful_ok_read_file_auth", "faithful_ok_file_auth", "faithful_ok_file_open", "faithful_ok_file_write_last_block", "faithful_ok_file_close",
                  "file_reply_spoiled_status", "file_reply_spoiled_wrong_handle", "file_reply_spoiled_wrong_block", "file_reply_spoiled_two_headers"],
        thorough_scale=12.0,
        abnormal_exit_is_violation=True,
        exhaustive_note="mutation catalogue enumerated completely for each generated command set; request kind x step x failure enumerated completely (3 repetitions with different timeouts/decode levels)",
        assumptions=HARNESS_TRUST,
    ),
    "C17": dict(
        level="exploration",
        rule=("generated association configurations (disable/enable/integrity classes on or off, three time-sync procedures, retry min/max with non power-of-two ratios, keep-alive, periodic poll) against a scripted outstation that answers faithfully with scripted IIN1.7 / IIN1.4 bits, stays silent for / rejects with IIN2 / answers with a malformed reply the first n attempts of one automatic task, injects empty and data-bearing unsolicited responses at random positions and reconnects; "
              "M1 order of first occurrences per connection, M2 clear-restart is the next request after IIN1.7 and integrity/enable are repeated before polls resume, M3 unsolicited data is neither delivered nor confirmed before integrity completes (empty ones are confirmed; data is delivered after), M4 exact back-off delays in virtual time"),
        runs=[dict(check="c17", scale=2, timeout_s=900)],
        required=["M1_step_in_order_ok", "M1_full_startup_seen", "M2_step_in_order_ok", "poll_after_startup_ok", "M3_gated_ok", "M3_gated_after_restart_ok", "M3_null_confirmed_ok", "M3_delivered_after_integrity_ok", "M4_backoff_ok", "M4_backoff_ok_Silent", "M4_backoff_ok_BadReply", "M4_backoff_ok_Stubborn", "M4_backoff_at_max_ok", "M4_backoff_ok_time_sync_BadReply", "M4_backoff_ok_time_sync_Rejected", "M4_backoff_ok_time_sync_StillNeedsTime", "unsolicited_idle", "unsolicited_awaiting_reply", "unsolicited_back_off", "rejected_by_iin2_replies"],
        thorough_scale=12.0,
        abnormal_exit_is_violation=True,
        assumptions=HARNESS_TRUST,
    ),
    "C19": dict(
        level="exploration",
        rule=("1-3 associations on one channel, 0-2 polls each with periods 300..2500 ms, keep-alive off/1500/4000 ms, user reads and writes submitted singly and in bursts at arbitrary virtual instants (many aligned with poll deadlines), poll demands, replies prompt / late / never, unsolicited, stale and link-layer noise; "
              "a reference schedule model is evaluated at every request written: Q1 FIFO per association and user requests ahead of polls/keep-alives, Q2 polls never before completion+period, Q3 least-recently-served association first, Q4 keep-alive only after silence and after due polls, Q5 one outstanding request, Q6 write instant == max(channel free, earliest eligibility) exactly and scheduler passes bounded by events, Q7 channel disabled for 0..1500 ms then enabled on a new connection: nothing written while disabled, the model holds again afterwards"),
        runs=[dict(check="c19", scale=3, timeout_s=900)],
        required=["demand_only_polls", "Q1_fifo_ok", "Q1_no_user_waiting_ok", "Q2_poll_not_early_ok", "Q3_turn_taken_in_order_ok", "Q4_keep_alive_after_silence_ok", "Q5_channel_free_ok", "Q6_wake_exact_ok", "Q6_woke_at_deadline_ok", "Q6_no_spin_ok", "Q7_silent_while_disabled_ok"],
        thorough_scale=12.0,
        abnormal_exit_is_violation=True,
        assumptions=HARNESS_TRUST,
    ),
    "C18": dict(
        level="exploration",
        rule=("part A: real master and real outstation joined by a relay with scripted one-way delays f, b (0 .. 90 000 ms), processing delay p (0 .. 65 535 ms, held honestly or not), master clock anywhere in 0 .. 2^48-1, three procedures, crossing unsolicited responses and stale wrong-sequence replies; the time handed to the outstation application is compared with the master's clock at that virtual instant; "
              "part B: real master against a scripted outstation (excess processing delay, unexpected objects at every step, NEED_TIME kept, IIN2 rejection, 48-bit overflow); part C: real outstation against a scripted master (g50v3 = recorded + elapsed exactly, rejected without record or on overflow, g50v1, g52v2)"),
        runs=[dict(check="c18", timeout_s=900)],
        required=["B_replies_asking_for_confirmation", "C_sum_exactly_at_48_bit_limit_ok", "C_sub_millisecond_elapsed", "A_accuracy_within_bound_ok", "A_accuracy_ok_proc0", "A_accuracy_ok_proc1", "A_exact_when_symmetric_ok", "A_accuracy_ok_with_processing_delay", "A_accuracy_ok_delay_beyond_16_bits", "A_failed_as_demanded_ok", "B_failed_as_demanded_ok", "B_success_on_benign_script_ok", "C_recorded_plus_elapsed_ok", "C_write_without_record_rejected_ok", "C_overflow_rejected_ok"],
        thorough_scale=10.0,
        abnormal_exit_is_violation=True,
        assumptions=HARNESS_TRUST,
    ),
    "C10": dict(
        level="exploration",
        rule=("real outstation database -> response / unsolicited writers -> relay -> real master parser, extraction and handler; points of all eight types at indices 0 .. 65535 with every configurable static and event variation; values at and around every representation boundary (i16/i32/f32 limits +-1, NaN, infinities, -0.0, random bit patterns, counters around 2^16 and 2^32), every flag octet, 48-bit times along a line with gaps 0, 1, 65534..65536, 70000, negative, and sync flips; "
              "class 0, static reads by type with explicit variation (all objects, 8- and 16-bit ranges), event reads by class and by type with explicit variation (all objects, 8- and 16-bit limited counts) and unsolicited delivery, each read attributed to its records; each handler record is judged by a hand-written 'what this variation can carry' function of the database value"),
        runs=[dict(check="c10", scale=4, timeout_s=900)],
        required=["measurements_written_without_a_time", "event_values_ok", "static_values_ok", "relative_time_reconstructed_ok", "ok_g1v1", "ok_g1v2", "ok_g2v3", "ok_g4v3", "ok_g20v6", "ok_g30v2", "ok_g30v5", "ok_g32v4", "ok_g32v7", "ok_g42v8", "ok_g111v1", "explicit_event_variation_ok", "explicit_static_variation_ok", "update_flags_used"],
        thorough_scale=12.0,
        abnormal_exit_is_violation=True,
        assumptions=HARNESS_TRUST,
    ),
    "C09": dict(
        level="exploration",
        rule=("library parser (first pass, iteration through its decode formatter, typed extraction) vs the harness' reference header walker, hand-written object size table and measurement decoders, on: "
              "A1 every fragment the real master writes for generated user requests (class / all-objects / 8- and 16-bit range / limited-count reads over every table variation, five command types with 8/16-bit indices, three time-sync procedures, dead-bands, restarts, empty-response functions, automatic tasks) - READ header lists, command objects (index width, every CROB / analog-output field), OPEN_FILE / file block / CLOSE_FILE / authentication objects compared octet for octet with a hand-written encoding of what was asked; "
              "A2 every response and unsolicited fragment the real outstation writes for generated databases (all types/variations, boundary values) and requests; A3 device attributes (all seven value types, private and default sets, values at the integer width boundaries, strings up to 255 octets) defined in the real outstation and read one by one, as a whole set, as a variation list and written by a scripted master: object bytes against a hand-written encoding, the value handed to the master's handler, write verdicts, read-after-write, series termination; A4 analog dead-bands written by the real master (three variations, 8/16-bit indices), applied by the real outstation (application callbacks) and read back by the real master; P grammar-generated fragments x both zero-length-string options; plus 6 truncations / extensions / bit flips / octet substitutions of every captured fragment"),
        runs=[dict(check="c09", timeout_s=900),
              dict(check="c09", flavor="miri", tier="thorough", scale=0.0004, extra=["--direct-only"], timeout_s=300)],
        required=["A1_command_request_as_asked", "A1_file_request_as_asked", "A1_open_file_request_as_asked", "A2_relative_event_times_as_written", "A2_truncated_control_echo_checked", "A1_file_requests_checked", "A1_fragments_agree", "A1_read_request_as_asked", "A2_fragments_agree", "A2_objects_agree", "A2_measurements_agree", "P_fragments_agree", "P_objects_agree", "P_objects_rejected", "A1_mutated_objects_rejected", "A2_mutated_objects_rejected", "A2_mutated_fragments_agree", "A3_attribute_read_ok", "A3_attribute_delivered_ok", "A3_attribute_set_read_ok", "A3_variation_list_ok", "A3_attribute_write_accepted_ok", "A3_attribute_write_rejected_ok", "A3_attribute_after_write_ok", "A3_read_ok_code3", "A4_dead_band_write_ok", "A4_dead_band_read_ok", "A3_default_set_attribute_named_ok"],
        thorough_scale=12.0,
        abnormal_exit_is_violation=True,
        assumptions=HARNESS_TRUST,
    ),
    "C02": dict(
        level="exploration",
        rule=("real TCP master client and real TCP outstation server on loopback (public API only) on a multi-threaded tokio runtime in real time, joined by a byte-level proxy that re-chunks both streams (whole / bytewise / 1-7 / 1-300 octets, random pauses) and cuts the connection after a random number of further octets, drops connections for 100-350 ms, or closes its listener for 100-400 ms so that connection attempts are refused; two user threads update all eight point types in transactions with unique values while the master sends CROB and analog-output commands that the outstation application turns into output-status updates; "
              "unsolicited on/off, periodic polls on/off, event buffers 4 or 250 per type, minimal or default buffer sizes, both link error modes; in half of the scenarios binary and double-bit events use the relative-time variations (g2v3 / g4v3) and time stamps are unique but not monotonic (every third one about 40 s ahead), and the master issues seven-header static READs while the updaters commit back to back. After the stimulus stops: convergence within 40 s (last record of every point == current database value; every event not reported as overflow-discarded by update2 delivered as an event), every record ever received equals a value the point really had (ledger updated inside the same database transaction); every analog-output command carries a unique value: reported success => executed exactly once, never executed twice"),
        runs=[dict(check="c02", timeout_s=1500),
              # the same real-TCP workload under AddressSanitizer and ThreadSanitizer (nightly, -Zbuild-std for TSan)
              dict(check="c02", flavor="asan", tier="thorough", scale=0.1, timeout_s=600),
              dict(check="c02", flavor="tsan", tier="thorough", scale=0.1, timeout_s=600)],
        required=["scenarios_with_16_bit_analog_variations", "analog_values_outside_16_bits_written", "updates_with_event_detection", "converged", "records_match_history", "events_delivered", "events_overflow_discarded", "commands_executed", "connection_cuts", "converged_after_cuts", "converged_after_overflow", "commands_ok_executed_once", "connection_refusal_periods", "scenarios_with_relative_time_events", "multi_header_static_reads_ok"],
        thorough_scale=10.0,
        abnormal_exit_is_violation=True,
        assumptions=HARNESS_TRUST + ["real-time run: the 40 s convergence budget is three orders of magnitude above the observed convergence time on loopback; a firing is reported as a violation"],
    ),
    "C20": dict(
        level="fault_enumeration",
        rule=("E: every variant of every binding enumeration (enumerated through the generated From<c_int>, 0..1100) converted to the native type, and every native value (all 256 octets through the library's own from(u8) constructors for command status / function code / control code; exhaustive lists guarded by a compile-time exhaustive match for the rest) converted to the binding type: normalised Debug names equal, no two sources collapse into one target unless the target lacks the variant, identity on round trips where both directions exist; "
              "S: struct conversions with distinct sentinels in every field (all 256 flag octets, three time qualities x boundary times, update options, seven measurement structs both ways, IIN1/IIN2 all 256 octets each, event buffer sizes, restart delay, application IIN 16 combinations, class-zero fields one at a time, every static x event variation x dead-band of the seven point configurations, CROB); "
              "S2: the channel, association and outstation configuration structures with a distinct sentinel in every field (addresses, eight buffer maxima, buffer sizes, four decode levels, time-outs in their declared units, features, limits, class-zero switches), compared field by field with the native value built from the same numbers, and each out-of-range value refused on its own; "
              "K: every callback adapter of the binding crate (the library's traits implemented on the generated C interface structs: ReadHandler with all 13 measurement iterators and fragment brackets, AssociationInformation, AssociationHandler, ControlHandler with the five control types, OutstationApplication, OutstationInformation, and the eleven promise callbacks) filled with recording extern \"C\" callbacks: the native trait method is called with generated arguments and which callback ran, each argument, every iterator item in order, the database pointer and every returned value are compared with what went in; the request / command-set / dead-band builder entry points are driven with random call sequences next to the native builders and the encoded object headers compared octet by octet; "
              "D: random add / remove / update2 / update_flags / get / octet-string add, remove, update (both entry points, 0..256 octets) / device-attribute definition (seven value types, default and private sets, writable or not) sequences applied through the crate-private binding entry points to one database and natively to another: same results, same get, same wire image"),
        runs=[dict(check="c20", driver="driver_ffi", timeout_s=900),
              # the raw-pointer entry points again under the Miri interpreter (aliasing / provenance / uninitialised reads)
              dict(check="c20", driver="driver_ffi", flavor="miri", scale=0.08, timeout_s=900)],
        required=["variants_map_to_namesake", "round_trips_ok", "flags_ok", "timestamps_ok", "measurements_in_ok", "measurements_out_ok", "iin_ok", "differential_sequences_ok", "differential_image_octets", "conversion_Variation(in)", "conversion_CommandStatus(out)", "conversion_TaskType", "conversion_TaskError->FileError", "permissions_ok",
                  "callbacks_ok_read_handler", "callbacks_ok_association_information", "callbacks_ok_get_current_time", "callbacks_ok_control_handler", "callbacks_ok_control_status_returned",
                  "callbacks_ok_outstation_application", "callbacks_ok_application_results", "callbacks_ok_outstation_information", "callbacks_ok_promise_completion", "callbacks_ok_promise_dropped",
                  "builders_ok_request", "builders_ok_command_set", "builders_ok_dead_band_request", "differential_attr_definitions", "differential_octet_string_ops",
                  "configs_ok_master_channel", "configs_ok_association", "configs_ok_outstation", "configs_invalid_refused",
                  "callbacks_ok_attributes_delivered", "callbacks_ok_read_handler_attributes", "callbacks_ok_attribute_write_answers", "callbacks_ok_application_attribute_writes"],
        thorough_scale=20.0,
        abnormal_exit_is_violation=True,
        assumptions=HARNESS_TRUST + ["'like-named' is decided on Debug names after removing case, underscores and payloads, with an explicit rename table (Unknown -> Nul for trip-close / operation codes that the binding cannot express)"],
    ),
}
