HOOK_COMMITS = []  # filled by genmanifest callers: see bottom
import subprocess
try:
    out = subprocess.run(["git", "-C", "/repo", "log", "--format=%h %s"], capture_output=True, text=True).stdout
    HOOK_COMMITS = [l.split(" ")[0] for l in out.splitlines() if l.split(" ", 1)[1].startswith("verif hook")]
except Exception:
    pass

PENDING_REASON = {}

META = {
 "C06": dict(
    engine="vh",
    design_ref="5.6",
    technique="runtime monitor: differential against reference de-framer (bit-serial CRC) over enumerated bit errors, split points and generated noise",
    text=("Fault enumeration + exploration. The real link::reader::Reader (ReadBuffer+Parser) is driven through PhysLayer::Verif with exact read boundaries. "
          "Exhaustive: every payload length 0..=250 x library formatter round trip, every single split point, all weight-1 bit errors on >=2 headers per length, "
          "all weight-2 errors on block-boundary lengths; sampled: weight 2/3/heavier, noise+frame under 5 chunking classes, buffer wrap-around, datagram mode. "
          "Oracle: delivered frame sequence == reference leftmost-valid-frame scanner (discard) / sequential de-framer (close), plus model-independent rules "
          "(damaged frame of weight<=3 never delivered; valid frame after noise found). Held = no disagreement on the executions produced."),
    note="Trusted: /verif reference framer and bit-serial CRC (self-tested against the IEEE 1815 reset-link vector and round trips). Completeness in discard mode is asserted against the leftmost-valid-frame scanner; frames overlapping an earlier valid header are out of scope.",
 ),
 "C08": dict(
    engine="vh",
    design_ref="5.8",
    technique="runtime monitor: round trip Writer->wire->Reader checked by reference de-framer/segmenter, plus run-explanation (soundness) and clean-run (completeness) rules over uniquely tagged mutated segment streams",
    text=("Exploration with an exhaustive length sweep. The real transport::real::{Writer,Reader} and link Layer run over PhysLayer::Verif. "
          "Writer output for every length is decoded by the reference de-framer: ceil(n/249) segments, FIR first only, FIN last only, consecutive sequence across fragments, reset() restarts at 0. "
          "Reader: every delivered fragment must be explainable as a well-formed run (same source/broadcast identity, FIR first, FIN last, consecutive 6-bit sequence, <= rx buffer) of the injected tagged segments; "
          "every contiguous well-formed run in the injected stream, in particular the clean fragment after the damage, must be delivered. Both roles, both error modes, all 108 decode levels sampled."),
    note="Trusted: /verif reference framer/segmenter. Segment payloads are random tags (uniqueness probabilistic, >=6 bytes). The reference reassembler model is reported as evidence only, not as an oracle.",
 ),
}
