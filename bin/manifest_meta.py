HOOK_COMMITS = []  # filled by genmanifest callers: see bottom
import subprocess
try:
    out = subprocess.run(["git", "-C", "/repo", "log", "--format=%h %s"], capture_output=True, text=True).stdout
    HOOK_COMMITS = [l.split(" ")[0] for l in out.splitlines() if l.split(" ", 1)[1].startswith("verif hook")]
except Exception:
    pass

PENDING_REASON = {}

META = {
 "C06": dict(
    engine="vh",
    design_ref="5.6",
    technique="runtime monitor: differential against reference de-framer (bit-serial CRC) over enumerated bit errors, split points and generated noise",
    text=("Fault enumeration + exploration. The real link::reader::Reader (ReadBuffer+Parser) is driven through PhysLayer::Verif with exact read boundaries. "
          "Exhaustive: every payload length 0..=250 x library formatter round trip, every single split point, all weight-1 bit errors on >=2 headers per length, "
          "all weight-2 errors on block-boundary lengths; sampled: weight 2/3/heavier, noise+frame under 5 chunking classes, buffer wrap-around, datagram mode. "
          "Oracle: delivered frame sequence == reference leftmost-valid-frame scanner (discard) / sequential de-framer (close), plus model-independent rules "
          "(damaged frame of weight<=3 never delivered; valid frame after noise found). Held = no disagreement on the executions produced."),
    note="Trusted: /verif reference framer and bit-serial CRC (self-tested against the IEEE 1815 reset-link vector and round trips). Completeness in discard mode is asserted against the leftmost-valid-frame scanner; frames overlapping an earlier valid header are out of scope.",
 ),
 "C08": dict(
    engine="vh",
    design_ref="5.8",
    technique="runtime monitor: round trip Writer->wire->Reader checked by reference de-framer/segmenter, plus run-explanation (soundness) and clean-run (completeness) rules over uniquely tagged mutated segment streams",
    text=("Exploration with an exhaustive length sweep. The real transport::real::{Writer,Reader} and link Layer run over PhysLayer::Verif. "
          "Writer output for every length is decoded by the reference de-framer: ceil(n/249) segments, FIR first only, FIN last only, consecutive sequence across fragments, reset() restarts at 0. "
          "Reader: every delivered fragment must be explainable as a well-formed run (same source/broadcast identity, FIR first, FIN last, consecutive 6-bit sequence, <= rx buffer) of the injected tagged segments; "
          "every contiguous well-formed run in the injected stream, in particular the clean fragment after the damage, must be delivered. Both roles, both error modes, all 108 decode levels sampled."),
    note="Trusted: /verif reference framer/segmenter. Segment payloads are random tags (uniqueness probabilistic, >=6 bytes). The reference reassembler model is reported as evidence only, not as an oracle.",
 ),
 "C12": dict(
    engine="vh",
    design_ref="5.12",
    technique="runtime monitor: temporal/shape rules S1-S5 over the wire log of the real outstation session driven with generated requests in virtual time",
    text=("Exploration. The real OutstationTask inside the real TCP ServerTask runs over PhysLayer::Verif with the production link/transport stack under a paused clock. "
          "Requests of 8 generator classes (every function code 0..=255, header-flag combinations, unparsable objects, headers rejected for the function at first/middle/last position, no-reply functions, oversized control echoes) are injected in 4 session states; "
          "every transmitted fragment is checked: S1 solicited = request sequence(+k), UNS clear, FIR first only; S2 unsolicited = UNS+FIR+FIN+CON, consecutive numbering (retries identical); S3 no reply to CONFIRM / no-ack functions; "
          "S4 size <= configured transmit size and accepted by the reference object walker; S5 rejected request => exactly one response with an IIN2 error bit. "
          "Part T sweeps the READ selection table: one READ per known (group, variation) x five qualifiers against a database with every point and event type; the response may carry only the requested group (nothing for groups without a point type), the requested variation, the requested range and count. Part L sends READs with as many and with more object headers than the configured limit, at once and deferred: whenever part of the request is dropped the response must carry an IIN2 error bit."),
    note="Which object headers count as rejected is a conservative generator list (DESIGN 5.22). READs deferred by an unsolicited confirm wait are awaited for one confirm timeout. Trusted: reference walker/table.",
 ),
 "C04": dict(
    engine="vh",
    design_ref="5.4",
    technique="runtime monitor: reference justification predicate over the history of received fragments vs control-handler callbacks (virtual time), plus systematic enumeration of short histories",
    text=("Exploration with a small exhaustive part. Histories over a 12-symbol alphabet are sent to the real outstation session; for every OPERATE the harness-side reference decides 'justified' "
          "(previous received fragment, exact repeats excepted, is a SELECT answered SUCCESS for byte-identical objects, sequence+1, within the select timeout measured from the first SELECT, same connection). "
          "Unjustified: zero handler calls and no SUCCESS status (echoes of an earlier identical request excepted); justified with nothing in between: exactly one handler call per object. "
          "All SELECT,x,OPERATE and SELECT,x,y,OPERATE histories are enumerated on every run; timeouts are probed at T-1/T/T+1 ms; both reconnect shapes (close, pre-empting connection)."),
    note="Adjacency counts received application fragments (DESIGN 5.22). After a SELECT retransmission the library may conservatively reject; that is counted, not flagged.",
 ),
 "C05": dict(
    engine="vh",
    design_ref="5.5",
    technique="runtime monitor: callback counters and byte-set membership of re-sent fragments over the session wire log (virtual time)",
    text=("Exploration. (a) every non-READ function the outstation executes is sent and then repeated 1-3 times after nothing / a new event / a time advance, from idle, unsolicited-ready and unsolicited confirm wait: no side-effect callback may fire and the reply must be byte-identical to the first one (or absent if none was sent); "
          "(b1) a READ is repeated while fragment k of its series awaits confirmation: every reply must be identical to a fragment already transmitted in the session; (b2) unsolicited retries (same sequence) must be identical to the outstanding response while events arrive and solicited traffic uses the other buffer."),
    note="Only direct retransmissions are judged (same bytes, same sequence, nothing but updates/time in between).",
 ),
 "C03": dict(
    engine="vh",
    design_ref="5.3",
    technique="runtime monitor: offline-style ledger (created = released + discarded + held, exactly-once release, release only after a matching CONFIRM of the carrying fragment) evaluated online over update results, wire fragments and application callbacks in global event order; plus invariant-at-a-hook audit (H6) of the live event buffer under the database mutex (list links, slot accounting, counters recomputed from records)",
    text=("Exploration. Every update through the public database API is recorded with its UpdateInfo (unique, non-monotonic timestamps); every transmitted fragment is decoded with the reference codec and each event object is attributed to a ledger id "
          "(fidelity of index/value/flags/time incl. relative-time reconstruction, oldest-first order); every event_cleared callback must fall inside a begin/end_confirm bracket caused by a CONFIRM the harness sent for the fragment that carried exactly those ids; "
          "BufferState at every end_confirm must equal created-released-discarded per class and type; READ responses and unsolicited responses must carry a prefix of the reference selection over unreleased events (events carried by an unconfirmed response are offered again). "
          "Follow-up actions per fragment: right/wrong-sequence/wrong-UNS confirm, timeout, late confirm, aborting request, reconnect (close, pre-empt); unsolicited: confirm, retries, DISABLE, deferred READ."),
    note="Pipe writes and mock callbacks share one global order stamp, so rules are evaluated in true event order. Values are chosen representable in every event variation (C10 covers saturation).",
 ),
 "C13": dict(
    engine="vh",
    design_ref="5.13",
    technique="runtime monitor: IIN octets of every freshly built response compared with a ledger-derived reference (class bits, overflow, restart, broadcast, application flags) in global event order; plus invariant-at-a-hook audit (H6) of the counters those bits are computed from against the buffer's records at every release of the database mutex",
    text=("Exploration. Same driver as C03 with a profile weighted to small per-type buffers, broadcasts (three confirm modes), restart-bit writes and application flag flips. For every solicited and unsolicited response built afresh: "
          "class k bit <=> a held class-k event exists that is not part of a response awaiting confirmation (the response's own events count as part of it); overflow set from a discard until a confirmation leaves every type below capacity; "
          "restart until a processed WRITE g80v1[7]=0 (across reconnects); broadcast from the broadcast_received callback until reported (mandatory: kept until a CONFIRM is sent, then the oracle is silent); need-time/local-control/device-trouble/config-corrupt mirror the mock application."),
    note="Echoes are excluded (C05). The response to a DISABLE_UNSOLICITED that cancels an unsolicited series is judged with that series still outstanding.",
 ),
 "C07": dict(
    engine="vh",
    design_ref="5.7",
    technique="runtime monitor: exhaustive reference table over the real link Layer (every control byte x address class x role x secondary state) plus session-level silence/addressing rules for foreign-master and broadcast fragments",
    text=("Fault enumeration. Part A: the real link::layer::Layer is fed every one of 256 control bytes x 7 destination classes x 7 source classes x {master, outstation} x self-address on/off x 3 secondary states x 2 payloads; "
          "delivered FrameInfo and written reply frames are compared with a table written from the property text (direction, ordinary source, destination in {own, self if enabled, broadcast for outstations}; broadcast accepts only user data and is never answered; "
          "ACK only for reset-link and in-state confirmed data; link status requests always answered; confirmed data delivered once per FCB toggle), each case followed by a link-status probe; random FCB sequences. "
          "Part B: application fragments (valid, unknown/response function, bad flags, unknown object, truncated, one byte) from the configured master, a foreign master and the three broadcast addresses in idle / solicited / unsolicited confirm wait with the broadcast and any-master features on and off: nothing may be transmitted after a broadcast or a foreign fragment, nothing from a foreign master may execute."),
    note="Malformed FCV/FCB combinations: only the safe direction (nothing delivered) is asserted (DESIGN 5.22).",
 ),
 "C01": dict(
    engine="vh",
    design_ref="5.1",
    technique="runtime monitor with the compiler's overflow/bounds/unwrap checks as sanitizer: panic hook + liveness probes in virtual time over hostile generated inputs in every session state",
    text=("Exploration. Checked build (overflow checks, debug assertions). E2: ~10^5 grammar-generated and mutated fragments per run through parse/Display(4 levels)/iteration/extraction and damaged frame/segment streams through the real link+transport readers under catch_unwind. "
          "E1: hostile raw bytes and framed fragments (maximal-size control requests, foreign and broadcast addresses) injected into live outstation sessions prepared in idle, solicited confirm wait, select pending, deferred read, overflow during confirm wait and unsolicited activity, "
          "for both link error modes, rx/tx sizes 249..4096 and all 108 decode levels (every tracing event is formatted). After each input: the endpoint must reach quiescence (no spin), not panic, keep its task; Close mode must end the session on a framing error and serve the next one; "
          "finally a link status request and a READ class 0 must be answered within a bounded virtual time. The master role is added by the master simulator part."),
    note="A shard that dies abnormally is reported as a violation naming the scenario in progress. Stall bound: 4 confirm timeouts + retry delay + 2 s of virtual time.",
 ),
 "C11": dict(
    engine="vh",
    design_ref="5.11",
    technique="runtime monitor: reference database mirror (snapshot at request time) compared with the concatenated static objects of each response series; structural rules on FIR/FIN/CON/sequence and confirm gating in virtual time; under real threads (TCP loopback, two updater threads) an offline history check: the static objects of each response series must be explained by one database state between two ledger-recorded transactions",
    text=("Exploration. Random databases (8 types, sparse and dense indices up to 65535, every static variation incl. bit-packed ones) and READs (class 0, all-objects, 8/16-bit ranges, specific variations, overlapping headers) against tx buffers 249..2048. "
          "For every request header the reported points must be exactly the existing points in range, each once, ascending, with the value/flags/time the mirror held when the request was sent (updates applied while fragments await confirmation must not appear), "
          "in the requested or configured variation (packed formats only for plainly ONLINE points). FIR only first, FIN only last, consecutive sequence, CON on every non-final fragment, next fragment only after the matching confirm (wrong confirms and updates do not release it), "
          "nothing after a timeout, late confirm, new request or reconnect; the first response on a new connection contains exactly what its request selects. "
          "Real-thread part (C02 workload): user threads commit 1-4 point updates per transaction (back to back while a seven-header static READ is outstanding); for every response series the intervals of the ledger counter during which each reported point showed the reported value are intersected and must contain a transaction boundary (rule torn_snapshot)."),
    note="Header partitioning is free: object sequences are compared, not header boundaries; within a class 0 header types may come in any order.",
 ),
 "C14": dict(
    engine="vh",
    design_ref="5.14",
    technique="runtime monitor: temporal rules U1-U8 over a wire log stamped with virtual time and a global event order",
    text=("Exploration. Unsolicited-enabled outstations with retry limits None/0/1/3, confirm timeouts 50..1000 ms and retry delays 0..5000 ms are driven by random interleavings of exact time advances (T, T-1, 1 ms, D), right/wrong confirms, updates, ENABLE/DISABLE, READs of three shapes, other requests and reconnects. "
          "U1 only fresh-sequence null responses until one is confirmed; U2/U6 data only for enabled classes; U3 one outstanding; U4 retries identical, exactly one timeout apart, bounded by the limit, none while a READ is deferred; "
          "U5 a new series no sooner than the retry delay after a failed one; U7 a READ during the wait is answered once, after the series ends, with exactly what it selects, unless superseded, and other requests in zero virtual time; U8 an update in the ready state produces an unsolicited response in the same instant."),
    note="ENABLE/DISABLE take effect at the order stamp of their response (requests retained while a solicited series is aborted are processed later than they were sent).",
 ),
 "C15": dict(
    engine="vh",
    design_ref="5.15",
    technique="runtime monitor: reference acceptance predicate over the response stream vs task outcome, CONFIRMs on the wire and ReadHandler call brackets, master driven over the real transport in virtual time",
    text=("Exploration. The real MasterTask (production link/transport) runs over PhysLayer::Verif with two associations; the harness is the outstation. For every task kind (single and multi-fragment reads up to 19 fragments so that the 4-bit sequence wraps, "
          "direct operate, select+operate, non-LAN time sync steps, restart, dead-band write, empty-response request) it sends unacceptable fragments at any position (wrong sequence, wrong/unknown source, UNS on a solicited response, every illegal FIR/FIN/CON for the position, IIN2 rejections, "
          "truncated/unknown objects, null and data unsolicited responses and their duplicates) optionally followed by the faithful answer. Rules: success only after an acceptable answer and never after a fatal fragment; exactly one CONFIRM (same sequence, same UNS) for each accepted fragment with CON and none for rejected ones; "
          "ReadHandler receives begin/objects/end exactly once per accepted fragment in wire order; duplicate unsolicited fragments are confirmed but not re-delivered; an unsolicited response ignored during start-up and retried after the integrity poll is delivered."),
    note="Time bounds use the response timeout in virtual time. The quiet association configuration disables automatic tasks in the main scenario.",
 ),
 "C16": dict(
    engine="vh",
    design_ref="5.16",
    technique="runtime monitor with enumerated faults: complete single-change mutation catalogue of the command echo and complete (request kind x protocol step x failure) enumeration, outcomes of user futures observed in virtual time",
    text=("Fault enumeration. Part A: for generated command sets (five control types, 8/16-bit indices, 1-3 headers) in both modes the harness first answers faithfully (operate() must return Ok; OPERATE must carry sequence+1 and byte-identical objects) and then replays the exchange once per mutation of the echo "
          "(every status code, every value byte, index, dropped/duplicated/swapped object, other prefix width or variation, dropped/swapped/extra header, empty, truncated, IIN2 rejection), in the first reply and for select-before-operate also in the second: operate() must return an error and OPERATE must not be sent after an unfaithful SELECT echo. "
          "Part B: every request kind x every protocol step x {reply lost, reply lost while unrelated user messages / unsolicited / stale responses keep the channel busy, link error, disable, remove association}: exactly one outcome, an error, within one response timeout of virtual time from the failure point (immediately for link error / disable). Part Q: queue-full and no-connection submissions fail at once; queued requests all resolve."),
    note="Shutdown while a user future is pending is not reachable (the future holds a channel handle). File readers: exactly one terminal callback for every step x failure, `completed` stands when only the trailing CLOSE fails.",
 ),
 "C17": dict(
    engine="vh",
    design_ref="5.17",
    technique="runtime monitor over the master's request log in virtual time: scripted outstation (IIN1.7/IIN1.4 injection, silent attempts, unsolicited injection, reconnects), ordering / gating / exact back-off oracles",
    text=("Randomized exploration of association configurations against a scripted outstation. M1: first DISABLE_UNSOLICITED precedes the first integrity poll precedes time sync precedes ENABLE_UNSOLICITED precedes periodic polls and keep-alives, per connection. "
          "M2: after a reply carrying IIN1.7 the next request is the WRITE that clears it and integrity / enable are repeated before polls resume. M3: a data-bearing unsolicited response that arrives before the integrity poll has completed (also after a restart indication) is neither confirmed nor delivered to the read handler; empty ones are confirmed; after integrity they are delivered and confirmed. "
          "M4: the k-th retry of an automatic task that times out is sent exactly response_timeout + min(retry_min * 2^(k-1), retry_max) after the previous attempt, and the delay returns to the minimum after a success."),
    note="Back-off is observed for time-outs of one automatic task per scenario; IIN2-rejected tasks are not retried (checked only as absence of M1 violations).",
 ),
 "C19": dict(
    engine="vh",
    design_ref="5.19",
    technique="runtime monitor: reference schedule model (eligibility instants of user requests, polls, keep-alives; least-recently-served ring) evaluated at every request the master writes in virtual time, plus scheduler-pass counter from hook H5",
    text=("Exploration over 1-3 associations on one channel with polls, keep-alives, user requests submitted singly or in bursts at arbitrary virtual instants, poll demands, prompt/late/missing replies and unrelated traffic. At each request written: Q1 user requests are FIFO per association and precede every poll and keep-alive; Q2 a poll is never sent before its previous completion (reply or time-out) plus its period unless demanded; "
          "Q3 among associations with work of the same class the least recently served goes first; Q4 a link status request is sent only after keep-alive silence from that outstation and not while one of its polls is due; Q5 never two requests outstanding; Q6 the write instant equals max(channel became free, earliest eligibility of anything pending) exactly - no starvation, no early wake-up - and the number of scheduler passes is bounded by the number of events."),
    note="Automatic start-up tasks are disabled here (C17 covers them). Channel disable/enable toggles are driven (Q7: nothing is written while disabled; the schedule model holds again on the new connection).",
 ),
 "C18": dict(
    engine="vh",
    design_ref="5.18",
    technique="runtime monitor over a paired simulation (real master task + real outstation task + harness relay with scripted per-direction delays under a virtual clock); arithmetic oracle on the value passed to write_absolute_time; scripted-peer fault scripts for the failure clauses",
    text=("Part A: for generated (procedure, forward delay, backward delay, processing delay, master clock, noise) the real master synchronises the real outstation through a delaying relay; when synchronize_time returns Ok there is exactly one write_absolute_time call and |master clock at that instant - value| <= f (LAN) or <= |f-b| (non-LAN, 0 when equal); it must return Err when the master has no time, the reported processing delay exceeds the round trip, NEED_TIME stays set, the application rejects the write or the value would exceed 48 bits. "
          "Part B: a scripted outstation attacks each step (excess delay, five kinds of unexpected objects, NEED_TIME, IIN2 errors, overflow at the 48-bit limit): Err and no WRITE after a bad first step. Part C: the real outstation adds exactly the elapsed virtual time to g50v3, rejects g50v3 without a preceding RECORD_CURRENT_TIME or on 48-bit overflow, passes g50v1 unchanged and reports the application's processing delay."),
    note="Per-frame jitter is not modelled (the bounds in the property are stated for fixed one-way delays); a failed synchronisation that still changed the clock is outside the property.",
 ),
 "C10": dict(
    engine="vh",
    design_ref="5.10",
    technique="runtime monitor over a paired simulation (real outstation database and writers, real master parser/extraction/handler): differential oracle against a hand-written per-variation capability function, boundary-value workload",
    text=("For generated databases (all eight point types, every configurable static and event variation, indices including 0, 255/256 and 65535) and updates with boundary values, arbitrary flag octets and 48-bit times, the master fetches by class 0, by explicit variation, by event class or receives unsolicited responses. Every record handed to the ReadHandler must equal what its variation can carry of the value written: same index; exact state / counter (low 16 bits for 16-bit counters) / IEEE value; integers and singles saturated with OVER_RANGE set exactly when out of range (NaN into an integer variation must be flagged); "
          "flag octet preserved (value bits folded for binary types), ONLINE for flag-less variations, packed variations only for plainly ONLINE points; absolute times exact, relative times (g2v3/g4v3 with g51 common time) reconstructed exactly including the synchronisation state; no time where the variation has none; every forced event delivered once, in order per point."),
    note="Frozen analog inputs have no database representation in this library and are covered on the parser side by C09 only.",
 ),
 "C09": dict(
    engine="vh",
    design_ref="5.9",
    technique="differential runtime monitor: the library's parser / iterators / extraction against an independent reference walker and decoders, on wire captures of the real encoders (master requests, outstation responses) and on generated and mutated fragments",
    text=("A1/A2: every fragment captured from the real master and the real outstation in generated sessions must be accepted by the library's parser and agree with the reference walker: control bits, function, IIN, raw object span, number of headers, group/variation/qualifier, range or count, number of objects and their indices when iterated, and (responses) every measurement value/flags/time delivered by extraction equal to the reference decode; READ requests carry exactly the headers asked for. "
          "P and mutations: whenever the parser accepts a generated, truncated, extended or mutated fragment, the bytes present must be exactly what its headers imply according to the hand-written size table (a truncation or invalid range that is accepted is a violation) and iteration must yield the declared objects."),
    note="Only the direction 'accepted => exactly as implied' is judged on hostile input; where the library is stricter or more lenient than the reference on qualifier/object combinations this is counted, not flagged. Free-format (g70) inner structure is compared at header level only (plus the exact length of file descriptors); device attributes are checked end to end in part A3.",
 ),
 "C02": dict(
    engine="vh",
    design_ref="5.2",
    technique="runtime monitor over real executions: production TCP stack on loopback with a fault-injecting byte proxy, multi-threaded scheduling, ledger updated atomically with the database, offline checker for convergence / provenance / no-loss; thorough tier repeats the workload at higher volume",
    text=("Exploration of real executions through the public API: TCP master client <-> byte proxy (re-chunking, pauses, cuts at random offsets) <-> TCP outstation server, multi-threaded runtime, two updater threads and master commands. Oracles over the recorded history: (i) within 40 s after the stimulus stops the last record the handler received for every point equals the database's current value/flags/time, "
          "(ii) every record ever received equals some value that very point held (no fabrication, no cross-wiring between points or types, no resurrection of a value the point never had), (iii) every event that update2 did not report as discarded by overflow was delivered to the handler as an event at least once."),
    note="Real-time executions are not replayable bit for bit; the replay file carries the scenario parameters and the observed history. Sanitizer builds of this workload are described in DESIGN.md section 6.",
 ),
 "C20": dict(
    engine="vh-ffi",
    design_ref="5.20",
    technique="exhaustive enumeration of conversion variants with a name/injectivity/round-trip oracle plus differential runtime monitoring of the binding's database entry points against the native API, and recording extern \"C\" callbacks behind every generated interface struct to observe what the callback adapters, promise completions and builders deliver (harness compiled into dnp3-ffi by hook H4; private outstation configuration conversion reached through hook H7); the raw-pointer parts also under Miri",
    text=("Fault enumeration over the binding crate's conversions: all variants of 40+ binding enumerations and all 256 octet values of the native command status, function code and control code types are pushed through the conversion impls and compared by normalised name, injectivity and (where both directions exist) identity of the round trip; struct conversions are probed with a distinct sentinel in every field. "
          "Differential exploration: random operation sequences through database_add_* / remove / update_*_2 / update_flags / get_* (raw-pointer entry points) on one database and through Database::add / remove / update2 / update_flags / get on another must return the same results and leave databases with byte-identical wire images (all buffered events + class 0 + device attributes with their variation lists); octet strings and attribute definitions are among the operations. "
          "Callback adapters: the library's traits implemented on the generated C interface structs (ReadHandler with 13 iterator kinds, AssociationInformation, AssociationHandler, ControlHandler, OutstationApplication, OutstationInformation, eleven promise callbacks) are given recording callbacks; the native trait method is called and the callback chosen, every argument, every iterator item in order, the database pointer and every returned value are compared. "
          "Request / command-set / dead-band builder entry points are driven next to the native builders and the encoded headers compared; channel / association / outstation configuration structures are compared field by field and each out-of-range value must be refused."),
    note="Error conversions (TaskError into eight binding enums, CommandError, TimeSyncError, FileError, WriteError, AssociationError, PollError) are compared with a hand-written table of binding names; TLS / serial settings are not enumerated; the callbacks are Rust functions with the C ABI (no C compiler is involved), so the generated C headers themselves are outside the check.",
 ),
}
