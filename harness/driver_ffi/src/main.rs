fn main() {
    let args: Vec<String> = std::env::args().skip(1).collect();
    std::process::exit(dnp3_ffi::verif::run(args));
}
