//! A `tracing` subscriber that formats every event at every level into a sink,
//! so that decode-level dependent Display code is really executed (DESIGN 3.3).
//! Keeps a ring buffer of the most recent lines for replay files.

use std::collections::VecDeque;
use std::fmt::Write;
use std::sync::atomic::{AtomicBool, AtomicU64, Ordering};
use std::sync::Mutex;
use tracing::field::{Field, Visit};
use tracing::span;
use tracing::{Event, Metadata, Subscriber};

static EVENTS: AtomicU64 = AtomicU64::new(0);
static BYTES: AtomicU64 = AtomicU64::new(0);
static KEEP: AtomicBool = AtomicBool::new(true);
static RING: Mutex<VecDeque<String>> = Mutex::new(VecDeque::new());
const RING_MAX: usize = 120;

struct Sink {
    next: AtomicU64,
}

struct V<'a>(&'a mut String);

impl Visit for V<'_> {
    fn record_debug(&mut self, field: &Field, value: &dyn std::fmt::Debug) {
        if field.name() == "message" {
            let _ = write!(self.0, "{value:?} ");
        } else {
            let _ = write!(self.0, "{}={:?} ", field.name(), value);
        }
    }
}

impl Subscriber for Sink {
    fn enabled(&self, _: &Metadata<'_>) -> bool {
        true
    }
    fn new_span(&self, attrs: &span::Attributes<'_>) -> span::Id {
        let mut s = String::new();
        attrs.record(&mut V(&mut s));
        BYTES.fetch_add(s.len() as u64, Ordering::Relaxed);
        span::Id::from_u64(self.next.fetch_add(1, Ordering::Relaxed) + 1)
    }
    fn record(&self, _: &span::Id, values: &span::Record<'_>) {
        let mut s = String::new();
        values.record(&mut V(&mut s));
    }
    fn record_follows_from(&self, _: &span::Id, _: &span::Id) {}
    fn event(&self, event: &Event<'_>) {
        let mut s = String::new();
        let _ = write!(s, "{} ", event.metadata().level());
        event.record(&mut V(&mut s));
        EVENTS.fetch_add(1, Ordering::Relaxed);
        BYTES.fetch_add(s.len() as u64, Ordering::Relaxed);
        if KEEP.load(Ordering::Relaxed) {
            let mut g = RING.lock().unwrap_or_else(|e| e.into_inner());
            if g.len() >= RING_MAX {
                g.pop_front();
            }
            if s.len() > 400 {
                s.truncate(400);
            }
            g.push_back(s);
        }
    }
    fn enter(&self, _: &span::Id) {}
    fn exit(&self, _: &span::Id) {}
}

pub fn install() {
    let _ = tracing::subscriber::set_global_default(Sink {
        next: AtomicU64::new(0),
    });
}

pub fn events() -> u64 {
    EVENTS.load(Ordering::Relaxed)
}
pub fn bytes() -> u64 {
    BYTES.load(Ordering::Relaxed)
}
pub fn set_keep(k: bool) {
    KEEP.store(k, Ordering::Relaxed)
}
pub fn clear() {
    RING.lock().unwrap_or_else(|e| e.into_inner()).clear();
}
pub fn tail(n: usize) -> Vec<String> {
    let g = RING.lock().unwrap_or_else(|e| e.into_inner());
    g.iter().rev().take(n).rev().cloned().collect()
}
