//! reference application-layer codec (filled in below)
