//! Reference application layer: object table, header walker, measurement
//! decoders and request/response builders.  Written from IEEE 1815 (object
//! library and qualifier rules); shares no code with the library.

pub const FIR: u8 = 0x80;
pub const FIN: u8 = 0x40;
pub const CON: u8 = 0x20;
pub const UNS: u8 = 0x10;

// function codes
pub const F_CONFIRM: u8 = 0;
pub const F_READ: u8 = 1;
pub const F_WRITE: u8 = 2;
pub const F_SELECT: u8 = 3;
pub const F_OPERATE: u8 = 4;
pub const F_DIRECT_OPERATE: u8 = 5;
pub const F_DIRECT_OPERATE_NR: u8 = 6;
pub const F_IMMED_FREEZE: u8 = 7;
pub const F_IMMED_FREEZE_NR: u8 = 8;
pub const F_FREEZE_CLEAR: u8 = 9;
pub const F_FREEZE_CLEAR_NR: u8 = 10;
pub const F_FREEZE_AT_TIME: u8 = 11;
pub const F_FREEZE_AT_TIME_NR: u8 = 12;
pub const F_COLD_RESTART: u8 = 13;
pub const F_WARM_RESTART: u8 = 14;
pub const F_ENABLE_UNSOL: u8 = 20;
pub const F_DISABLE_UNSOL: u8 = 21;
pub const F_ASSIGN_CLASS: u8 = 22;
pub const F_DELAY_MEASURE: u8 = 23;
pub const F_RECORD_CURRENT_TIME: u8 = 24;
pub const F_RESPONSE: u8 = 129;
pub const F_UNSOL_RESPONSE: u8 = 130;

/// highest request function code defined by IEEE 1815-2012
pub const MAX_REQUEST_FUNCTION: u8 = 33;

// IIN1
pub const IIN1_BROADCAST: u8 = 0x01;
pub const IIN1_CLASS1: u8 = 0x02;
pub const IIN1_CLASS2: u8 = 0x04;
pub const IIN1_CLASS3: u8 = 0x08;
pub const IIN1_NEED_TIME: u8 = 0x10;
pub const IIN1_LOCAL_CONTROL: u8 = 0x20;
pub const IIN1_DEVICE_TROUBLE: u8 = 0x40;
pub const IIN1_RESTART: u8 = 0x80;
// IIN2
pub const IIN2_NO_FUNC: u8 = 0x01;
pub const IIN2_OBJECT_UNKNOWN: u8 = 0x02;
pub const IIN2_PARAM_ERROR: u8 = 0x04;
pub const IIN2_OVERFLOW: u8 = 0x08;
pub const IIN2_ALREADY_EXECUTING: u8 = 0x10;
pub const IIN2_CONFIG_CORRUPT: u8 = 0x20;
pub const IIN2_ERRORS: u8 = IIN2_NO_FUNC | IIN2_OBJECT_UNKNOWN | IIN2_PARAM_ERROR;

// qualifiers
pub const Q_RANGE8: u8 = 0x00;
pub const Q_RANGE16: u8 = 0x01;
pub const Q_ALL: u8 = 0x06;
pub const Q_COUNT8: u8 = 0x07;
pub const Q_COUNT16: u8 = 0x08;
pub const Q_PREFIX8: u8 = 0x17;
pub const Q_PREFIX16: u8 = 0x28;
pub const Q_FREE16: u8 = 0x5B;

#[derive(Clone, Copy, Debug, PartialEq, Eq)]
pub enum Kind {
    /// fixed size in bytes
    Fixed(usize),
    /// 1 bit per object, packed
    Bit,
    /// 2 bits per object, packed
    DBit,
    /// octet string, size = variation
    Octets,
    /// variation 0 / class objects: never carry data
    NoData,
    /// free-format (g70)
    Free,
    /// device attribute
    Attr,
}

/// the object library (IEEE 1815 Annex A) restricted to what DNP3 level-2/3 devices and this library use
pub fn kind(group: u8, var: u8) -> Option<Kind> {
    use Kind::*;
    let k = match (group, var) {
        (0, 0) => return None,
        (0, _) => Attr,
        (1, 0)
        | (2, 0)
        | (3, 0)
        | (4, 0)
        | (10, 0)
        | (11, 0)
        | (20, 0)
        | (21, 0)
        | (22, 0)
        | (23, 0) => NoData,
        (30, 0) | (31, 0) | (32, 0) | (33, 0) | (34, 0) | (40, 0) | (42, 0) | (102, 0) => NoData,
        (1, 1) => Bit,
        (1, 2) => Fixed(1),
        (2, 1) => Fixed(1),
        (2, 2) => Fixed(7),
        (2, 3) => Fixed(3),
        (3, 1) => DBit,
        (3, 2) => Fixed(1),
        (4, 1) => Fixed(1),
        (4, 2) => Fixed(7),
        (4, 3) => Fixed(3),
        (10, 1) => Bit,
        (10, 2) => Fixed(1),
        (11, 1) => Fixed(1),
        (11, 2) => Fixed(7),
        (12, 1) => Fixed(11),
        (13, 1) => Fixed(1),
        (13, 2) => Fixed(7),
        (20, 1) => Fixed(5),
        (20, 2) => Fixed(3),
        (20, 5) => Fixed(4),
        (20, 6) => Fixed(2),
        (21, 1) => Fixed(5),
        (21, 2) => Fixed(3),
        (21, 5) => Fixed(11),
        (21, 6) => Fixed(9),
        (21, 9) => Fixed(4),
        (21, 10) => Fixed(2),
        (22, 1) | (23, 1) => Fixed(5),
        (22, 2) | (23, 2) => Fixed(3),
        (22, 5) | (23, 5) => Fixed(11),
        (22, 6) | (23, 6) => Fixed(9),
        (30, 1) => Fixed(5),
        (30, 2) => Fixed(3),
        (30, 3) => Fixed(4),
        (30, 4) => Fixed(2),
        (30, 5) => Fixed(5),
        (30, 6) => Fixed(9),
        (31, 1) => Fixed(5),
        (31, 2) => Fixed(3),
        (31, 3) => Fixed(11),
        (31, 4) => Fixed(9),
        (31, 5) => Fixed(4),
        (31, 6) => Fixed(2),
        (31, 7) => Fixed(5),
        (31, 8) => Fixed(9),
        (32, 1) | (33, 1) | (42, 1) => Fixed(5),
        (32, 2) | (33, 2) | (42, 2) => Fixed(3),
        (32, 3) | (33, 3) | (42, 3) => Fixed(11),
        (32, 4) | (33, 4) | (42, 4) => Fixed(9),
        (32, 5) | (33, 5) | (42, 5) => Fixed(5),
        (32, 6) | (33, 6) | (42, 6) => Fixed(9),
        (32, 7) | (33, 7) | (42, 7) => Fixed(11),
        (32, 8) | (33, 8) | (42, 8) => Fixed(15),
        (34, 1) => Fixed(2),
        (34, 2) => Fixed(4),
        (34, 3) => Fixed(4),
        (40, 1) => Fixed(5),
        (40, 2) => Fixed(3),
        (40, 3) => Fixed(5),
        (40, 4) => Fixed(9),
        (41, 1) => Fixed(5),
        (41, 2) => Fixed(3),
        (41, 3) => Fixed(5),
        (41, 4) => Fixed(9),
        (43, 1) => Fixed(5),
        (43, 2) => Fixed(3),
        (43, 3) => Fixed(11),
        (43, 4) => Fixed(9),
        (43, 5) => Fixed(5),
        (43, 6) => Fixed(9),
        (43, 7) => Fixed(11),
        (43, 8) => Fixed(15),
        (50, 1) => Fixed(6),
        (50, 2) => Fixed(10),
        (50, 3) => Fixed(6),
        (50, 4) => Fixed(11),
        (51, 1) | (51, 2) => Fixed(6),
        (52, 1) | (52, 2) => Fixed(2),
        (60, 1..=4) => NoData,
        (70, 2..=8) => Free,
        (80, 1) => Bit,
        (102, 1) => Fixed(1),
        (110, _) | (111, _) => Octets,
        _ => return None,
    };
    Some(k)
}

/// all (group, variation) pairs of the table (octet strings with a few lengths)
pub fn all_variations() -> Vec<(u8, u8)> {
    let mut v = vec![];
    for g in 0..=255u8 {
        for var in 0..=255u8 {
            if kind(g, var).is_some() {
                if (g == 110 || g == 111 || g == 0)
                    && !matches!(var, 0 | 1 | 2 | 7 | 200 | 254 | 255)
                {
                    continue;
                }
                v.push((g, var));
            }
        }
    }
    v
}

#[derive(Clone, Debug, PartialEq)]
pub struct Obj {
    pub index: Option<u32>,
    /// raw object bytes (for Bit/DBit: one byte holding the value)
    pub bytes: Vec<u8>,
}

#[derive(Clone, Debug, PartialEq)]
pub struct Header {
    pub group: u8,
    pub var: u8,
    pub qual: u8,
    pub start: u32,
    pub stop: u32,
    /// number of objects the header declares
    pub count: u32,
    pub objs: Vec<Obj>,
    /// offset of this header in the object data and its total encoded length
    pub offset: usize,
    pub len: usize,
}

#[derive(Clone, Debug, PartialEq, Eq)]
pub enum WalkErr {
    Truncated,
    UnknownObject(u8, u8),
    UnknownQualifier(u8),
    InvalidRange,
    /// the qualifier cannot be used with this object / function
    BadQualifier(u8, u8, u8),
    ZeroLengthOctets,
    BadFreeFormat,
}

#[derive(Clone, Debug)]
pub struct Walk {
    pub headers: Vec<Header>,
    pub error: Option<WalkErr>,
    /// false when the walk met a combination on which the standard (as far as
    /// this table knows it) is silent; acceptance is then not compared
    pub defined: bool,
}

fn rd16(b: &[u8], p: usize) -> Option<u32> {
    if p + 2 <= b.len() {
        Some(u16::from_le_bytes([b[p], b[p + 1]]) as u32)
    } else {
        None
    }
}

/// groups whose objects are events (reported with an index prefix)
pub fn is_event_group(g: u8) -> bool {
    matches!(g, 2 | 4 | 11 | 13 | 22 | 23 | 32 | 33 | 42 | 43 | 111)
}
/// groups whose objects are static / addressed by range
pub fn is_static_group(g: u8) -> bool {
    matches!(g, 1 | 3 | 10 | 20 | 21 | 30 | 31 | 34 | 40 | 80 | 102 | 110)
}

/// Walk the object headers of a fragment with function code `function`.
pub fn walk(function: u8, data: &[u8], zero_len_octets_ok: bool) -> Walk {
    let mut w = Walk {
        headers: vec![],
        error: None,
        defined: true,
    };
    let is_read = function == F_READ;
    let mut p = 0usize;
    macro_rules! fail {
        ($e:expr) => {{
            w.error = Some($e);
            return w;
        }};
    }
    while p < data.len() {
        let offset = p;
        if p + 3 > data.len() {
            // a group/variation without the qualifier, or a lone byte
            if p + 2 <= data.len() && kind(data[p], data[p + 1]).is_none() {
                fail!(WalkErr::UnknownObject(data[p], data[p + 1]));
            }
            fail!(WalkErr::Truncated);
        }
        let (g, v, q) = (data[p], data[p + 1], data[p + 2]);
        p += 3;
        let k = match kind(g, v) {
            Some(k) => k,
            None => fail!(WalkErr::UnknownObject(g, v)),
        };
        if !matches!(
            q,
            Q_RANGE8 | Q_RANGE16 | Q_ALL | Q_COUNT8 | Q_COUNT16 | Q_PREFIX8 | Q_PREFIX16 | Q_FREE16
        ) {
            // other qualifier codes exist in the standard (0x02..0x05, 0x09, 0x27, 0x39 ...)
            // but no DNP3 subset level uses them; a parser may reject them
            fail!(WalkErr::UnknownQualifier(q));
        }
        let mut h = Header {
            group: g,
            var: v,
            qual: q,
            start: 0,
            stop: 0,
            count: 0,
            objs: vec![],
            offset,
            len: 0,
        };
        match q {
            Q_ALL => {
                // "all objects": requests only, never data
                if k == Kind::Free {
                    fail!(WalkErr::BadQualifier(g, v, q));
                }
                if !is_read
                    && !matches!(
                        function,
                        F_IMMED_FREEZE
                            ..=F_FREEZE_AT_TIME_NR
                                | F_ENABLE_UNSOL
                                | F_DISABLE_UNSOL
                                | F_ASSIGN_CLASS
                    )
                {
                    w.defined = false;
                }
            }
            Q_RANGE8 | Q_RANGE16 => {
                let (start, stop) = if q == Q_RANGE8 {
                    if p + 2 > data.len() {
                        fail!(WalkErr::Truncated);
                    }
                    let r = (data[p] as u32, data[p + 1] as u32);
                    p += 2;
                    r
                } else {
                    let a = rd16(data, p);
                    let b = rd16(data, p + 2);
                    match (a, b) {
                        (Some(a), Some(b)) => {
                            p += 4;
                            (a, b)
                        }
                        _ => fail!(WalkErr::Truncated),
                    }
                };
                h.start = start;
                h.stop = stop;
                if stop < start {
                    fail!(WalkErr::InvalidRange);
                }
                let count = stop - start + 1;
                h.count = count;
                if is_event_group(g) || matches!(g, 12 | 41 | 50 | 51 | 52 | 60 | 70) {
                    // ranges address static points; events/commands/times are not range addressed
                    if matches!(k, Kind::NoData) && g == 60 {
                        fail!(WalkErr::BadQualifier(g, v, q));
                    }
                    w.defined = false;
                }
                if is_read {
                    // READ requests carry no object data
                    if k == Kind::Free {
                        fail!(WalkErr::BadQualifier(g, v, q));
                    }
                } else {
                    match k {
                        Kind::NoData => {
                            // variation 0 cannot be encoded
                            w.defined = false;
                        }
                        Kind::Fixed(sz) => {
                            let need = sz * count as usize;
                            if p + need > data.len() {
                                fail!(WalkErr::Truncated);
                            }
                            for i in 0..count {
                                let s = p + sz * i as usize;
                                h.objs.push(Obj {
                                    index: Some(start + i),
                                    bytes: data[s..s + sz].to_vec(),
                                });
                            }
                            p += need;
                        }
                        Kind::Bit => {
                            let need = (count as usize + 7) / 8;
                            if p + need > data.len() {
                                fail!(WalkErr::Truncated);
                            }
                            for i in 0..count {
                                let b = data[p + (i / 8) as usize] >> (i % 8) & 1;
                                h.objs.push(Obj {
                                    index: Some(start + i),
                                    bytes: vec![b],
                                });
                            }
                            p += need;
                        }
                        Kind::DBit => {
                            let need = (count as usize + 3) / 4;
                            if p + need > data.len() {
                                fail!(WalkErr::Truncated);
                            }
                            for i in 0..count {
                                let b = data[p + (i / 4) as usize] >> (2 * (i % 4)) & 3;
                                h.objs.push(Obj {
                                    index: Some(start + i),
                                    bytes: vec![b],
                                });
                            }
                            p += need;
                        }
                        Kind::Octets => {
                            if v == 0 {
                                if !zero_len_octets_ok {
                                    fail!(WalkErr::ZeroLengthOctets);
                                }
                                for i in 0..count {
                                    h.objs.push(Obj {
                                        index: Some(start + i),
                                        bytes: vec![],
                                    });
                                }
                            } else {
                                let sz = v as usize;
                                let need = sz * count as usize;
                                if p + need > data.len() {
                                    fail!(WalkErr::Truncated);
                                }
                                for i in 0..count {
                                    let s = p + sz * i as usize;
                                    h.objs.push(Obj {
                                        index: Some(start + i),
                                        bytes: data[s..s + sz].to_vec(),
                                    });
                                }
                                p += need;
                            }
                        }
                        Kind::Attr => {
                            // attribute: data type code, length, value
                            w.defined = false;
                            if count != 1 {
                                fail!(WalkErr::BadQualifier(g, v, q));
                            }
                            if p + 2 > data.len() {
                                fail!(WalkErr::Truncated);
                            }
                            let len = data[p + 1] as usize;
                            if p + 2 + len > data.len() {
                                fail!(WalkErr::Truncated);
                            }
                            h.objs.push(Obj {
                                index: Some(start),
                                bytes: data[p..p + 2 + len].to_vec(),
                            });
                            p += 2 + len;
                        }
                        Kind::Free => fail!(WalkErr::BadQualifier(g, v, q)),
                    }
                }
            }
            Q_COUNT8 | Q_COUNT16 => {
                let count = if q == Q_COUNT8 {
                    if p + 1 > data.len() {
                        fail!(WalkErr::Truncated);
                    }
                    p += 1;
                    data[p - 1] as u32
                } else {
                    match rd16(data, p) {
                        Some(c) => {
                            p += 2;
                            c
                        }
                        None => fail!(WalkErr::Truncated),
                    }
                };
                h.count = count;
                match (g, k) {
                    // time objects are carried with a plain count
                    (50 | 51 | 52, Kind::Fixed(sz)) => {
                        if is_read {
                            // reading the time: whether object bytes follow is device specific
                            w.defined = false;
                        }
                        let need = sz * count as usize;
                        if p + need > data.len() {
                            fail!(WalkErr::Truncated);
                        }
                        for i in 0..count {
                            let s = p + sz * i as usize;
                            h.objs.push(Obj {
                                index: None,
                                bytes: data[s..s + sz].to_vec(),
                            });
                        }
                        p += need;
                    }
                    _ => {
                        // limited-count reads of events / classes: no data
                        if !(is_event_group(g) || g == 60) {
                            if is_static_group(g) || matches!(g, 0 | 12 | 41 | 70) {
                                fail!(WalkErr::BadQualifier(g, v, q));
                            }
                            w.defined = false;
                        }
                        if g == 60 && v == 1 {
                            fail!(WalkErr::BadQualifier(g, v, q));
                        }
                        if !is_read {
                            w.defined = false;
                        }
                    }
                }
            }
            Q_PREFIX8 | Q_PREFIX16 => {
                let isz = if q == Q_PREFIX8 { 1 } else { 2 };
                let count = if q == Q_PREFIX8 {
                    if p + 1 > data.len() {
                        fail!(WalkErr::Truncated);
                    }
                    p += 1;
                    data[p - 1] as u32
                } else {
                    match rd16(data, p) {
                        Some(c) => {
                            p += 2;
                            c
                        }
                        None => fail!(WalkErr::Truncated),
                    }
                };
                h.count = count;
                if is_read {
                    // index lists in reads are not used by this library
                    w.defined = false;
                }
                let sz = match k {
                    Kind::Fixed(sz) => sz,
                    Kind::Octets => {
                        if v == 0 && !zero_len_octets_ok {
                            fail!(WalkErr::ZeroLengthOctets);
                        }
                        v as usize
                    }
                    Kind::Bit | Kind::DBit | Kind::NoData | Kind::Free | Kind::Attr => {
                        fail!(WalkErr::BadQualifier(g, v, q))
                    }
                };
                if !(is_event_group(g) || matches!(g, 12 | 34 | 41 | 50)) {
                    // static objects are range addressed; an index prefix is unusual
                    w.defined = false;
                }
                let need = (isz + sz) * count as usize;
                if p + need > data.len() {
                    fail!(WalkErr::Truncated);
                }
                for i in 0..count as usize {
                    let s = p + (isz + sz) * i;
                    let idx = if isz == 1 {
                        data[s] as u32
                    } else {
                        u16::from_le_bytes([data[s], data[s + 1]]) as u32
                    };
                    h.objs.push(Obj {
                        index: Some(idx),
                        bytes: data[s + isz..s + isz + sz].to_vec(),
                    });
                }
                p += need;
            }
            Q_FREE16 => {
                if k != Kind::Free {
                    fail!(WalkErr::BadQualifier(g, v, q));
                }
                if p + 1 > data.len() {
                    fail!(WalkErr::Truncated);
                }
                let count = data[p] as u32;
                p += 1;
                h.count = count;
                if count != 1 {
                    // the standard allows several; implementations commonly require exactly one
                    w.defined = false;
                    fail!(WalkErr::BadFreeFormat);
                }
                let len = match rd16(data, p) {
                    Some(l) => l as usize,
                    None => fail!(WalkErr::Truncated),
                };
                p += 2;
                if p + len > data.len() {
                    fail!(WalkErr::Truncated);
                }
                h.objs.push(Obj {
                    index: None,
                    bytes: data[p..p + len].to_vec(),
                });
                // inner structure of file objects is validated by the object itself
                w.defined = false;
                p += len;
            }
            _ => unreachable!(),
        }
        h.len = p - offset;
        w.headers.push(h);
    }
    w
}

// ---------------------------------------------------------------------------
// fragments

#[derive(Clone, Debug, PartialEq)]
pub struct Fragment {
    pub ctrl: u8,
    pub func: u8,
    pub iin: Option<(u8, u8)>,
    pub objects: Vec<u8>,
}

impl Fragment {
    pub fn seq(&self) -> u8 {
        self.ctrl & 0x0F
    }
    pub fn fir(&self) -> bool {
        self.ctrl & FIR != 0
    }
    pub fn fin(&self) -> bool {
        self.ctrl & FIN != 0
    }
    pub fn con(&self) -> bool {
        self.ctrl & CON != 0
    }
    pub fn uns(&self) -> bool {
        self.ctrl & UNS != 0
    }
    pub fn is_response(&self) -> bool {
        self.func == F_RESPONSE || self.func == F_UNSOL_RESPONSE
    }
    pub fn parse(b: &[u8]) -> Option<Fragment> {
        if b.len() < 2 {
            return None;
        }
        let func = b[1];
        if func == F_RESPONSE || func == F_UNSOL_RESPONSE {
            if b.len() < 4 {
                return None;
            }
            Some(Fragment {
                ctrl: b[0],
                func,
                iin: Some((b[2], b[3])),
                objects: b[4..].to_vec(),
            })
        } else {
            Some(Fragment {
                ctrl: b[0],
                func,
                iin: None,
                objects: b[2..].to_vec(),
            })
        }
    }
    pub fn encode(&self) -> Vec<u8> {
        let mut v = vec![self.ctrl, self.func];
        if let Some((a, b)) = self.iin {
            v.push(a);
            v.push(b);
        }
        v.extend_from_slice(&self.objects);
        v
    }
}

/// builder for request / response fragments
#[derive(Clone, Debug)]
pub struct B {
    pub bytes: Vec<u8>,
}

impl B {
    pub fn request(func: u8, seq: u8) -> B {
        B {
            bytes: vec![FIR | FIN | (seq & 0x0F), func],
        }
    }
    pub fn with_ctrl(ctrl: u8, func: u8) -> B {
        B {
            bytes: vec![ctrl, func],
        }
    }
    pub fn confirm(seq: u8, uns: bool) -> B {
        B {
            bytes: vec![
                FIR | FIN | if uns { UNS } else { 0 } | (seq & 0x0F),
                F_CONFIRM,
            ],
        }
    }
    pub fn response(ctrl: u8, unsolicited: bool, iin1: u8, iin2: u8) -> B {
        B {
            bytes: vec![
                ctrl,
                if unsolicited {
                    F_UNSOL_RESPONSE
                } else {
                    F_RESPONSE
                },
                iin1,
                iin2,
            ],
        }
    }
    pub fn all(mut self, g: u8, v: u8) -> B {
        self.bytes.extend_from_slice(&[g, v, Q_ALL]);
        self
    }
    pub fn range8(mut self, g: u8, v: u8, start: u8, stop: u8, data: &[u8]) -> B {
        self.bytes.extend_from_slice(&[g, v, Q_RANGE8, start, stop]);
        self.bytes.extend_from_slice(data);
        self
    }
    pub fn range16(mut self, g: u8, v: u8, start: u16, stop: u16, data: &[u8]) -> B {
        self.bytes.extend_from_slice(&[g, v, Q_RANGE16]);
        self.bytes.extend_from_slice(&start.to_le_bytes());
        self.bytes.extend_from_slice(&stop.to_le_bytes());
        self.bytes.extend_from_slice(data);
        self
    }
    pub fn count8(mut self, g: u8, v: u8, n: u8, data: &[u8]) -> B {
        self.bytes.extend_from_slice(&[g, v, Q_COUNT8, n]);
        self.bytes.extend_from_slice(data);
        self
    }
    pub fn count16(mut self, g: u8, v: u8, n: u16, data: &[u8]) -> B {
        self.bytes.extend_from_slice(&[g, v, Q_COUNT16]);
        self.bytes.extend_from_slice(&n.to_le_bytes());
        self.bytes.extend_from_slice(data);
        self
    }
    /// items: (index, object bytes)
    pub fn prefixed8(mut self, g: u8, v: u8, items: &[(u8, Vec<u8>)]) -> B {
        self.bytes
            .extend_from_slice(&[g, v, Q_PREFIX8, items.len() as u8]);
        for (i, d) in items {
            self.bytes.push(*i);
            self.bytes.extend_from_slice(d);
        }
        self
    }
    pub fn prefixed16(mut self, g: u8, v: u8, items: &[(u16, Vec<u8>)]) -> B {
        self.bytes.extend_from_slice(&[g, v, Q_PREFIX16]);
        self.bytes
            .extend_from_slice(&(items.len() as u16).to_le_bytes());
        for (i, d) in items {
            self.bytes.extend_from_slice(&i.to_le_bytes());
            self.bytes.extend_from_slice(d);
        }
        self
    }
    pub fn raw(mut self, data: &[u8]) -> B {
        self.bytes.extend_from_slice(data);
        self
    }
    pub fn done(self) -> Vec<u8> {
        self.bytes
    }
}

/// CROB (g12v1): code, count, on, off, status
pub fn crob(code: u8, count: u8, on_ms: u32, off_ms: u32, status: u8) -> Vec<u8> {
    let mut v = vec![code, count];
    v.extend_from_slice(&on_ms.to_le_bytes());
    v.extend_from_slice(&off_ms.to_le_bytes());
    v.push(status);
    v
}
pub fn ao_i32(value: i32, status: u8) -> Vec<u8> {
    let mut v = value.to_le_bytes().to_vec();
    v.push(status);
    v
}
pub fn ao_i16(value: i16, status: u8) -> Vec<u8> {
    let mut v = value.to_le_bytes().to_vec();
    v.push(status);
    v
}
pub fn ao_f32(value: f32, status: u8) -> Vec<u8> {
    let mut v = value.to_le_bytes().to_vec();
    v.push(status);
    v
}
pub fn ao_f64(value: f64, status: u8) -> Vec<u8> {
    let mut v = value.to_le_bytes().to_vec();
    v.push(status);
    v
}
pub fn time48(ms: u64) -> Vec<u8> {
    ms.to_le_bytes()[..6].to_vec()
}
pub fn rd48(b: &[u8]) -> u64 {
    let mut x = [0u8; 8];
    x[..6].copy_from_slice(&b[..6]);
    u64::from_le_bytes(x)
}

// ---------------------------------------------------------------------------
// measurements

#[derive(Clone, Copy, Debug, PartialEq, Eq, PartialOrd, Ord, Hash)]
pub enum PType {
    Binary,
    DoubleBit,
    BinaryOutputStatus,
    Counter,
    FrozenCounter,
    Analog,
    FrozenAnalog,
    AnalogOutputStatus,
    OctetString,
    BinaryCommandEvent,
    AnalogCommandEvent,
    AnalogDeadBand,
    UnsignedInteger,
}

#[derive(Clone, Debug, PartialEq)]
pub enum Val {
    Bool(bool),
    DBit(u8),
    U32(u32),
    U16(u16),
    I32(i32),
    I16(i16),
    F32(f32),
    F64(f64),
    Bytes(Vec<u8>),
    U8(u8),
}

impl Val {
    pub fn as_f64(&self) -> f64 {
        match self {
            Val::Bool(b) => *b as u8 as f64,
            Val::DBit(x) | Val::U8(x) => *x as f64,
            Val::U32(x) => *x as f64,
            Val::U16(x) => *x as f64,
            Val::I32(x) => *x as f64,
            Val::I16(x) => *x as f64,
            Val::F32(x) => *x as f64,
            Val::F64(x) => *x,
            Val::Bytes(_) => f64::NAN,
        }
    }
}

#[derive(Clone, Debug, PartialEq)]
pub struct Meas {
    pub ptype: PType,
    pub is_event: bool,
    pub group: u8,
    pub var: u8,
    pub index: u32,
    pub val: Val,
    /// flag octet as on the wire (for binary types the value bits are masked out)
    pub flags: Option<u8>,
    /// absolute time (ms) if the variation carries one (relative times already resolved by the caller)
    pub time: Option<u64>,
    /// 16-bit relative time of g2v3/g4v3
    pub rel_time: Option<u16>,
    /// for command events: status code
    pub status: Option<u8>,
}

fn le16(b: &[u8]) -> u16 {
    u16::from_le_bytes([b[0], b[1]])
}
fn le32(b: &[u8]) -> u32 {
    u32::from_le_bytes([b[0], b[1], b[2], b[3]])
}
fn lef32(b: &[u8]) -> f32 {
    f32::from_le_bytes([b[0], b[1], b[2], b[3]])
}
fn lef64(b: &[u8]) -> f64 {
    let mut x = [0u8; 8];
    x.copy_from_slice(&b[..8]);
    f64::from_le_bytes(x)
}

/// Decode one measurement object. Returns None for objects that are not measurements.
pub fn decode_meas(g: u8, v: u8, index: u32, b: &[u8]) -> Option<Meas> {
    use PType::*;
    let mut m = Meas {
        ptype: Binary,
        is_event: is_event_group(g),
        group: g,
        var: v,
        index,
        val: Val::Bool(false),
        flags: None,
        time: None,
        rel_time: None,
        status: None,
    };
    match (g, v) {
        (1, 1) | (10, 1) => {
            m.ptype = if g == 1 { Binary } else { BinaryOutputStatus };
            m.val = Val::Bool(b[0] != 0);
        }
        (1, 2) | (10, 2) | (2, 1) | (11, 1) => {
            m.ptype = if g == 1 || g == 2 {
                Binary
            } else {
                BinaryOutputStatus
            };
            m.val = Val::Bool(b[0] & 0x80 != 0);
            m.flags = Some(b[0] & 0x7F);
        }
        (2, 2) | (11, 2) => {
            m.ptype = if g == 2 { Binary } else { BinaryOutputStatus };
            m.val = Val::Bool(b[0] & 0x80 != 0);
            m.flags = Some(b[0] & 0x7F);
            m.time = Some(rd48(&b[1..]));
        }
        (2, 3) => {
            m.ptype = Binary;
            m.val = Val::Bool(b[0] & 0x80 != 0);
            m.flags = Some(b[0] & 0x7F);
            m.rel_time = Some(le16(&b[1..]));
        }
        (3, 1) => {
            m.ptype = DoubleBit;
            m.val = Val::DBit(b[0] & 3);
        }
        (3, 2) | (4, 1) => {
            m.ptype = DoubleBit;
            m.val = Val::DBit(b[0] >> 6);
            m.flags = Some(b[0] & 0x3F);
        }
        (4, 2) => {
            m.ptype = DoubleBit;
            m.val = Val::DBit(b[0] >> 6);
            m.flags = Some(b[0] & 0x3F);
            m.time = Some(rd48(&b[1..]));
        }
        (4, 3) => {
            m.ptype = DoubleBit;
            m.val = Val::DBit(b[0] >> 6);
            m.flags = Some(b[0] & 0x3F);
            m.rel_time = Some(le16(&b[1..]));
        }
        (13, 1) | (13, 2) => {
            m.ptype = BinaryCommandEvent;
            m.val = Val::Bool(b[0] & 0x80 != 0);
            m.status = Some(b[0] & 0x7F);
            if v == 2 {
                m.time = Some(rd48(&b[1..]));
            }
        }
        (20, 1) | (21, 1) | (22, 1) | (23, 1) => {
            m.ptype = if g == 20 || g == 22 {
                Counter
            } else {
                FrozenCounter
            };
            m.flags = Some(b[0]);
            m.val = Val::U32(le32(&b[1..]));
        }
        (20, 2) | (21, 2) | (22, 2) | (23, 2) => {
            m.ptype = if g == 20 || g == 22 {
                Counter
            } else {
                FrozenCounter
            };
            m.flags = Some(b[0]);
            m.val = Val::U16(le16(&b[1..]));
        }
        (20, 5) | (21, 9) => {
            m.ptype = if g == 20 { Counter } else { FrozenCounter };
            m.val = Val::U32(le32(b));
        }
        (20, 6) | (21, 10) => {
            m.ptype = if g == 20 { Counter } else { FrozenCounter };
            m.val = Val::U16(le16(b));
        }
        (21, 5) | (22, 5) | (23, 5) => {
            m.ptype = if g == 22 { Counter } else { FrozenCounter };
            m.flags = Some(b[0]);
            m.val = Val::U32(le32(&b[1..]));
            m.time = Some(rd48(&b[5..]));
        }
        (21, 6) | (22, 6) | (23, 6) => {
            m.ptype = if g == 22 { Counter } else { FrozenCounter };
            m.flags = Some(b[0]);
            m.val = Val::U16(le16(&b[1..]));
            m.time = Some(rd48(&b[3..]));
        }
        (30, 1) | (31, 1) | (32, 1) | (33, 1) | (40, 1) | (42, 1) => {
            m.flags = Some(b[0]);
            m.val = Val::I32(le32(&b[1..]) as i32);
        }
        (30, 2) | (31, 2) | (32, 2) | (33, 2) | (40, 2) | (42, 2) => {
            m.flags = Some(b[0]);
            m.val = Val::I16(le16(&b[1..]) as i16);
        }
        (30, 3) | (31, 5) => m.val = Val::I32(le32(b) as i32),
        (30, 4) | (31, 6) => m.val = Val::I16(le16(b) as i16),
        (30, 5) | (31, 7) | (32, 5) | (33, 5) | (40, 3) | (42, 5) => {
            m.flags = Some(b[0]);
            m.val = Val::F32(lef32(&b[1..]));
        }
        (30, 6) | (31, 8) | (32, 6) | (33, 6) | (40, 4) | (42, 6) => {
            m.flags = Some(b[0]);
            m.val = Val::F64(lef64(&b[1..]));
        }
        (31, 3) | (32, 3) | (33, 3) | (42, 3) => {
            m.flags = Some(b[0]);
            m.val = Val::I32(le32(&b[1..]) as i32);
            m.time = Some(rd48(&b[5..]));
        }
        (31, 4) | (32, 4) | (33, 4) | (42, 4) => {
            m.flags = Some(b[0]);
            m.val = Val::I16(le16(&b[1..]) as i16);
            m.time = Some(rd48(&b[3..]));
        }
        (32, 7) | (33, 7) | (42, 7) => {
            m.flags = Some(b[0]);
            m.val = Val::F32(lef32(&b[1..]));
            m.time = Some(rd48(&b[5..]));
        }
        (32, 8) | (33, 8) | (42, 8) => {
            m.flags = Some(b[0]);
            m.val = Val::F64(lef64(&b[1..]));
            m.time = Some(rd48(&b[9..]));
        }
        (34, 1) => {
            m.ptype = AnalogDeadBand;
            m.val = Val::U16(le16(b));
        }
        (34, 2) => {
            m.ptype = AnalogDeadBand;
            m.val = Val::U32(le32(b));
        }
        (34, 3) => {
            m.ptype = AnalogDeadBand;
            m.val = Val::F32(lef32(b));
        }
        (43, 1) | (43, 3) => {
            m.ptype = AnalogCommandEvent;
            m.status = Some(b[0]);
            m.val = Val::I32(le32(&b[1..]) as i32);
            if v == 3 {
                m.time = Some(rd48(&b[5..]));
            }
        }
        (43, 2) | (43, 4) => {
            m.ptype = AnalogCommandEvent;
            m.status = Some(b[0]);
            m.val = Val::I16(le16(&b[1..]) as i16);
            if v == 4 {
                m.time = Some(rd48(&b[3..]));
            }
        }
        (43, 5) | (43, 7) => {
            m.ptype = AnalogCommandEvent;
            m.status = Some(b[0]);
            m.val = Val::F32(lef32(&b[1..]));
            if v == 7 {
                m.time = Some(rd48(&b[5..]));
            }
        }
        (43, 6) | (43, 8) => {
            m.ptype = AnalogCommandEvent;
            m.status = Some(b[0]);
            m.val = Val::F64(lef64(&b[1..]));
            if v == 8 {
                m.time = Some(rd48(&b[9..]));
            }
        }
        (102, 1) => {
            m.ptype = UnsignedInteger;
            m.val = Val::U8(b[0]);
        }
        (110, _) | (111, _) => {
            m.ptype = OctetString;
            m.val = Val::Bytes(b.to_vec());
        }
        _ => return None,
    }
    match g {
        30 | 32 => m.ptype = Analog,
        31 | 33 => m.ptype = FrozenAnalog,
        40 | 42 => m.ptype = AnalogOutputStatus,
        _ => {}
    }
    Some(m)
}

/// Decode every measurement of a response's object data, resolving g2v3/g4v3
/// relative times against the preceding g51 common time of occurrence.
/// Returns (measurements, common-time headers seen as (synchronized, time)).
pub fn decode_response_measurements(
    objects: &[u8],
) -> Result<(Vec<Meas>, Vec<(bool, u64)>), WalkErr> {
    let w = walk(F_RESPONSE, objects, true);
    if let Some(e) = w.error {
        return Err(e);
    }
    let mut out = vec![];
    let mut ctos = vec![];
    let mut cto: Option<(bool, u64)> = None;
    for h in &w.headers {
        if h.group == 51 {
            if let Some(o) = h.objs.first() {
                cto = Some((h.var == 1, rd48(&o.bytes)));
                ctos.push(cto.unwrap());
            }
            continue;
        }
        for o in &h.objs {
            if let Some(mut m) = decode_meas(h.group, h.var, o.index.unwrap_or(0), &o.bytes) {
                if let (Some(rel), Some((_, base))) = (m.rel_time, cto) {
                    m.time = Some(base + rel as u64);
                }
                out.push(m);
            }
        }
    }
    Ok((out, ctos))
}

pub fn self_test() -> Result<(), String> {
    // integrity poll
    let rq = B::request(F_READ, 1)
        .all(60, 2)
        .all(60, 3)
        .all(60, 4)
        .all(60, 1)
        .done();
    if rq
        != [
            0xC1, 0x01, 0x3C, 0x02, 0x06, 0x3C, 0x03, 0x06, 0x3C, 0x04, 0x06, 0x3C, 0x01, 0x06,
        ]
    {
        return Err("builder self test".into());
    }
    let w = walk(F_READ, &rq[2..], false);
    if w.error.is_some() || w.headers.len() != 4 || !w.defined {
        return Err(format!("walker self test: {w:?}"));
    }
    // response with g1v2 range 0..2 and g30v1 range 5..5
    let rs = B::response(FIR | FIN, false, 0, 0)
        .range8(1, 2, 0, 2, &[0x81, 0x01, 0x80])
        .range16(30, 1, 5, 5, &[0x01, 0x2A, 0, 0, 0])
        .done();
    let (m, _) = decode_response_measurements(&rs[4..]).map_err(|e| format!("{e:?}"))?;
    if m.len() != 4
        || m[0].val != Val::Bool(true)
        || m[1].val != Val::Bool(false)
        || m[3].val != Val::I32(42)
        || m[3].index != 5
    {
        return Err(format!("decoder self test {m:?}"));
    }
    // truncation
    let w = walk(F_RESPONSE, &rs[4..rs.len() - 1], false);
    if w.error != Some(WalkErr::Truncated) {
        return Err("truncation self test".into());
    }
    Ok(())
}
