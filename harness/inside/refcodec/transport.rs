//! Reference transport function: segmenter and reassembly model.

pub const FIN: u8 = 0x80;
pub const FIR: u8 = 0x40;

pub fn header(fin: bool, fir: bool, seq: u8) -> u8 {
    (if fin { FIN } else { 0 }) | (if fir { FIR } else { 0 }) | (seq & 0x3F)
}

/// Split a fragment into transport segments (each: header octet + <=249 bytes).
/// An empty fragment yields no segments.
pub fn segment(fragment: &[u8], first_seq: u8) -> Vec<Vec<u8>> {
    let n = (fragment.len() + 248) / 249;
    let mut out = Vec::with_capacity(n);
    for (i, chunk) in fragment.chunks(249).enumerate() {
        let mut s = Vec::with_capacity(chunk.len() + 1);
        s.push(header(
            i + 1 == n,
            i == 0,
            first_seq.wrapping_add(i as u8) & 0x3F,
        ));
        s.extend_from_slice(chunk);
        out.push(s);
    }
    out
}

/// identity of the sender of a segment as the receiver sees it
#[derive(Clone, Copy, Debug, PartialEq, Eq)]
pub struct Ident {
    pub source: u16,
    /// 0 = not broadcast, else the broadcast destination address
    pub broadcast: u16,
    /// physical source (emulated UDP port), 0 = none
    pub port: u16,
}

#[derive(Clone, Debug, PartialEq, Eq)]
pub struct Delivered {
    pub ident: Ident,
    pub data: Vec<u8>,
    /// indices (into the injected segment list) that make up this fragment
    pub parts: Vec<usize>,
}

/// Reference reassembler.  `max` is the receive buffer size.
/// Rules (from the property text): FIR restarts; a non-FIR segment with no
/// start is ignored; next segment must carry previous sequence + 1 and the same
/// identity; overflow discards the partial fragment; broadcast segments must be
/// FIR+FIN.
pub struct Reassembler {
    max: usize,
    cur: Option<(Ident, u8, Vec<u8>, Vec<usize>)>,
}

impl Reassembler {
    pub fn new(max: usize) -> Self {
        Reassembler { max, cur: None }
    }
    pub fn reset(&mut self) {
        self.cur = None;
    }
    pub fn in_progress(&self) -> bool {
        self.cur.is_some()
    }
    /// feed the payload of one data frame (`seg` includes the transport octet; must be non-empty)
    pub fn feed(&mut self, idx: usize, ident: Ident, seg: &[u8]) -> Option<Delivered> {
        let h = seg[0];
        let data = &seg[1..];
        let fir = h & FIR != 0;
        let fin = h & FIN != 0;
        let seq = h & 0x3F;
        if fir {
            self.cur = None;
        }
        if ident.broadcast != 0 {
            if fir && fin {
                if data.len() <= self.max {
                    return Some(Delivered {
                        ident,
                        data: data.to_vec(),
                        parts: vec![idx],
                    });
                }
                return None;
            }
            // ignored; does not disturb anything except that FIR cleared the state
            return None;
        }
        match self.cur.take() {
            None => {
                if !fir {
                    return None;
                }
                if data.len() > self.max {
                    return None;
                }
                if fin {
                    return Some(Delivered {
                        ident,
                        data: data.to_vec(),
                        parts: vec![idx],
                    });
                }
                self.cur = Some((ident, seq, data.to_vec(), vec![idx]));
                None
            }
            Some((pident, pseq, mut acc, mut parts)) => {
                // fir is false here (a FIR cleared cur above)
                if seq != ((pseq + 1) & 0x3F) || ident != pident {
                    return None; // state dropped
                }
                if acc.len() + data.len() > self.max {
                    return None; // overflow: dropped
                }
                acc.extend_from_slice(data);
                parts.push(idx);
                if fin {
                    return Some(Delivered {
                        ident,
                        data: acc,
                        parts,
                    });
                }
                self.cur = Some((ident, seq, acc, parts));
                None
            }
        }
    }
}
