//! Reference link layer: bit-serial CRC-16/DNP, framer, de-framer, scanner.

/// CRC-16/DNP: poly 0x3D65 (reflected 0xA6BC), init 0, final complement. Bit-serial.
pub fn crc16(data: &[u8]) -> u16 {
    let mut crc: u16 = 0;
    for &b in data {
        let mut cur = b;
        for _ in 0..8 {
            let bit = ((crc ^ cur as u16) & 1) != 0;
            crc >>= 1;
            if bit {
                crc ^= 0xA6BC;
            }
            cur >>= 1;
        }
    }
    !crc
}

#[derive(Clone, Debug, PartialEq, Eq)]
pub struct Frame {
    pub ctrl: u8,
    pub dest: u16,
    pub src: u16,
    /// user data (transport octet included), 0..=250 bytes
    pub payload: Vec<u8>,
}

pub const DIR: u8 = 0x80;
pub const PRM: u8 = 0x40;
pub const FCB: u8 = 0x20;
pub const FCV: u8 = 0x10;

pub const F_RESET_LINK: u8 = 0x40;
pub const F_TEST_LINK: u8 = 0x42;
pub const F_CONFIRMED_DATA: u8 = 0x43;
pub const F_UNCONFIRMED_DATA: u8 = 0x44;
pub const F_REQUEST_LINK_STATUS: u8 = 0x49;
pub const F_ACK: u8 = 0x00;
pub const F_NACK: u8 = 0x01;
pub const F_LINK_STATUS: u8 = 0x0B;
pub const F_NOT_SUPPORTED: u8 = 0x0F;

impl Frame {
    pub fn new(ctrl: u8, dest: u16, src: u16, payload: &[u8]) -> Frame {
        Frame {
            ctrl,
            dest,
            src,
            payload: payload.to_vec(),
        }
    }

    /// unconfirmed user data from a master (DIR=1) or an outstation (DIR=0)
    pub fn data(from_master: bool, dest: u16, src: u16, payload: &[u8]) -> Frame {
        let ctrl = F_UNCONFIRMED_DATA | if from_master { DIR } else { 0 };
        Frame::new(ctrl, dest, src, payload)
    }

    pub fn encode(&self) -> Vec<u8> {
        assert!(self.payload.len() <= 250);
        let mut out = Vec::with_capacity(292);
        out.push(0x05);
        out.push(0x64);
        out.push(5 + self.payload.len() as u8);
        out.push(self.ctrl);
        out.extend_from_slice(&self.dest.to_le_bytes());
        out.extend_from_slice(&self.src.to_le_bytes());
        let c = crc16(&out[0..8]);
        out.extend_from_slice(&c.to_le_bytes());
        for block in self.payload.chunks(16) {
            out.extend_from_slice(block);
            out.extend_from_slice(&crc16(block).to_le_bytes());
        }
        out
    }

    pub fn is_from_master(&self) -> bool {
        self.ctrl & DIR != 0
    }
    pub fn func(&self) -> u8 {
        self.ctrl & 0x4F
    }
}

/// total encoded size of a frame whose LENGTH octet is `len` (>=5)
pub fn encoded_len(len_octet: u8) -> usize {
    let user = len_octet as usize - 5;
    let full = user / 16;
    let rem = user % 16;
    10 + full * 18 + if rem > 0 { rem + 2 } else { 0 }
}

#[derive(Debug, PartialEq, Eq)]
pub enum At {
    /// a complete valid frame of this encoded size starts here
    Frame(Frame, usize),
    /// what is present is a proper prefix of something that may still become a valid frame
    Incomplete,
    /// no valid frame can start here
    Invalid(&'static str),
}

/// Examine `bytes` (from its first byte) as the start of a frame.
pub fn decode_at(bytes: &[u8]) -> At {
    if bytes.is_empty() {
        return At::Incomplete;
    }
    if bytes[0] != 0x05 {
        return At::Invalid("start1");
    }
    if bytes.len() < 2 {
        return At::Incomplete;
    }
    if bytes[1] != 0x64 {
        return At::Invalid("start2");
    }
    if bytes.len() < 10 {
        return At::Incomplete;
    }
    let len = bytes[2];
    if len < 5 {
        return At::Invalid("length");
    }
    let hc = u16::from_le_bytes([bytes[8], bytes[9]]);
    if crc16(&bytes[0..8]) != hc {
        return At::Invalid("header crc");
    }
    let total = encoded_len(len);
    if bytes.len() < total {
        return At::Incomplete;
    }
    let mut payload = Vec::with_capacity(len as usize - 5);
    let mut pos = 10;
    let mut left = len as usize - 5;
    while left > 0 {
        let n = left.min(16);
        let block = &bytes[pos..pos + n];
        let c = u16::from_le_bytes([bytes[pos + n], bytes[pos + n + 1]]);
        if crc16(block) != c {
            return At::Invalid("body crc");
        }
        payload.extend_from_slice(block);
        pos += n + 2;
        left -= n;
    }
    At::Frame(
        Frame {
            ctrl: bytes[3],
            dest: u16::from_le_bytes([bytes[4], bytes[5]]),
            src: u16::from_le_bytes([bytes[6], bytes[7]]),
            payload,
        },
        total,
    )
}

/// Result of scanning a whole stream
#[derive(Debug, Default, PartialEq, Eq)]
pub struct Scan {
    pub frames: Vec<(usize, Frame)>,
    /// position where scanning stopped (waiting for more bytes) or, in close mode, where the error is
    pub stop: usize,
    pub error: Option<&'static str>,
}

/// Discard-mode semantics: leftmost valid frame; on an invalid start skip one byte.
pub fn scan_discard(bytes: &[u8]) -> Scan {
    let mut s = Scan::default();
    let mut pos = 0;
    while pos < bytes.len() {
        match decode_at(&bytes[pos..]) {
            At::Frame(f, n) => {
                s.frames.push((pos, f));
                pos += n;
            }
            At::Incomplete => break,
            At::Invalid(_) => pos += 1,
        }
    }
    s.stop = pos;
    s
}

/// Close-mode semantics: frames back to back; the first invalid byte is an error.
pub fn scan_close(bytes: &[u8]) -> Scan {
    let mut s = Scan::default();
    let mut pos = 0;
    while pos < bytes.len() {
        match decode_at(&bytes[pos..]) {
            At::Frame(f, n) => {
                s.frames.push((pos, f));
                pos += n;
            }
            At::Incomplete => break,
            At::Invalid(why) => {
                s.error = Some(why);
                break;
            }
        }
    }
    s.stop = pos;
    s
}

/// self-test of the reference (framer <-> de-framer, known vectors from IEEE 1815)
pub fn self_test() -> Result<(), String> {
    // well known vector: reset link states DL(1024->1): 05 64 05 C0 01 00 00 04 E9 21
    let f = Frame::new(0xC0, 1, 1024, &[]);
    let e = f.encode();
    if e != [0x05, 0x64, 0x05, 0xC0, 0x01, 0x00, 0x00, 0x04, 0xE9, 0x21] {
        return Err(format!("crc/framer self test failed: {:02x?}", e));
    }
    for n in [0usize, 1, 15, 16, 17, 32, 33, 249, 250] {
        let p: Vec<u8> = (0..n).map(|i| (i * 7 + 3) as u8).collect();
        let f = Frame::new(0x44, 0x1234, 0xFFFC, &p);
        let e = f.encode();
        if e.len() != encoded_len(5 + n as u8) {
            return Err(format!("encoded_len mismatch at {n}"));
        }
        match decode_at(&e) {
            At::Frame(g, m) if g == f && m == e.len() => {}
            other => return Err(format!("round trip failed at {n}: {other:?}")),
        }
        if e.len() > 1 {
            if decode_at(&e[..e.len() - 1]) != At::Incomplete {
                return Err(format!("prefix not incomplete at {n}"));
            }
        }
    }
    Ok(())
}
