//! Reference codecs written from IEEE 1815 as restated in the property texts.
//! They share no code with the library (DESIGN 3.2).
pub mod app;
pub mod link;
pub mod transport;
