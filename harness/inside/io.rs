//! In-memory duplex used behind `PhysLayer::Verif` (hook H3).
//!
//! * to the endpoint: a queue of chunks; one `poll_read` returns at most one
//!   chunk, truncated to the caller's buffer (the remainder stays queued), so
//!   chunk boundaries are exactly what the scenario says;
//! * from the endpoint: every write is appended to a log with the virtual time.

use std::collections::VecDeque;
use std::pin::Pin;
use std::sync::atomic::{AtomicU64, Ordering};
use std::sync::{Arc, Mutex};
use std::task::{Context, Poll, Waker};
use tokio::io::{AsyncRead, AsyncWrite, ReadBuf};

/// What `PhysLayer::Verif` boxes.
pub trait VerifStream: AsyncRead + AsyncWrite + Unpin + Send {
    /// physical-layer source of the bytes returned by the most recent read
    /// (PhysAddr::None for stream transports, a socket address to emulate UDP)
    fn last_read_addr(&self) -> crate::util::phys::PhysAddr {
        crate::util::phys::PhysAddr::None
    }
}

impl VerifStream for PipeEnd {
    fn last_read_addr(&self) -> crate::util::phys::PhysAddr {
        let g = self.0.lock().unwrap_or_else(|e| e.into_inner());
        match g.last_addr {
            0 => crate::util::phys::PhysAddr::None,
            port => {
                crate::util::phys::PhysAddr::Udp(std::net::SocketAddr::from(([127, 0, 0, 1], port)))
            }
        }
    }
}

/// global activity counter (pipe reads/writes, mock callbacks, probes)
static ACTIVITY: AtomicU64 = AtomicU64::new(0);

pub fn bump() -> u64 {
    ACTIVITY.fetch_add(1, Ordering::Relaxed) + 1
}
pub fn activity() -> u64 {
    ACTIVITY.load(Ordering::Relaxed)
}

#[derive(Clone, Debug)]
pub enum Chunk {
    Data(Vec<u8>),
    /// data tagged with an emulated UDP source port
    DataFrom(Vec<u8>, u16),
    Eof,
    Err(std::io::ErrorKind),
}

#[derive(Clone, Debug)]
pub struct TxRecord {
    /// global order stamp (shared with mock callbacks)
    pub ord: u64,
    /// virtual milliseconds since the pipe's epoch
    pub t_ms: u64,
    pub bytes: Vec<u8>,
}

pub struct PipeState {
    rx: VecDeque<Chunk>,
    rx_waker: Option<Waker>,
    tx: Vec<TxRecord>,
    tx_taken: usize,
    tx_waker: Option<Waker>,
    write_fault: Option<std::io::ErrorKind>,
    epoch: Option<tokio::time::Instant>,
    pub reads: u64,
    pub read_bytes: u64,
    pub writes: u64,
    pub write_bytes: u64,
    read_blocked: bool,
    dropped: bool,
    last_addr: u16,
}

#[derive(Clone)]
pub struct Pipe(Arc<Mutex<PipeState>>);

/// the endpoint's side
pub struct PipeEnd(Arc<Mutex<PipeState>>);

impl Drop for PipeEnd {
    fn drop(&mut self) {
        let mut g = self.0.lock().unwrap_or_else(|e| e.into_inner());
        g.dropped = true;
        if let Some(w) = g.tx_waker.take() {
            w.wake();
        }
    }
}

pub fn pipe(epoch: Option<tokio::time::Instant>) -> (Pipe, PipeEnd) {
    let s = Arc::new(Mutex::new(PipeState {
        rx: VecDeque::new(),
        rx_waker: None,
        tx: Vec::new(),
        tx_taken: 0,
        tx_waker: None,
        write_fault: None,
        epoch,
        reads: 0,
        read_bytes: 0,
        writes: 0,
        write_bytes: 0,
        read_blocked: false,
        dropped: false,
        last_addr: 0,
    }));
    (Pipe(s.clone()), PipeEnd(s))
}

impl Pipe {
    fn lock(&self) -> std::sync::MutexGuard<'_, PipeState> {
        self.0.lock().unwrap_or_else(|e| e.into_inner())
    }

    fn push_chunk(&self, c: Chunk) {
        let mut g = self.lock();
        if let Chunk::Data(d) = &c {
            if d.is_empty() {
                return;
            }
        }
        g.rx.push_back(c);
        g.read_blocked = false;
        if let Some(w) = g.rx_waker.take() {
            w.wake();
        }
    }

    /// queue bytes as one chunk
    pub fn push(&self, bytes: &[u8]) {
        self.push_chunk(Chunk::Data(bytes.to_vec()));
    }

    /// queue one datagram from an emulated UDP source port (port != 0)
    pub fn push_from(&self, bytes: &[u8], port: u16) {
        if !bytes.is_empty() {
            self.push_chunk(Chunk::DataFrom(bytes.to_vec(), port));
        }
    }

    /// queue bytes split at the given chunk sizes (the rest in one chunk)
    pub fn push_split(&self, bytes: &[u8], sizes: &[usize]) {
        let mut pos = 0;
        for s in sizes {
            if pos >= bytes.len() {
                break;
            }
            let n = (*s).max(1).min(bytes.len() - pos);
            self.push(&bytes[pos..pos + n]);
            pos += n;
        }
        if pos < bytes.len() {
            self.push(&bytes[pos..]);
        }
    }

    pub fn push_eof(&self) {
        self.push_chunk(Chunk::Eof);
    }

    pub fn push_err(&self, kind: std::io::ErrorKind) {
        self.push_chunk(Chunk::Err(kind));
    }

    /// make the next write by the endpoint fail
    pub fn fail_next_write(&self, kind: std::io::ErrorKind) {
        self.lock().write_fault = Some(kind);
    }

    /// writes recorded since the last call
    pub fn take_tx(&self) -> Vec<TxRecord> {
        let mut g = self.lock();
        let start = g.tx_taken;
        g.tx_taken = g.tx.len();
        g.tx[start..].to_vec()
    }

    pub fn has_new_tx(&self) -> bool {
        let g = self.lock();
        g.tx.len() > g.tx_taken
    }

    pub fn all_tx(&self) -> Vec<TxRecord> {
        self.lock().tx.clone()
    }

    /// bytes queued and not yet read by the endpoint
    pub fn rx_pending(&self) -> usize {
        self.lock()
            .rx
            .iter()
            .map(|c| match c {
                Chunk::Data(d) => d.len(),
                Chunk::DataFrom(d, _) => d.len(),
                _ => 0,
            })
            .sum()
    }

    /// endpoint polled a read and found the queue empty
    pub fn read_blocked(&self) -> bool {
        self.lock().read_blocked
    }

    pub fn dropped(&self) -> bool {
        self.lock().dropped
    }

    pub fn stats(&self) -> (u64, u64, u64, u64) {
        let g = self.lock();
        (g.reads, g.read_bytes, g.writes, g.write_bytes)
    }

    /// future resolving when there is output not yet taken (or the end dropped)
    pub fn wait_output(&self) -> WaitOutput {
        WaitOutput(self.clone())
    }
}

pub struct WaitOutput(Pipe);

impl std::future::Future for WaitOutput {
    type Output = ();
    fn poll(self: Pin<&mut Self>, cx: &mut Context<'_>) -> Poll<()> {
        let mut g = self.0.lock();
        if g.tx.len() > g.tx_taken || g.dropped {
            Poll::Ready(())
        } else {
            g.tx_waker = Some(cx.waker().clone());
            Poll::Pending
        }
    }
}

impl AsyncRead for PipeEnd {
    fn poll_read(
        self: Pin<&mut Self>,
        cx: &mut Context<'_>,
        buf: &mut ReadBuf<'_>,
    ) -> Poll<std::io::Result<()>> {
        let mut g = self.0.lock().unwrap_or_else(|e| e.into_inner());
        match g.rx.pop_front() {
            None => {
                g.read_blocked = true;
                g.rx_waker = Some(cx.waker().clone());
                Poll::Pending
            }
            Some(Chunk::DataFrom(d, port)) => {
                // datagram semantics: truncated to the buffer, remainder lost
                let n = d.len().min(buf.remaining());
                buf.put_slice(&d[..n]);
                g.last_addr = port;
                g.reads += 1;
                g.read_bytes += n as u64;
                bump();
                Poll::Ready(Ok(()))
            }
            Some(Chunk::Data(mut d)) => {
                g.last_addr = 0;
                let n = d.len().min(buf.remaining());
                if n == 0 {
                    // zero-length destination: report "0 bytes read" as a real socket would
                    g.rx.push_front(Chunk::Data(d));
                    return Poll::Ready(Ok(()));
                }
                buf.put_slice(&d[..n]);
                if n < d.len() {
                    let rest = d.split_off(n);
                    g.rx.push_front(Chunk::Data(rest));
                }
                g.reads += 1;
                g.read_bytes += n as u64;
                bump();
                Poll::Ready(Ok(()))
            }
            Some(Chunk::Eof) => {
                // sticky
                g.rx.push_front(Chunk::Eof);
                bump();
                Poll::Ready(Ok(()))
            }
            Some(Chunk::Err(kind)) => {
                bump();
                Poll::Ready(Err(kind.into()))
            }
        }
    }
}

impl AsyncWrite for PipeEnd {
    fn poll_write(
        self: Pin<&mut Self>,
        _cx: &mut Context<'_>,
        data: &[u8],
    ) -> Poll<std::io::Result<usize>> {
        let mut g = self.0.lock().unwrap_or_else(|e| e.into_inner());
        let ord = bump();
        if let Some(kind) = g.write_fault.take() {
            return Poll::Ready(Err(kind.into()));
        }
        let t_ms = match g.epoch {
            Some(e) => tokio::time::Instant::now()
                .saturating_duration_since(e)
                .as_millis() as u64,
            None => 0,
        };
        g.tx.push(TxRecord {
            ord,
            t_ms,
            bytes: data.to_vec(),
        });
        g.writes += 1;
        g.write_bytes += data.len() as u64;
        if let Some(w) = g.tx_waker.take() {
            w.wake();
        }
        Poll::Ready(Ok(data.len()))
    }
    fn poll_flush(self: Pin<&mut Self>, _cx: &mut Context<'_>) -> Poll<std::io::Result<()>> {
        Poll::Ready(Ok(()))
    }
    fn poll_shutdown(self: Pin<&mut Self>, _cx: &mut Context<'_>) -> Poll<std::io::Result<()>> {
        Poll::Ready(Ok(()))
    }
}

/// convenience: boxed physical layer over a fresh pipe
pub fn phys_pipe(epoch: Option<tokio::time::Instant>) -> (Pipe, crate::util::phys::PhysLayer) {
    let (p, e) = pipe(epoch);
    (p, crate::util::phys::PhysLayer::Verif(Box::new(e)))
}
