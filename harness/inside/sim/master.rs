//! Master under test (filled in with the master checks)
