//! Master under test: real MasterTask (production transport/link) over the pipe.
//! The harness plays the outstation(s), the user and the clock.

use super::*;
use crate::app::control::*;
use crate::app::parse::options::ParseOptions;
use crate::app::variations::{Group12Var1, Group41Var1, Group41Var2, Group41Var3, Group41Var4};
use crate::app::{
    BufferSize, FunctionCode, Permissions, RetryStrategy, Sequence, Timeout, Timestamp,
    Variation,
};
use crate::link::reader::LinkModes;
use crate::link::{EndpointAddress, LinkErrorMode, LinkReadMode};
use crate::master::*;
use crate::util::phys::PhysLayer;
use crate::util::session::{Enabled, RunError, Session, StopReason};
use crate::verif::checks::common::decode_level;
use crate::verif::rec::Recorder;
use std::sync::{Arc, Mutex};
use std::time::Duration;

#[derive(Clone, Debug)]
pub struct AssocCfg {
    pub addr: u16,
    pub response_timeout_ms: u64,
    pub disable_unsol: [bool; 3],
    pub enable_unsol: [bool; 3],
    /// class0, 1, 2, 3
    pub startup_integrity: [bool; 4],
    pub auto_time_sync: Option<u8>, // 0 lan, 1 non-lan, 2 direct
    pub retry_min_ms: u64,
    pub retry_max_ms: u64,
    pub keep_alive_ms: Option<u64>,
    pub integrity_on_overflow: bool,
    pub event_scan: [bool; 3],
    pub max_queued: usize,
}

impl AssocCfg {
    pub fn quiet(addr: u16) -> Self {
        AssocCfg {
            addr,
            response_timeout_ms: 1000,
            disable_unsol: [false; 3],
            enable_unsol: [false; 3],
            startup_integrity: [false; 4],
            auto_time_sync: None,
            retry_min_ms: 1000,
            retry_max_ms: 10_000,
            keep_alive_ms: None,
            integrity_on_overflow: false,
            event_scan: [false; 3],
            max_queued: 16,
        }
    }
    pub fn default_like(addr: u16) -> Self {
        AssocCfg {
            disable_unsol: [true; 3],
            enable_unsol: [true; 3],
            startup_integrity: [true; 4],
            integrity_on_overflow: true,
            ..Self::quiet(addr)
        }
    }
    pub fn build(&self) -> AssociationConfig {
        let ec = |a: [bool; 3]| EventClasses::new(a[0], a[1], a[2]);
        let mut c = AssociationConfig::quiet();
        c.response_timeout = Timeout::from_millis(self.response_timeout_ms).unwrap();
        c.disable_unsol_classes = ec(self.disable_unsol);
        c.enable_unsol_classes = ec(self.enable_unsol);
        c.startup_integrity_classes = Classes {
            class0: self.startup_integrity[0],
            events: EventClasses::new(
                self.startup_integrity[1],
                self.startup_integrity[2],
                self.startup_integrity[3],
            ),
        };
        c.auto_time_sync = self.auto_time_sync.map(|x| match x {
            0 => TimeSyncProcedure::Lan,
            1 => TimeSyncProcedure::NonLan,
            _ => TimeSyncProcedure::DirectWriteAbsTime,
        });
        c.auto_tasks_retry_strategy = RetryStrategy::new(
            Duration::from_millis(self.retry_min_ms),
            Duration::from_millis(self.retry_max_ms),
        );
        c.keep_alive_timeout = self.keep_alive_ms.map(Duration::from_millis);
        c.auto_integrity_scan_on_buffer_overflow = self.integrity_on_overflow;
        c.event_scan_on_events_available = ec(self.event_scan);
        c.max_queued_user_requests = self.max_queued;
        c
    }
}

#[derive(Clone, Debug)]
pub struct MasterCfg {
    pub master_addr: u16,
    pub tx: usize,
    pub rx: usize,
    pub decode: usize,
    pub discard: bool,
}

impl Default for MasterCfg {
    fn default() -> Self {
        MasterCfg {
            master_addr: 1,
            tx: 2048,
            rx: 2048,
            decode: 0,
            discard: false,
        }
    }
}

/// association information / handler callbacks
#[derive(Clone, Debug, PartialEq)]
pub enum MEv {
    TaskStart(String, u8, u8),
    TaskSuccess(String, u8, u8),
    TaskFail(String, String),
    Unsolicited(bool, u8),
}

pub struct MShared {
    /// (order stamp, virtual ms, association address, event)
    pub log: Vec<(u64, u64, u16, MEv)>,
    pub taken: usize,
    pub clock: Clock,
    /// master wall clock: value returned by get_current_time = base + virtual elapsed (None = no time available)
    pub time_base: Option<u64>,
    /// completed user requests: (id, submitted ms, completed ms, order stamp, result text)
    pub results: Vec<(u64, u64, u64, u64, String)>,
}

#[derive(Clone)]
pub struct MMock {
    pub shared: Arc<Mutex<MShared>>,
    pub addr: u16,
}

impl MMock {
    fn push(&self, ev: MEv) {
        let mut g = self.shared.lock().unwrap_or_else(|e| e.into_inner());
        let t = g.clock.now_ms();
        let o = io::bump();
        g.log.push((o, t, self.addr, ev));
    }
}

impl AssociationInformation for MMock {
    fn task_start(&mut self, task_type: TaskType, fc: FunctionCode, seq: Sequence) {
        self.push(MEv::TaskStart(
            format!("{task_type:?}"),
            fc.as_u8(),
            seq.value(),
        ));
    }
    fn task_success(&mut self, task_type: TaskType, fc: FunctionCode, seq: Sequence) {
        self.push(MEv::TaskSuccess(
            format!("{task_type:?}"),
            fc.as_u8(),
            seq.value(),
        ));
    }
    fn task_fail(&mut self, task_type: TaskType, error: TaskError) {
        self.push(MEv::TaskFail(
            format!("{task_type:?}"),
            format!("{error:?}"),
        ));
    }
    fn unsolicited_response(&mut self, is_duplicate: bool, seq: Sequence) {
        self.push(MEv::Unsolicited(is_duplicate, seq.value()));
    }
}

impl AssociationHandler for MMock {
    fn get_current_time(&self) -> Option<Timestamp> {
        let g = self.shared.lock().unwrap_or_else(|e| e.into_inner());
        g.time_base.map(|b| Timestamp::new(b + g.clock.now_ms()))
    }
}

/// FileReader that turns its terminal callback into the request's outcome
pub struct RecFileReader {
    shared: Arc<Mutex<MShared>>,
    id: u64,
    t0: u64,
    blocks: u32,
    bytes: usize,
    opened: Option<u32>,
}

impl RecFileReader {
    fn finish(&mut self, text: String) {
        let mut g = self.shared.lock().unwrap_or_else(|e| e.into_inner());
        let t1 = g.clock.now_ms();
        let o = io::bump();
        g.results.push((self.id, self.t0, t1, o, text));
    }
}

impl FileReader for RecFileReader {
    fn opened(&mut self, size: u32) -> FileAction {
        self.opened = Some(size);
        FileAction::Continue
    }
    fn block_received(
        &mut self,
        block_num: u32,
        data: &[u8],
    ) -> crate::app::MaybeAsync<FileAction> {
        if block_num != self.blocks {
            self.finish(format!(
                "Err(block {block_num} delivered, {} expected)",
                self.blocks
            ));
        }
        self.blocks += 1;
        self.bytes += data.len();
        crate::app::MaybeAsync::ready(FileAction::Continue)
    }
    fn aborted(&mut self, err: FileError) {
        let t = format!("Err(aborted {err:?} after {} blocks)", self.blocks);
        self.finish(t);
    }
    fn completed(&mut self) {
        let t = format!(
            "Ok(completed: opened {:?}, {} blocks, {} bytes)",
            self.opened, self.blocks, self.bytes
        );
        self.finish(t);
    }
}

/// a user request the harness can submit
#[derive(Clone, Debug)]
pub enum UserReq {
    ReadClasses([bool; 4]),
    /// the same READ through `read_with_handler`: the response goes to a handler of its own (`MasterSim::custom`)
    ReadClassesCustom([bool; 4]),
    ReadRange16(u8, u8, u16, u16),
    /// select-before-operate?, control objects: (kind 0 crob|1..4 g41vN, index, 16-bit index?, value)
    Command(bool, Vec<(u8, u16, bool, u32)>),
    TimeSync(u8),
    ColdRestart,
    WarmRestart,
    WriteDeadBands(Vec<(u16, u16)>),
    LinkStatus,
    EmptyResponse(u8),
    /// dead-band write: variation (1 u16 | 2 u32 | 3 f32), 16-bit indices?, (index, value)
    WriteDeadBandsV(u8, bool, Vec<(u16, f64)>),
    /// read a remote file through a recording FileReader (the outcome is its terminal callback)
    ReadFile(u16),
    GetFileInfo,
    /// read a remote file after authenticating (one more protocol step in front)
    ReadFileAuth(u16),
    /// read a directory (file transfer whose blocks hold g70v7 descriptors); the outcome is the promise's
    ReadDirectory,
    FileAuth,
    FileOpen,
    /// write one block: (block number, last?, data length)
    FileWriteBlock(u32, bool, usize),
    FileClose,
    /// a file request with caller-chosen strings: kind 0 open, 1 get info, 2 authenticate, 3 read with credentials,
    /// 4 read directory; (kind, path, user name, password)
    FileNamed(u8, String, String, String),
    /// open a file with every field chosen by the caller: (path, permission bits 0..=8 = world x/w/r, group x/w/r,
    /// owner x/w/r, authentication key, file size, mode 1 read | 2 write | 3 append, maximum block size)
    FileOpenWith(String, u16, u32, u32, u16, u16),
    /// READ with several headers: (kind 0 all | 1 range8 | 2 range16 | 3 count8 | 4 count16, group, variation, a, b)
    ReadHeaders(Vec<(u8, u8, u8, u16, u16)>),
}

pub struct MasterSim {
    pub cfg: MasterCfg,
    pub clock: Clock,
    pub shared: Arc<Mutex<MShared>>,
    pub channel: MasterChannel,
    pub assocs: Vec<(u16, AssociationHandle, Recorder)>,
    pub pipe: Pipe,
    pub old_pipes: Vec<Pipe>,
    conns: tokio::sync::mpsc::Sender<PhysLayer>,
    pub join: tokio::task::JoinHandle<()>,
    decoder: WireDecoder,
    /// transport sequence per outstation address used for frames we send
    pub tseq: u8,
    pub epoch: u32,
    next_id: u64,
    pub run_errors: Arc<Mutex<Vec<String>>>,
    /// what the handlers passed to `read_with_handler` received (UserReq::ReadClassesCustom)
    pub custom: Recorder,
}

pub fn build_commands(objs: &[(u8, u16, bool, u32)]) -> CommandHeaders {
    let mut b = CommandBuilder::new();
    for (kind, index, wide, value) in objs {
        match kind {
            0 => {
                let c = Group12Var1::new(
                    ControlCode::from_op_type(if value % 2 == 0 {
                        OpType::LatchOn
                    } else {
                        OpType::LatchOff
                    }),
                    (*value % 3) as u8 + 1,
                    *value,
                    value / 2,
                );
                if *wide {
                    b.add_u16(c, *index)
                } else {
                    b.add_u8(c, *index as u8)
                }
            }
            1 => {
                let c = Group41Var1::new(*value as i32);
                if *wide {
                    b.add_u16(c, *index)
                } else {
                    b.add_u8(c, *index as u8)
                }
            }
            2 => {
                let c = Group41Var2::new(*value as i16);
                if *wide {
                    b.add_u16(c, *index)
                } else {
                    b.add_u8(c, *index as u8)
                }
            }
            3 => {
                let c = Group41Var3::new(*value as f32 / 4.0);
                if *wide {
                    b.add_u16(c, *index)
                } else {
                    b.add_u8(c, *index as u8)
                }
            }
            _ => {
                let c = Group41Var4::new(*value as f64 / 8.0);
                if *wide {
                    b.add_u16(c, *index)
                } else {
                    b.add_u8(c, *index as u8)
                }
            }
        }
    }
    b.build()
}

impl MasterSim {
    pub async fn start(cfg: MasterCfg, assocs: &[AssocCfg]) -> MasterSim {
        let clock = Clock::start();
        let shared = Arc::new(Mutex::new(MShared {
            log: vec![],
            taken: 0,
            clock,
            time_base: Some(1_600_000_000_000),
            results: vec![],
        }));
        let config = MasterChannelConfig {
            master_address: EndpointAddress::try_new(cfg.master_addr).unwrap(),
            decode_level: decode_level(cfg.decode),
            tx_buffer_size: BufferSize::new(cfg.tx).unwrap(),
            rx_buffer_size: BufferSize::new(cfg.rx.max(2048)).unwrap(),
        };
        let (tx, rx) = crate::util::channel::request_channel();
        let modes = LinkModes {
            error_mode: if cfg.discard {
                LinkErrorMode::Discard
            } else {
                LinkErrorMode::Close
            },
            read_mode: LinkReadMode::Stream,
        };
        let task = crate::master::task::MasterTask::new(
            Enabled::Yes,
            modes,
            ParseOptions {
                parse_zero_length_strings: false,
            },
            config,
            rx,
        );
        let mut channel = MasterChannel::new(tx, MasterChannelType::Stream);
        let (conn_tx, mut conn_rx) = tokio::sync::mpsc::channel::<PhysLayer>(4);
        let run_errors = Arc::new(Mutex::new(vec![]));
        let errs = run_errors.clone();
        let join = tokio::spawn(async move {
            let mut session = Session::master(task);
            loop {
                // wait for a connection while still serving user messages (as the TCP client task does)
                let phys = loop {
                    tokio::select! {
                        p = conn_rx.recv() => break p,
                        r = session.process_next_message() => {
                            if let Err(StopReason::Shutdown) = r {
                                break None;
                            }
                        }
                    }
                };
                let Some(mut phys) = phys else { break };
                if session.wait_for_enabled().await.is_err() {
                    break;
                }
                let err = session.run(&mut phys).await;
                errs.lock()
                    .unwrap_or_else(|e| e.into_inner())
                    .push(format!("{err:?}"));
                io::bump();
                if let RunError::Stop(StopReason::Shutdown) = err {
                    break;
                }
            }
        });
        let mut handles = vec![];
        for ac in assocs {
            let rec = Recorder::new();
            let mock = MMock {
                shared: shared.clone(),
                addr: ac.addr,
            };
            let h = channel
                .add_association(
                    EndpointAddress::try_new(ac.addr).unwrap(),
                    ac.build(),
                    Box::new(rec.clone()),
                    Box::new(mock.clone()),
                    Box::new(mock),
                )
                .await
                .expect("add_association");
            handles.push((ac.addr, h, rec));
        }
        let (pipe, phys) = io::phys_pipe(Some(clock.epoch));
        let _ = conn_tx.send(phys).await;
        settle().await;
        MasterSim {
            cfg,
            clock,
            shared,
            channel,
            assocs: handles,
            pipe,
            old_pipes: vec![],
            conns: conn_tx,
            join,
            decoder: WireDecoder::new(),
            tseq: 0,
            epoch: 0,
            next_id: 0,
            run_errors,
            custom: Recorder::new(),
        }
    }

    pub fn now(&self) -> u64 {
        self.clock.now_ms()
    }

    pub fn task_finished(&self) -> bool {
        self.join.is_finished()
    }

    pub async fn advance(&mut self, ms: u64) {
        advance(ms).await;
    }

    /// everything the master wrote since the last call
    pub fn collect(&mut self) -> Vec<Rx> {
        let mut out = vec![];
        for p in self.old_pipes.clone() {
            for t in p.take_tx() {
                out.push(Rx::Garbage {
                    ord: t.ord,
                    t_ms: t.t_ms,
                    why: "write on a connection that was replaced".into(),
                    bytes: t.bytes,
                });
            }
        }
        for t in self.pipe.take_tx() {
            self.decoder.feed(t.ord, t.t_ms, &t.bytes, &mut out);
        }
        out
    }

    /// send an application fragment from outstation `src` to the master
    pub fn send_from(&mut self, src: u16, fragment: &[u8]) {
        let mut tseq = self.tseq;
        let bytes = encode_fragment(false, self.cfg.master_addr, src, fragment, &mut tseq);
        self.tseq = tseq;
        self.pipe.push(&bytes);
    }

    /// one application fragment cut into two transport segments, the first sent by `src_first`, the last by `src_last`
    pub fn send_split_from(&mut self, src_first: u16, src_last: u16, fragment: &[u8]) {
        let cut = (fragment.len() / 2).max(1);
        let t0 = self.tseq & 0x3F;
        let t1 = (t0 + 1) & 0x3F;
        let mut s0 = vec![0x40 | t0];
        s0.extend_from_slice(&fragment[..cut]);
        let mut s1 = vec![0x80 | t1];
        s1.extend_from_slice(&fragment[cut..]);
        let mut bytes = rl::Frame::data(false, self.cfg.master_addr, src_first, &s0).encode();
        bytes.extend(rl::Frame::data(false, self.cfg.master_addr, src_last, &s1).encode());
        self.tseq = (t1 + 1) & 0x3F;
        self.pipe.push(&bytes);
    }

    pub fn send_bytes(&mut self, bytes: &[u8]) {
        self.pipe.push(bytes);
    }

    /// link-layer only frame from `src` (e.g. LINK_STATUS response)
    pub fn send_link(&mut self, src: u16, func: u8) {
        let f = rl::Frame::new(func, self.cfg.master_addr, src, &[]);
        self.pipe.push(&f.encode());
    }

    /// close the connection; the master task returns from run() and waits for the next one
    pub async fn reconnect(&mut self) {
        self.pipe.push_eof();
        settle().await;
        let (pipe, phys) = io::phys_pipe(Some(self.clock.epoch));
        let old = std::mem::replace(&mut self.pipe, pipe);
        self.old_pipes.push(old);
        self.decoder.reset();
        self.tseq = 0;
        self.epoch += 1;
        let _ = self.conns.send(phys).await;
        settle().await;
    }

    /// close without reconnecting
    pub async fn disconnect(&mut self) {
        self.pipe.push_eof();
        settle().await;
    }

    pub async fn connect(&mut self) {
        let (pipe, phys) = io::phys_pipe(Some(self.clock.epoch));
        let old = std::mem::replace(&mut self.pipe, pipe);
        self.old_pipes.push(old);
        self.decoder.reset();
        self.tseq = 0;
        self.epoch += 1;
        let _ = self.conns.send(phys).await;
        settle().await;
    }

    /// submit a user request on association `ai`; returns its id. The result is appended to `shared.results`.
    pub fn submit(&mut self, ai: usize, req: UserReq) -> u64 {
        let id = self.next_id;
        self.next_id += 1;
        let mut h = self.assocs[ai].1.clone();
        let shared = self.shared.clone();
        let t0 = self.now();
        let custom = self.custom.clone();
        tokio::spawn(async move {
            let text = match req {
                UserReq::ReadClassesCustom(c) => format!(
                    "{:?}",
                    h.read_with_handler(
                        ReadRequest::class_scan(Classes {
                            class0: c[0],
                            events: EventClasses::new(c[1], c[2], c[3])
                        }),
                        Box::new(custom)
                    )
                    .await
                ),
                UserReq::ReadClasses(c) => format!(
                    "{:?}",
                    h.read(ReadRequest::class_scan(Classes {
                        class0: c[0],
                        events: EventClasses::new(c[1], c[2], c[3])
                    }))
                    .await
                ),
                UserReq::ReadRange16(g, v, a, b) => match Variation::lookup(g, v) {
                    Some(var) => {
                        format!("{:?}", h.read(ReadRequest::two_byte_range(var, a, b)).await)
                    }
                    None => "Err(bad variation)".into(),
                },
                UserReq::Command(sbo, objs) => format!(
                    "{:?}",
                    h.operate(
                        if sbo {
                            CommandMode::SelectBeforeOperate
                        } else {
                            CommandMode::DirectOperate
                        },
                        build_commands(&objs)
                    )
                    .await
                ),
                UserReq::TimeSync(p) => format!(
                    "{:?}",
                    h.synchronize_time(match p {
                        0 => TimeSyncProcedure::Lan,
                        1 => TimeSyncProcedure::NonLan,
                        _ => TimeSyncProcedure::DirectWriteAbsTime,
                    })
                    .await
                ),
                UserReq::ColdRestart => format!("{:?}", h.cold_restart().await),
                UserReq::WarmRestart => format!("{:?}", h.warm_restart().await),
                UserReq::WriteDeadBands(v) => format!(
                    "{:?}",
                    h.write_dead_bands(vec![DeadBandHeader::group34_var1_u16(v)])
                        .await
                ),
                UserReq::LinkStatus => format!("{:?}", h.check_link_status().await),
                UserReq::WriteDeadBandsV(var, wide, items) => {
                    let hdr = match (var, wide) {
                        (1, false) => DeadBandHeader::group34_var1_u8(
                            items.iter().map(|(i, v)| (*i as u8, *v as u16)).collect(),
                        ),
                        (1, true) => DeadBandHeader::group34_var1_u16(
                            items.iter().map(|(i, v)| (*i, *v as u16)).collect(),
                        ),
                        (2, false) => DeadBandHeader::group34_var2_u8(
                            items.iter().map(|(i, v)| (*i as u8, *v as u32)).collect(),
                        ),
                        (2, true) => DeadBandHeader::group34_var2_u16(
                            items.iter().map(|(i, v)| (*i, *v as u32)).collect(),
                        ),
                        (_, false) => DeadBandHeader::group34_var3_u8(
                            items.iter().map(|(i, v)| (*i as u8, *v as f32)).collect(),
                        ),
                        (_, true) => DeadBandHeader::group34_var3_u16(
                            items.iter().map(|(i, v)| (*i, *v as f32)).collect(),
                        ),
                    };
                    format!("{:?}", h.write_dead_bands(vec![hdr]).await)
                }
                UserReq::ReadFile(max_block) => {
                    // the outcome is pushed by the reader's terminal callback; only a refused submission is reported here
                    let reader = RecFileReader {
                        shared: shared.clone(),
                        id,
                        t0,
                        blocks: 0,
                        bytes: 0,
                        opened: None,
                    };
                    let mut fcfg = FileReadConfig::default();
                    fcfg.max_block_size = max_block;
                    match h
                        .read_file("some/file.txt", fcfg, Box::new(reader), None)
                        .await
                    {
                        Ok(()) => return,
                        Err(e) => format!("Err(not queued: {e:?})"),
                    }
                }
                UserReq::GetFileInfo => format!("{:?}", h.get_file_info("some/file.txt").await),
                UserReq::ReadFileAuth(max_block) => {
                    let reader = RecFileReader {
                        shared: shared.clone(),
                        id,
                        t0,
                        blocks: 0,
                        bytes: 0,
                        opened: None,
                    };
                    let mut fcfg = FileReadConfig::default();
                    fcfg.max_block_size = max_block;
                    let cred = FileCredentials {
                        user_name: "user".into(),
                        password: "secret".into(),
                    };
                    match h
                        .read_file("some/file.txt", fcfg, Box::new(reader), Some(cred))
                        .await
                    {
                        Ok(()) => return,
                        Err(e) => format!("Err(not queued: {e:?})"),
                    }
                }
                UserReq::ReadDirectory => {
                    let cfg = DirReadConfig {
                        max_block_size: 64,
                        max_file_size: 4096,
                    };
                    format!("{:?}", h.read_directory("some/dir", cfg, None).await)
                }
                UserReq::FileAuth => {
                    let cred = FileCredentials {
                        user_name: "user".into(),
                        password: "secret".into(),
                    };
                    format!("{:?}", h.get_file_auth_key(cred).await)
                }
                UserReq::FileOpen => format!(
                    "{:?}",
                    h.open_file(
                        "some/file.txt",
                        AuthKey::new(7),
                        Permissions::default(),
                        100,
                        FileMode::Write,
                        64
                    )
                    .await
                ),
                UserReq::FileOpenWith(path, bits, key, size, mode, block) => {
                    let set = |x: u16| crate::app::PermissionSet {
                        execute: x & 1 != 0,
                        write: x & 2 != 0,
                        read: x & 4 != 0,
                    };
                    let perms = Permissions {
                        world: set(bits),
                        group: set(bits >> 3),
                        owner: set(bits >> 6),
                    };
                    let mode = match mode {
                        1 => FileMode::Read,
                        2 => FileMode::Write,
                        _ => FileMode::Append,
                    };
                    format!("{:?}", h.open_file(path, AuthKey::new(key), perms, size, mode, block).await)
                }
                UserReq::FileWriteBlock(n, last, len) => {
                    let mut b = BlockNumber::default();
                    for _ in 0..n {
                        let _ = b.increment();
                    }
                    if last {
                        b.set_last();
                    }
                    format!(
                        "{:?}",
                        h.write_file_block(FileHandle::new(0x0102_0304), b, vec![0x5A; len])
                            .await
                    )
                }
                UserReq::FileClose => format!("{:?}", h.close_file(FileHandle::new(0x0102_0304)).await),
                UserReq::FileNamed(kind, path, user, pass) => {
                    let cred = FileCredentials {
                        user_name: user,
                        password: pass,
                    };
                    match kind {
                        0 => format!(
                            "{:?}",
                            h.open_file(path, AuthKey::new(9), Permissions::default(), 0, FileMode::Read, 512)
                                .await
                        ),
                        1 => format!("{:?}", h.get_file_info(path).await),
                        2 => format!("{:?}", h.get_file_auth_key(cred).await),
                        3 => {
                            let reader = RecFileReader {
                                shared: shared.clone(),
                                id,
                                t0,
                                blocks: 0,
                                bytes: 0,
                                opened: None,
                            };
                            match h
                                .read_file(path, FileReadConfig::default(), Box::new(reader), Some(cred))
                                .await
                            {
                                Ok(()) => return,
                                Err(e) => format!("Err(not queued: {e:?})"),
                            }
                        }
                        _ => format!(
                            "{:?}",
                            h.read_directory(
                                path,
                                DirReadConfig {
                                    max_block_size: 256,
                                    max_file_size: 4096
                                },
                                None
                            )
                            .await
                        ),
                    }
                }
                UserReq::ReadHeaders(hs) => {
                    let mut v = vec![];
                    let mut bad = false;
                    for (k, g, var, a, b) in hs {
                        let Some(variation) = Variation::lookup(g, var) else {
                            bad = true;
                            break;
                        };
                        v.push(match k {
                            0 => ReadHeader::all_objects(variation),
                            1 => ReadHeader::one_byte_range(variation, a as u8, b as u8),
                            2 => ReadHeader::two_byte_range(variation, a, b),
                            3 => ReadHeader::one_byte_limited_count(variation, a as u8),
                            _ => ReadHeader::two_byte_limited_count(variation, a),
                        });
                    }
                    if bad {
                        "Err(bad variation)".into()
                    } else {
                        format!("{:?}", h.read(ReadRequest::multiple_headers(&v)).await)
                    }
                }
                UserReq::EmptyResponse(f) => match FunctionCode::from(f) {
                    Some(fc) => format!(
                        "{:?}",
                        h.send_and_expect_empty_response(fc, Headers::new()).await
                    ),
                    None => "Err(bad function)".into(),
                },
            };
            let mut g = shared.lock().unwrap_or_else(|e| e.into_inner());
            let t1 = g.clock.now_ms();
            let o = io::bump();
            g.results.push((id, t0, t1, o, text));
        });
        id
    }

    pub fn result_of(&self, id: u64) -> Option<(u64, u64, u64, String)> {
        let g = self.shared.lock().unwrap_or_else(|e| e.into_inner());
        g.results
            .iter()
            .find(|r| r.0 == id)
            .map(|r| (r.1, r.2, r.3, r.4.clone()))
    }

    pub fn results_count(&self, id: u64) -> usize {
        let g = self.shared.lock().unwrap_or_else(|e| e.into_inner());
        g.results.iter().filter(|r| r.0 == id).count()
    }

    /// callbacks since the last call: (order, ms, association, event)
    pub fn take_events(&self) -> Vec<(u64, u64, u16, MEv)> {
        let mut g = self.shared.lock().unwrap_or_else(|e| e.into_inner());
        let s = g.taken;
        g.taken = g.log.len();
        g.log[s..].to_vec()
    }

    pub fn all_events(&self) -> Vec<(u64, u64, u16, MEv)> {
        self.shared
            .lock()
            .unwrap_or_else(|e| e.into_inner())
            .log
            .clone()
    }

    pub fn set_time_base(&self, base: Option<u64>) {
        self.shared
            .lock()
            .unwrap_or_else(|e| e.into_inner())
            .time_base = base;
    }
}

/// requests (application fragments) in a list of received items
pub fn requests(rx: &[Rx]) -> Vec<(u64, u64, u16, Vec<u8>)> {
    rx.iter()
        .filter_map(|x| match x {
            Rx::Fragment {
                ord,
                t_ms,
                dest,
                bytes,
                ..
            } => Some((*ord, *t_ms, *dest, bytes.clone())),
            _ => None,
        })
        .collect()
}
