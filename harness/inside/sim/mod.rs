//! E1 session simulator: real endpoint tasks over the in-memory pipe under a
//! paused tokio clock.  The harness plays the peer, the user and the clock.

pub mod master;
pub mod outstation;
pub mod pair;

use crate::verif::io::{self, Pipe};
use crate::verif::refcodec::app as ra;
use crate::verif::refcodec::link as rl;
use crate::verif::refcodec::transport as rt;
use std::sync::atomic::{AtomicU64, Ordering};

/// run a scenario on a fresh current-thread runtime with a paused clock
pub fn run_scenario<F, T>(f: F) -> T
where
    F: std::future::Future<Output = T>,
{
    let rt = tokio::runtime::Builder::new_current_thread()
        .enable_time()
        .start_paused(true)
        .build()
        .expect("runtime");
    let r = rt.block_on(f);
    // dropping the runtime drops every spawned task (the endpoint)
    drop(rt);
    r
}

#[derive(Clone, Copy)]
pub struct Clock {
    pub epoch: tokio::time::Instant,
}

impl Clock {
    pub fn start() -> Clock {
        Clock {
            epoch: tokio::time::Instant::now(),
        }
    }
    pub fn now_ms(&self) -> u64 {
        tokio::time::Instant::now()
            .saturating_duration_since(self.epoch)
            .as_millis() as u64
    }
}

/// Yield to the scheduler until nothing happens any more (activity counter
/// stable for 3 consecutive rounds). Returns the number of rounds.
pub async fn settle() -> u32 {
    let mut stable = 0;
    let mut rounds = 0;
    let mut last = io::activity() + crate::verif::probe::ticks();
    while stable < 3 && rounds < SETTLE_CAP {
        tokio::task::yield_now().await;
        rounds += 1;
        let now = io::activity() + crate::verif::probe::ticks();
        if now == last {
            stable += 1;
        } else {
            stable = 0;
            last = now;
        }
    }
    if rounds >= SETTLE_CAP {
        // the endpoint never came to rest although virtual time stood still: it is spinning
        SETTLE_EXHAUSTED.fetch_add(1, Ordering::Relaxed);
        crate::verif::out::count("settle_exhausted", 1);
    }
    rounds
}

const SETTLE_CAP: u32 = 4000;
static SETTLE_EXHAUSTED: AtomicU64 = AtomicU64::new(0);

/// number of times `settle` gave up because the endpoint kept running without any stimulus
pub fn settle_exhausted() -> u64 {
    SETTLE_EXHAUSTED.load(Ordering::Relaxed)
}

/// advance virtual time by `ms` (timers of the endpoint fire in order at their exact instants)
pub async fn advance(ms: u64) {
    if ms > 0 {
        tokio::time::sleep(std::time::Duration::from_millis(ms)).await;
    }
    settle().await;
}

/// one thing the endpoint put on the wire
#[derive(Clone, Debug, PartialEq)]
pub enum Rx {
    /// a complete application fragment (reassembled from transport segments)
    Fragment {
        ord: u64,
        t_ms: u64,
        src: u16,
        dest: u16,
        bytes: Vec<u8>,
        segments: usize,
    },
    /// a link-layer only frame (ACK, LINK_STATUS, REQUEST_LINK_STATUS, ...)
    Link {
        ord: u64,
        t_ms: u64,
        frame: rl::Frame,
    },
    /// bytes that are not a well-formed frame / segment sequence
    Garbage {
        ord: u64,
        t_ms: u64,
        why: String,
        bytes: Vec<u8>,
    },
}

impl Rx {
    pub fn fragment(&self) -> Option<&[u8]> {
        match self {
            Rx::Fragment { bytes, .. } => Some(bytes),
            _ => None,
        }
    }
    pub fn ord(&self) -> u64 {
        match self {
            Rx::Fragment { ord, .. } | Rx::Link { ord, .. } | Rx::Garbage { ord, .. } => *ord,
        }
    }
    pub fn t_ms(&self) -> u64 {
        match self {
            Rx::Fragment { t_ms, .. } | Rx::Link { t_ms, .. } | Rx::Garbage { t_ms, .. } => *t_ms,
        }
    }
}

/// Decoder for everything the endpoint writes: reference de-framer + reassembler
/// with strict checks (every write must be whole frames; segments FIR..FIN in order).
pub struct WireDecoder {
    partial: Vec<u8>,
    partial_meta: Option<(u16, u16, u8, usize, u64, u64)>, // src, dest, next seq, segments, t_ms of first, ord of first
    pub expect_seq: Option<u8>,
    pub seq_violations: u64,
}

impl WireDecoder {
    pub fn new() -> Self {
        WireDecoder {
            partial: vec![],
            partial_meta: None,
            expect_seq: None,
            seq_violations: 0,
        }
    }
    pub fn reset(&mut self) {
        self.partial.clear();
        self.partial_meta = None;
        self.expect_seq = None;
    }
    pub fn feed(&mut self, ord: u64, t_ms: u64, bytes: &[u8], out: &mut Vec<Rx>) {
        let scan = rl::scan_close(bytes);
        for (_, f) in &scan.frames {
            let func = f.ctrl & 0x4F;
            if func == rl::F_UNCONFIRMED_DATA || func == rl::F_CONFIRMED_DATA {
                if f.payload.is_empty() {
                    out.push(Rx::Garbage {
                        ord,
                        t_ms,
                        why: "data frame without transport octet".into(),
                        bytes: f.encode(),
                    });
                    continue;
                }
                let h = f.payload[0];
                let (fir, fin, seq) = (h & rt::FIR != 0, h & rt::FIN != 0, h & 0x3F);
                if let Some(e) = self.expect_seq {
                    if e != seq {
                        self.seq_violations += 1;
                        out.push(Rx::Garbage {
                            ord,
                            t_ms,
                            why: format!("transport sequence {seq}, expected {e}"),
                            bytes: f.encode(),
                        });
                    }
                }
                self.expect_seq = Some((seq + 1) & 0x3F);
                if fir {
                    if self.partial_meta.is_some() {
                        out.push(Rx::Garbage {
                            ord,
                            t_ms,
                            why: "FIR while a fragment was in progress".into(),
                            bytes: f.encode(),
                        });
                    }
                    self.partial.clear();
                    self.partial_meta = Some((f.src, f.dest, seq, 0, t_ms, ord));
                } else if self.partial_meta.is_none() {
                    out.push(Rx::Garbage {
                        ord,
                        t_ms,
                        why: "non-FIR segment without a start".into(),
                        bytes: f.encode(),
                    });
                    continue;
                }
                let meta = self.partial_meta.as_mut().unwrap();
                if meta.0 != f.src || meta.1 != f.dest {
                    out.push(Rx::Garbage {
                        ord,
                        t_ms,
                        why: "segment addresses changed within a fragment".into(),
                        bytes: f.encode(),
                    });
                }
                if !fin && f.payload.len() != 250 {
                    out.push(Rx::Garbage {
                        ord,
                        t_ms,
                        why: format!("non-final segment with {} bytes", f.payload.len() - 1),
                        bytes: f.encode(),
                    });
                }
                meta.3 += 1;
                self.partial.extend_from_slice(&f.payload[1..]);
                if fin {
                    let (src, dest, _, segments, t0, ord0) = self.partial_meta.take().unwrap();
                    out.push(Rx::Fragment {
                        ord: ord0,
                        t_ms: t0,
                        src,
                        dest,
                        bytes: std::mem::take(&mut self.partial),
                        segments,
                    });
                }
            } else {
                out.push(Rx::Link {
                    ord,
                    t_ms,
                    frame: f.clone(),
                });
            }
        }
        if scan.error.is_some() || scan.stop != bytes.len() {
            out.push(Rx::Garbage {
                ord,
                t_ms,
                why: format!("write is not whole valid frames (error {:?})", scan.error),
                bytes: bytes[scan.stop..].to_vec(),
            });
        }
    }
}

/// Segment + frame an application fragment the way a correct peer would.
/// `from_master`: DIR bit of the sender.
pub fn encode_fragment(
    from_master: bool,
    dest: u16,
    src: u16,
    fragment: &[u8],
    tseq: &mut u8,
) -> Vec<u8> {
    let mut out = vec![];
    let segs = rt::segment(fragment, *tseq);
    for s in &segs {
        out.extend_from_slice(&rl::Frame::data(from_master, dest, src, s).encode());
    }
    *tseq = tseq.wrapping_add(segs.len() as u8) & 0x3F;
    out
}

pub fn hexs(b: &[u8]) -> String {
    crate::verif::util::hex(b)
}
