//! Paired simulation: the real master task and the real outstation task in one runtime,
//! joined by a relay that the harness controls (per-direction transmission delays, extra
//! hold of single frames, injected frames).  All times are virtual milliseconds.

use super::master::MasterSim;
use super::outstation::OutSim;
use super::*;

#[derive(Clone, Copy, Debug, PartialEq)]
pub enum Dir {
    ToOutstation,
    ToMaster,
}

#[derive(Clone, Debug)]
pub struct Flight {
    pub dir: Dir,
    pub sent_t: u64,
    pub deliver_at: u64,
    pub bytes: Vec<u8>,
    pub injected: bool,
}

pub struct Pair {
    pub m: MasterSim,
    pub o: OutSim,
    /// master -> outstation delay
    pub f: u64,
    /// outstation -> master delay
    pub b: u64,
    pub in_flight: Vec<Flight>,
    /// everything that was delivered, in delivery order
    pub delivered: Vec<Flight>,
    /// extra hold applied to the next outstation -> master frame (one-shot)
    pub hold_next_to_master: u64,
}

/// application function code of a single-frame FIR|FIN fragment (None for link-only frames)
pub fn app_function(frame: &[u8]) -> Option<u8> {
    if frame.len() >= 15 && frame[0] == 0x05 && frame[1] == 0x64 && frame[2] >= 8 {
        Some(frame[12])
    } else {
        None
    }
}

pub fn app_control(frame: &[u8]) -> Option<u8> {
    if frame.len() >= 15 && frame[0] == 0x05 && frame[1] == 0x64 && frame[2] >= 8 {
        Some(frame[11])
    } else {
        None
    }
}

impl Pair {
    pub fn new(m: MasterSim, o: OutSim, f: u64, b: u64) -> Pair {
        Pair {
            m,
            o,
            f,
            b,
            in_flight: vec![],
            delivered: vec![],
            hold_next_to_master: 0,
        }
    }

    pub fn now(&self) -> u64 {
        self.m.now()
    }

    /// pick up what both endpoints wrote and put it in flight
    pub fn pump(&mut self) -> usize {
        let mut n = 0;
        for rec in self.m.pipe.take_tx() {
            self.in_flight.push(Flight {
                dir: Dir::ToOutstation,
                sent_t: rec.t_ms,
                deliver_at: rec.t_ms + self.f,
                bytes: rec.bytes,
                injected: false,
            });
            n += 1;
        }
        for rec in self.o.pipe.take_tx() {
            let hold = std::mem::take(&mut self.hold_next_to_master);
            self.in_flight.push(Flight {
                dir: Dir::ToMaster,
                sent_t: rec.t_ms,
                deliver_at: rec.t_ms + self.b + hold,
                bytes: rec.bytes,
                injected: false,
            });
            n += 1;
        }
        n
    }

    pub fn inject(&mut self, dir: Dir, deliver_at: u64, bytes: Vec<u8>) {
        let now = self.now();
        self.in_flight.push(Flight {
            dir,
            sent_t: now,
            deliver_at: deliver_at.max(now),
            bytes,
            injected: true,
        });
    }

    /// deliver everything that is due now (in order of delivery time, then order of sending); returns what was delivered
    pub async fn deliver_due(&mut self) -> Vec<Flight> {
        let mut out = vec![];
        loop {
            let now = self.now();
            let mut best: Option<usize> = None;
            for (i, fl) in self.in_flight.iter().enumerate() {
                if fl.deliver_at <= now
                    && best
                        .map(|b| fl.deliver_at < self.in_flight[b].deliver_at)
                        .unwrap_or(true)
                {
                    best = Some(i);
                }
            }
            let Some(i) = best else { break };
            let fl = self.in_flight.remove(i);
            match fl.dir {
                Dir::ToOutstation => self.o.pipe.push(&fl.bytes),
                Dir::ToMaster => self.m.pipe.push(&fl.bytes),
            }
            settle().await;
            self.pump();
            self.delivered.push(fl.clone());
            out.push(fl);
        }
        out
    }

    /// virtual time of the next delivery
    pub fn next_delivery(&self) -> Option<u64> {
        self.in_flight.iter().map(|f| f.deliver_at).min()
    }

    /// run the relay until `done` returns true or `limit_ms` of virtual time have passed; `on_delivery` sees every delivered frame
    pub async fn run_until(
        &mut self,
        limit_ms: u64,
        mut done: impl FnMut(&mut Pair) -> bool,
        mut on_delivery: impl FnMut(&mut Pair, &Flight),
    ) -> bool {
        let stop = self.now() + limit_ms;
        loop {
            self.pump();
            let d = self.deliver_due().await;
            for fl in &d {
                on_delivery(self, fl);
            }
            if !d.is_empty() {
                continue;
            }
            if done(self) {
                return true;
            }
            let now = self.now();
            if now >= stop {
                return false;
            }
            let next = self
                .next_delivery()
                .unwrap_or(now + 50)
                .min(now + 50)
                .min(stop)
                .max(now + 1);
            advance(next - now).await;
        }
    }
}
