//! Outstation under test: real OutstationTask inside the real TCP ServerTask,
//! connected through PhysLayer::Verif pipes.

use super::*;
use crate::app::attr::Attribute;
use crate::app::control::CommandStatus;
use crate::app::parse::options::ParseOptions;
use crate::app::variations::{Group12Var1, Group41Var1, Group41Var2, Group41Var3, Group41Var4};
use crate::app::{
    BufferSize, FunctionCode, Listener, MaybeAsync, RequestHeader, Sequence, Timeout, Timestamp,
};
use crate::link::reader::LinkModes;
use crate::link::{EndpointAddress, LinkErrorMode, LinkReadMode};
use crate::outstation::database::*;
use crate::outstation::task::OutstationTask;
use crate::outstation::*;
use crate::tcp::server_task::{NewSession, ServerTask};
use crate::util::channel::Sender;
use crate::util::phys::{PhysAddr, PhysLayer};
use crate::util::session::{Enabled, Session};
use crate::verif::checks::common::decode_level;
use std::sync::{Arc, Mutex};

#[derive(Clone, Debug)]
pub struct OutCfg {
    pub out_addr: u16,
    pub master_addr: u16,
    pub sol_tx: usize,
    pub unsol_tx: usize,
    pub rx: usize,
    pub unsolicited: bool,
    pub broadcast: bool,
    pub self_address: bool,
    pub any_master: bool,
    pub confirm_timeout_ms: u64,
    pub select_timeout_ms: u64,
    pub max_unsol_retries: Option<usize>,
    pub unsol_retry_delay_ms: u64,
    pub keep_alive_ms: Option<u64>,
    pub max_read_headers: Option<u16>,
    pub max_controls: Option<u16>,
    /// binary, double, bos, counter, frozen counter, analog, aos, octet
    pub event_cfg: [u16; 8],
    pub class_zero_octets: bool,
    /// class 0 membership of the seven other types (binary, double, bos, counter, frozen counter, analog, aos); default all true
    pub class_zero: [bool; 7],
    pub decode: usize,
    pub discard: bool,
    pub zero_len_strings: bool,
}

impl Default for OutCfg {
    fn default() -> Self {
        OutCfg {
            out_addr: 1024,
            master_addr: 1,
            sol_tx: 2048,
            unsol_tx: 2048,
            rx: 2048,
            unsolicited: false,
            broadcast: true,
            self_address: false,
            any_master: false,
            confirm_timeout_ms: 5000,
            select_timeout_ms: 5000,
            max_unsol_retries: None,
            unsol_retry_delay_ms: 5000,
            keep_alive_ms: None,
            max_read_headers: None,
            max_controls: None,
            event_cfg: [100; 8],
            class_zero_octets: false,
            class_zero: [true; 7],
            decode: 0,
            discard: false,
            zero_len_strings: false,
        }
    }
}

impl OutCfg {
    pub fn to_json(&self) -> crate::verif::out::J {
        crate::verif::out::J::s(format!("{self:?}"))
    }
}

/// one callback observed
#[derive(Clone, Debug, PartialEq)]
pub enum Ev {
    BeginFragment,
    EndFragment,
    /// group, variation, index, object bytes (re-encoded)
    Select(u8, u8, u16, Vec<u8>),
    /// group, variation, index, object bytes, operate type (0 SBO, 1 DO, 2 DONR)
    Operate(u8, u8, u16, Vec<u8>, u8),
    Freeze(String),
    WriteAbsTime(u64),
    ColdRestart,
    WarmRestart,
    BeginWriteDeadBands,
    WriteDeadBand(u16, f64),
    EndWriteDeadBands,
    WriteDeviceAttr(String),
    BeginConfirm,
    Cleared(u64),
    EndConfirm(BufferState),
    ClearRestartIin,
    ProcessRequestFromIdle(u8),
    BroadcastReceived(String),
    EnterSolConfirmWait(u8),
    SolConfirmTimeout(u8),
    SolConfirmReceived(u8),
    SolConfirmWaitNewRequest,
    WrongSolConfirmSeq(u8, u8),
    UnexpectedConfirm(bool, u8),
    EnterUnsolConfirmWait(u8),
    UnsolConfirmTimeout(u8, bool),
    UnsolConfirmed(u8),
    Connected,
    Disconnected,
}

impl Ev {
    /// callbacks that are side effects of executing a request
    pub fn is_side_effect(&self) -> bool {
        matches!(
            self,
            Ev::Select(..)
                | Ev::Operate(..)
                | Ev::Freeze(_)
                | Ev::WriteAbsTime(_)
                | Ev::ColdRestart
                | Ev::WarmRestart
                | Ev::WriteDeadBand(..)
                | Ev::BeginWriteDeadBands
                | Ev::WriteDeviceAttr(_)
                | Ev::ClearRestartIin
                | Ev::BeginFragment
        )
    }
}

/// scripted behaviour of the mock application
#[derive(Clone, Debug)]
pub struct Script {
    pub control_status: CommandStatus,
    /// indices for which select/operate answer `alt_status`
    pub alt_indices: Vec<u16>,
    pub alt_status: CommandStatus,
    pub app_iin: ApplicationIin,
    pub processing_delay: u16,
    pub restart_delay: Option<RestartDelay>,
    pub write_time_result: Result<(), RequestError>,
    /// an application that honestly drops NEED_TIME once its clock was set
    pub clear_need_time_on_write: bool,
    pub freeze_result: Result<(), RequestError>,
    pub support_dead_bands: bool,
    pub attr_ok: bool,
    /// virtual ms `end_confirm` takes (a real suspension point of the session)
    pub end_confirm_delay_ms: u64,
    pub end_fragment_delay_ms: u64,
}

impl Default for Script {
    fn default() -> Self {
        Script {
            control_status: CommandStatus::Success,
            alt_indices: vec![],
            alt_status: CommandStatus::NotSupported,
            app_iin: ApplicationIin::default(),
            processing_delay: 0,
            restart_delay: None,
            write_time_result: Ok(()),
            clear_need_time_on_write: false,
            freeze_result: Ok(()),
            support_dead_bands: true,
            attr_ok: true,
            end_confirm_delay_ms: 0,
            end_fragment_delay_ms: 0,
        }
    }
}

pub struct MockShared {
    pub log: Vec<(u64, Ev)>,
    /// global order stamps parallel to `log`
    pub ords: Vec<u64>,
    pub taken: usize,
    pub script: Script,
    pub clock: Clock,
}

#[derive(Clone)]
pub struct Mock(pub Arc<Mutex<MockShared>>);

impl Mock {
    fn push(&self, ev: Ev) {
        let mut g = self.0.lock().unwrap_or_else(|e| e.into_inner());
        let t = g.clock.now_ms();
        g.log.push((t, ev));
        let o = io::bump();
        g.ords.push(o);
    }
    pub fn script<R>(&self, f: impl FnOnce(&mut Script) -> R) -> R {
        let mut g = self.0.lock().unwrap_or_else(|e| e.into_inner());
        f(&mut g.script)
    }
    /// events since the last call
    pub fn take(&self) -> Vec<(u64, Ev)> {
        let mut g = self.0.lock().unwrap_or_else(|e| e.into_inner());
        let s = g.taken;
        g.taken = g.log.len();
        g.log[s..].to_vec()
    }
    /// events since the last call with their global order stamps
    pub fn take_ordered(&self) -> Vec<(u64, u64, Ev)> {
        let mut g = self.0.lock().unwrap_or_else(|e| e.into_inner());
        let s = g.taken;
        g.taken = g.log.len();
        (s..g.log.len())
            .map(|i| (g.ords[i], g.log[i].0, g.log[i].1.clone()))
            .collect()
    }
    pub fn all(&self) -> Vec<(u64, Ev)> {
        self.0.lock().unwrap_or_else(|e| e.into_inner()).log.clone()
    }
    fn status_for(&self, index: u16) -> CommandStatus {
        let g = self.0.lock().unwrap_or_else(|e| e.into_inner());
        if g.script.alt_indices.contains(&index) {
            g.script.alt_status
        } else {
            g.script.control_status
        }
    }
}

fn sleep_async(ms: u64) -> MaybeAsync<()> {
    if ms == 0 {
        MaybeAsync::ready(())
    } else {
        MaybeAsync::asynchronous(async move {
            tokio::time::sleep(std::time::Duration::from_millis(ms)).await
        })
    }
}

impl OutstationApplication for Mock {
    fn get_processing_delay_ms(&self) -> u16 {
        self.script(|s| s.processing_delay)
    }
    fn write_absolute_time(&mut self, time: Timestamp) -> Result<(), RequestError> {
        self.push(Ev::WriteAbsTime(time.raw_value()));
        self.script(|s| {
            if s.clear_need_time_on_write && s.write_time_result.is_ok() {
                s.app_iin.need_time = false;
            }
            s.write_time_result
        })
    }
    fn get_application_iin(&self) -> ApplicationIin {
        self.script(|s| s.app_iin)
    }
    fn cold_restart(&mut self) -> Option<RestartDelay> {
        self.push(Ev::ColdRestart);
        self.script(|s| s.restart_delay)
    }
    fn warm_restart(&mut self) -> Option<RestartDelay> {
        self.push(Ev::WarmRestart);
        self.script(|s| s.restart_delay)
    }
    fn freeze_counter(
        &mut self,
        indices: FreezeIndices,
        freeze_type: FreezeType,
        _db: &mut DatabaseHandle,
    ) -> Result<(), RequestError> {
        self.push(Ev::Freeze(format!("{indices:?} {freeze_type:?}")));
        self.script(|s| s.freeze_result)
    }
    fn support_write_analog_dead_bands(&mut self) -> bool {
        self.script(|s| s.support_dead_bands)
    }
    fn begin_write_analog_dead_bands(&mut self) {
        self.push(Ev::BeginWriteDeadBands);
    }
    fn write_analog_dead_band(&mut self, index: u16, dead_band: f64) {
        self.push(Ev::WriteDeadBand(index, dead_band));
    }
    fn end_write_analog_dead_bands(&mut self) -> MaybeAsync<()> {
        self.push(Ev::EndWriteDeadBands);
        MaybeAsync::ready(())
    }
    fn write_device_attr(&mut self, attr: Attribute) -> MaybeAsync<bool> {
        self.push(Ev::WriteDeviceAttr(format!("{attr:?}")));
        MaybeAsync::ready(self.script(|s| s.attr_ok))
    }
    fn begin_confirm(&mut self) {
        self.push(Ev::BeginConfirm);
    }
    fn event_cleared(&mut self, id: u64) {
        self.push(Ev::Cleared(id));
    }
    fn end_confirm(&mut self, state: BufferState) -> MaybeAsync<()> {
        self.push(Ev::EndConfirm(state));
        sleep_async(self.script(|s| s.end_confirm_delay_ms))
    }
}

impl OutstationInformation for Mock {
    fn process_request_from_idle(&mut self, header: RequestHeader) {
        self.push(Ev::ProcessRequestFromIdle(header.function.as_u8()));
    }
    fn broadcast_received(&mut self, function: FunctionCode, action: BroadcastAction) {
        self.push(Ev::BroadcastReceived(format!("{function:?} {action:?}")));
    }
    fn enter_solicited_confirm_wait(&mut self, ecsn: Sequence) {
        self.push(Ev::EnterSolConfirmWait(ecsn.value()));
    }
    fn solicited_confirm_timeout(&mut self, ecsn: Sequence) {
        self.push(Ev::SolConfirmTimeout(ecsn.value()));
    }
    fn solicited_confirm_received(&mut self, ecsn: Sequence) {
        self.push(Ev::SolConfirmReceived(ecsn.value()));
    }
    fn solicited_confirm_wait_new_request(&mut self) {
        self.push(Ev::SolConfirmWaitNewRequest);
    }
    fn wrong_solicited_confirm_seq(&mut self, ecsn: Sequence, seq: Sequence) {
        self.push(Ev::WrongSolConfirmSeq(ecsn.value(), seq.value()));
    }
    fn unexpected_confirm(&mut self, unsolicited: bool, seq: Sequence) {
        self.push(Ev::UnexpectedConfirm(unsolicited, seq.value()));
    }
    fn enter_unsolicited_confirm_wait(&mut self, ecsn: Sequence) {
        self.push(Ev::EnterUnsolConfirmWait(ecsn.value()));
    }
    fn unsolicited_confirm_timeout(&mut self, ecsn: Sequence, retry: bool) {
        self.push(Ev::UnsolConfirmTimeout(ecsn.value(), retry));
    }
    fn unsolicited_confirmed(&mut self, ecsn: Sequence) {
        self.push(Ev::UnsolConfirmed(ecsn.value()));
    }
    fn clear_restart_iin(&mut self) {
        self.push(Ev::ClearRestartIin);
    }
}

fn op_code(t: OperateType) -> u8 {
    match t {
        OperateType::SelectBeforeOperate => 0,
        OperateType::DirectOperate => 1,
        OperateType::DirectOperateNoAck => 2,
    }
}

impl ControlSupport<Group12Var1> for Mock {
    fn select(&mut self, c: Group12Var1, index: u16, _: &mut DatabaseHandle) -> CommandStatus {
        self.push(Ev::Select(
            12,
            1,
            index,
            ra::crob(
                c.code.as_u8(),
                c.count,
                c.on_time,
                c.off_time,
                c.status.as_u8(),
            ),
        ));
        self.status_for(index)
    }
    fn operate(
        &mut self,
        c: Group12Var1,
        index: u16,
        t: OperateType,
        _: &mut DatabaseHandle,
    ) -> CommandStatus {
        self.push(Ev::Operate(
            12,
            1,
            index,
            ra::crob(
                c.code.as_u8(),
                c.count,
                c.on_time,
                c.off_time,
                c.status.as_u8(),
            ),
            op_code(t),
        ));
        self.status_for(index)
    }
}
impl ControlSupport<Group41Var1> for Mock {
    fn select(&mut self, c: Group41Var1, index: u16, _: &mut DatabaseHandle) -> CommandStatus {
        self.push(Ev::Select(
            41,
            1,
            index,
            ra::ao_i32(c.value, c.status.as_u8()),
        ));
        self.status_for(index)
    }
    fn operate(
        &mut self,
        c: Group41Var1,
        index: u16,
        t: OperateType,
        _: &mut DatabaseHandle,
    ) -> CommandStatus {
        self.push(Ev::Operate(
            41,
            1,
            index,
            ra::ao_i32(c.value, c.status.as_u8()),
            op_code(t),
        ));
        self.status_for(index)
    }
}
impl ControlSupport<Group41Var2> for Mock {
    fn select(&mut self, c: Group41Var2, index: u16, _: &mut DatabaseHandle) -> CommandStatus {
        self.push(Ev::Select(
            41,
            2,
            index,
            ra::ao_i16(c.value, c.status.as_u8()),
        ));
        self.status_for(index)
    }
    fn operate(
        &mut self,
        c: Group41Var2,
        index: u16,
        t: OperateType,
        _: &mut DatabaseHandle,
    ) -> CommandStatus {
        self.push(Ev::Operate(
            41,
            2,
            index,
            ra::ao_i16(c.value, c.status.as_u8()),
            op_code(t),
        ));
        self.status_for(index)
    }
}
impl ControlSupport<Group41Var3> for Mock {
    fn select(&mut self, c: Group41Var3, index: u16, _: &mut DatabaseHandle) -> CommandStatus {
        self.push(Ev::Select(
            41,
            3,
            index,
            ra::ao_f32(c.value, c.status.as_u8()),
        ));
        self.status_for(index)
    }
    fn operate(
        &mut self,
        c: Group41Var3,
        index: u16,
        t: OperateType,
        _: &mut DatabaseHandle,
    ) -> CommandStatus {
        self.push(Ev::Operate(
            41,
            3,
            index,
            ra::ao_f32(c.value, c.status.as_u8()),
            op_code(t),
        ));
        self.status_for(index)
    }
}
impl ControlSupport<Group41Var4> for Mock {
    fn select(&mut self, c: Group41Var4, index: u16, _: &mut DatabaseHandle) -> CommandStatus {
        self.push(Ev::Select(
            41,
            4,
            index,
            ra::ao_f64(c.value, c.status.as_u8()),
        ));
        self.status_for(index)
    }
    fn operate(
        &mut self,
        c: Group41Var4,
        index: u16,
        t: OperateType,
        _: &mut DatabaseHandle,
    ) -> CommandStatus {
        self.push(Ev::Operate(
            41,
            4,
            index,
            ra::ao_f64(c.value, c.status.as_u8()),
            op_code(t),
        ));
        self.status_for(index)
    }
}

impl ControlHandler for Mock {
    fn begin_fragment(&mut self) {
        self.push(Ev::BeginFragment);
    }
    fn end_fragment(&mut self, _database: &mut DatabaseHandle) -> MaybeAsync<()> {
        self.push(Ev::EndFragment);
        sleep_async(self.script(|s| s.end_fragment_delay_ms))
    }
}

impl Listener<ConnectionState> for Mock {
    fn update(&mut self, value: ConnectionState) -> MaybeAsync<()> {
        self.push(match value {
            ConnectionState::Connected => Ev::Connected,
            ConnectionState::Disconnected => Ev::Disconnected,
        });
        MaybeAsync::ready(())
    }
}

pub struct OutSim {
    pub cfg: OutCfg,
    pub clock: Clock,
    pub mock: Mock,
    pub handle: OutstationHandle,
    pub pipe: Pipe,
    pub old_pipes: Vec<Pipe>,
    sessions: Sender<NewSession>,
    next_session: u64,
    pub join: tokio::task::JoinHandle<()>,
    decoder: WireDecoder,
    /// transport sequence used for frames we send
    pub tseq: u8,
    /// everything received so far
    pub rx_log: Vec<Rx>,
    /// epoch of the current connection (incremented on every reconnect)
    pub epoch: u32,
}

pub fn make_config(c: &OutCfg) -> OutstationConfig {
    let mut config = OutstationConfig::new(
        EndpointAddress::try_new(c.out_addr).unwrap(),
        EndpointAddress::try_new(c.master_addr).unwrap(),
        EventBufferConfig::new(
            c.event_cfg[0],
            c.event_cfg[1],
            c.event_cfg[2],
            c.event_cfg[3],
            c.event_cfg[4],
            c.event_cfg[5],
            c.event_cfg[6],
            c.event_cfg[7],
        ),
    );
    config.solicited_buffer_size = BufferSize::new(c.sol_tx).unwrap();
    config.unsolicited_buffer_size = BufferSize::new(c.unsol_tx).unwrap();
    config.rx_buffer_size = BufferSize::new(c.rx).unwrap();
    config.decode_level = decode_level(c.decode);
    config.confirm_timeout = Timeout::from_millis(c.confirm_timeout_ms).unwrap();
    config.select_timeout = Timeout::from_millis(c.select_timeout_ms).unwrap();
    let f = |b: bool| {
        if b {
            Feature::Enabled
        } else {
            Feature::Disabled
        }
    };
    config.features.self_address = f(c.self_address);
    config.features.broadcast = f(c.broadcast);
    config.features.unsolicited = f(c.unsolicited);
    config.features.respond_to_any_master = f(c.any_master);
    config.max_unsolicited_retries = c.max_unsol_retries;
    config.unsolicited_retry_delay = std::time::Duration::from_millis(c.unsol_retry_delay_ms);
    config.keep_alive_timeout = c.keep_alive_ms.map(std::time::Duration::from_millis);
    config.max_read_request_headers = c.max_read_headers;
    config.max_controls_per_request = c.max_controls;
    config.class_zero.octet_string = c.class_zero_octets;
    config.class_zero.binary = c.class_zero[0];
    config.class_zero.double_bit_binary = c.class_zero[1];
    config.class_zero.binary_output_status = c.class_zero[2];
    config.class_zero.counter = c.class_zero[3];
    config.class_zero.frozen_counter = c.class_zero[4];
    config.class_zero.analog = c.class_zero[5];
    config.class_zero.analog_output_status = c.class_zero[6];
    config
}

impl OutSim {
    /// create the outstation (real OutstationTask inside the real ServerTask) and connect the first session
    pub async fn start(cfg: OutCfg) -> OutSim {
        Self::start_with(cfg, |_| {}).await
    }

    /// `setup` runs on the database before the first connection
    pub async fn start_with(cfg: OutCfg, setup: impl FnOnce(&mut Database)) -> OutSim {
        let clock = Clock::start();
        let mock = Mock(Arc::new(Mutex::new(MockShared {
            log: vec![],
            ords: vec![],
            taken: 0,
            script: Script::default(),
            clock,
        })));
        let config = make_config(&cfg);
        let modes = LinkModes {
            error_mode: if cfg.discard {
                LinkErrorMode::Discard
            } else {
                LinkErrorMode::Close
            },
            read_mode: LinkReadMode::Stream,
        };
        let (task, handle) = OutstationTask::create(
            Enabled::Yes,
            modes,
            ParseOptions {
                parse_zero_length_strings: cfg.zero_len_strings,
            },
            config,
            PhysAddr::None,
            Box::new(mock.clone()),
            Box::new(mock.clone()),
            Box::new(mock.clone()),
        );
        let mut setup = Some(setup);
        handle.transaction(|db| {
            if let Some(s) = setup.take() {
                s(db)
            }
        });
        let (mut server, sessions) =
            ServerTask::create(Session::outstation(task), Box::new(mock.clone()));
        let join = tokio::spawn(async move {
            let _ = server.run().await;
        });
        let (pipe, phys) = io::phys_pipe(Some(clock.epoch));
        let mut sim = OutSim {
            cfg,
            clock,
            mock,
            handle,
            pipe,
            old_pipes: vec![],
            sessions,
            next_session: 0,
            join,
            decoder: WireDecoder::new(),
            tseq: 0,
            rx_log: vec![],
            epoch: 0,
        };
        sim.open(phys).await;
        sim
    }

    async fn open(&mut self, phys: PhysLayer) {
        let id = self.next_session;
        self.next_session += 1;
        let _ = self.sessions.send(NewSession::new(id, phys)).await;
        settle().await;
    }

    pub fn now(&self) -> u64 {
        self.clock.now_ms()
    }

    /// has the endpoint task ended (panicked or returned)?
    pub fn task_finished(&self) -> bool {
        self.join.is_finished()
    }

    /// send raw bytes with the given chunk sizes
    pub fn send_bytes(&mut self, bytes: &[u8], chunks: &[usize]) {
        self.pipe.push_split(bytes, chunks);
    }

    /// send an application fragment from `src` to `dest`, correctly segmented and framed
    pub fn send_from(&mut self, src: u16, dest: u16, fragment: &[u8], chunks: &[usize]) {
        let mut tseq = self.tseq;
        let bytes = encode_fragment(true, dest, src, fragment, &mut tseq);
        self.tseq = tseq;
        self.pipe.push_split(&bytes, chunks);
    }

    /// send an application fragment from the configured master to the outstation
    pub fn send(&mut self, fragment: &[u8]) {
        let (s, d) = (self.cfg.master_addr, self.cfg.out_addr);
        self.send_from(s, d, fragment, &[]);
    }

    /// send and let the outstation process it
    pub async fn request(&mut self, fragment: &[u8]) -> Vec<Rx> {
        self.send(fragment);
        settle().await;
        self.collect()
    }

    /// everything written by the outstation since the last call, decoded
    pub fn collect(&mut self) -> Vec<Rx> {
        let mut out = vec![];
        for p in self.old_pipes.clone() {
            for t in p.take_tx() {
                out.push(Rx::Garbage {
                    ord: t.ord,
                    t_ms: t.t_ms,
                    why: "write on a connection that was replaced".into(),
                    bytes: t.bytes,
                });
            }
        }
        for t in self.pipe.take_tx() {
            self.decoder.feed(t.ord, t.t_ms, &t.bytes, &mut out);
        }
        self.rx_log.extend(out.iter().cloned());
        out
    }

    /// fragments only
    pub fn collect_fragments(&mut self) -> Vec<(u64, Vec<u8>)> {
        self.collect()
            .into_iter()
            .filter_map(|r| match r {
                Rx::Fragment { t_ms, bytes, .. } => Some((t_ms, bytes)),
                _ => None,
            })
            .collect()
    }

    pub async fn advance(&mut self, ms: u64) {
        advance(ms).await;
    }

    /// close the connection (EOF), wait for the session to end, connect a fresh pipe
    pub async fn reconnect_close(&mut self) {
        if self.epoch % 3 == 2 {
            // every third time the connection ends because the application disables the outstation; it is
            // enabled again before the next connection (with a decode-level message in between)
            let _ = self.handle.disable().await;
            settle().await;
            let _ = self
                .handle
                .set_decode_level(crate::verif::checks::common::decode_level(
                    self.cfg.decode + self.epoch as usize,
                ))
                .await;
            let _ = self.handle.enable().await;
            crate::verif::out::count("reconnect_by_disable", 1);
        } else {
            self.pipe.push_eof();
        }
        settle().await;
        let _ = self.collect();
        let (pipe, phys) = io::phys_pipe(Some(self.clock.epoch));
        let old = std::mem::replace(&mut self.pipe, pipe);
        self.old_pipes.push(old);
        self.decoder.reset();
        self.tseq = 0;
        self.epoch += 1;
        self.open(phys).await;
    }

    /// a new connection arrives while the old one is still open (the server drops the running session future)
    pub async fn reconnect_preempt(&mut self) {
        let _ = self.collect();
        let (pipe, phys) = io::phys_pipe(Some(self.clock.epoch));
        let old = std::mem::replace(&mut self.pipe, pipe);
        self.old_pipes.push(old);
        self.decoder.reset();
        self.tseq = 0;
        self.epoch += 1;
        self.open(phys).await;
    }

    pub fn db<R>(&self, f: impl FnMut(&mut Database) -> R) -> R {
        self.handle.transaction(f)
    }
}
