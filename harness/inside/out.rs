//! Shard-local reporter: counters, distinct abstract cases, samples, violations.
//! Written as one JSON document to `--out` at the end of the shard; a progress
//! marker file `<out>.progress` names the scenario being executed so that an
//! abnormal exit can be attributed (DESIGN 3.3).

use super::ShardArgs;
use std::collections::{BTreeMap, BTreeSet};
use std::sync::Mutex;

/// minimal JSON value
#[derive(Clone, Debug)]
pub enum J {
    Null,
    B(bool),
    I(i64),
    U(u64),
    F(f64),
    S(String),
    A(Vec<J>),
    O(Vec<(String, J)>),
}

impl J {
    pub fn s(x: impl Into<String>) -> J {
        J::S(x.into())
    }
    pub fn hex(b: &[u8]) -> J {
        J::S(super::util::hex(b))
    }
    pub fn obj(items: Vec<(&str, J)>) -> J {
        J::O(items.into_iter().map(|(k, v)| (k.to_string(), v)).collect())
    }
    pub fn arr<T: Into<J>>(items: impl IntoIterator<Item = T>) -> J {
        J::A(items.into_iter().map(|x| x.into()).collect())
    }
    pub fn write(&self, out: &mut String) {
        match self {
            J::Null => out.push_str("null"),
            J::B(b) => out.push_str(if *b { "true" } else { "false" }),
            J::I(i) => out.push_str(&i.to_string()),
            J::U(u) => out.push_str(&u.to_string()),
            J::F(f) => {
                if f.is_finite() {
                    out.push_str(&format!("{f}"))
                } else {
                    out.push_str(&format!("\"{f}\""))
                }
            }
            J::S(s) => esc(s, out),
            J::A(a) => {
                out.push('[');
                for (i, x) in a.iter().enumerate() {
                    if i > 0 {
                        out.push(',');
                    }
                    x.write(out);
                }
                out.push(']');
            }
            J::O(o) => {
                out.push('{');
                for (i, (k, v)) in o.iter().enumerate() {
                    if i > 0 {
                        out.push(',');
                    }
                    esc(k, out);
                    out.push(':');
                    v.write(out);
                }
                out.push('}');
            }
        }
    }
    pub fn to_string(&self) -> String {
        let mut s = String::new();
        self.write(&mut s);
        s
    }
}

impl From<u64> for J {
    fn from(x: u64) -> J {
        J::U(x)
    }
}
impl From<usize> for J {
    fn from(x: usize) -> J {
        J::U(x as u64)
    }
}
impl From<u32> for J {
    fn from(x: u32) -> J {
        J::U(x as u64)
    }
}
impl From<u16> for J {
    fn from(x: u16) -> J {
        J::U(x as u64)
    }
}
impl From<u8> for J {
    fn from(x: u8) -> J {
        J::U(x as u64)
    }
}
impl From<i64> for J {
    fn from(x: i64) -> J {
        J::I(x)
    }
}
impl From<bool> for J {
    fn from(x: bool) -> J {
        J::B(x)
    }
}
impl From<&str> for J {
    fn from(x: &str) -> J {
        J::S(x.to_string())
    }
}
impl From<String> for J {
    fn from(x: String) -> J {
        J::S(x)
    }
}
impl From<f64> for J {
    fn from(x: f64) -> J {
        J::F(x)
    }
}

fn esc(s: &str, out: &mut String) {
    out.push('"');
    for c in s.chars() {
        match c {
            '"' => out.push_str("\\\""),
            '\\' => out.push_str("\\\\"),
            '\n' => out.push_str("\\n"),
            '\r' => out.push_str("\\r"),
            '\t' => out.push_str("\\t"),
            c if (c as u32) < 0x20 => out.push_str(&format!("\\u{:04x}", c as u32)),
            c => out.push(c),
        }
    }
    out.push('"');
}

pub struct Violation {
    pub property: String,
    pub rule: String,
    /// normalised signature used for known-finding matching
    pub sig: String,
    pub detail: J,
    pub replay: J,
}

struct State {
    counters: BTreeMap<String, u64>,
    distinct: BTreeSet<u64>,
    distinct_examples: Vec<String>,
    samples: Vec<J>,
    violations: Vec<Violation>,
    violation_counts: BTreeMap<String, u64>,
    notes: Vec<String>,
    progress_path: String,
    started: std::time::Instant,
}

static STATE: Mutex<Option<State>> = Mutex::new(None);

fn with<R>(f: impl FnOnce(&mut State) -> R) -> R {
    let mut g = STATE.lock().unwrap_or_else(|e| e.into_inner());
    if g.is_none() {
        *g = Some(State {
            counters: BTreeMap::new(),
            distinct: BTreeSet::new(),
            distinct_examples: vec![],
            samples: vec![],
            violations: vec![],
            violation_counts: BTreeMap::new(),
            notes: vec![],
            progress_path: String::new(),
            started: std::time::Instant::now(),
        });
    }
    f(g.as_mut().unwrap())
}

pub fn begin(a: &ShardArgs) {
    with(|s| {
        s.progress_path = if a.out.is_empty() {
            String::new()
        } else {
            format!("{}.progress", a.out)
        };
        s.started = std::time::Instant::now();
    });
}

pub fn elapsed_s() -> f64 {
    with(|s| s.started.elapsed().as_secs_f64())
}

/// record which scenario is about to run (cheap: only every `every` calls is
/// flushed to disk unless forced)
pub fn progress(label: &str) {
    with(|s| {
        if !s.progress_path.is_empty() {
            let _ = std::fs::write(&s.progress_path, label);
        }
    });
}

pub fn count(key: &str, n: u64) {
    with(|s| *s.counters.entry(key.to_string()).or_insert(0) += n);
}

pub fn get_count(key: &str) -> u64 {
    with(|s| s.counters.get(key).copied().unwrap_or(0))
}

pub fn eval(n: u64) {
    count("evaluations", n);
}

pub fn fnv(s: &str) -> u64 {
    let mut h = 0xcbf29ce484222325u64;
    for b in s.bytes() {
        h ^= b as u64;
        h = h.wrapping_mul(0x100000001b3);
    }
    h
}

/// record one abstract case in which a rule of the property was evaluated
pub fn distinct(key: &str) {
    with(|s| {
        if s.distinct.insert(fnv(key)) && s.distinct_examples.len() < 60 {
            s.distinct_examples.push(key.to_string());
        }
    });
}

pub fn sample(j: J) {
    with(|s| {
        if s.samples.len() < 6 {
            s.samples.push(j)
        }
    });
}

pub fn sample_count() -> usize {
    with(|s| s.samples.len())
}

pub fn note(n: impl Into<String>) {
    let n = n.into();
    with(|s| {
        if s.notes.len() < 50 {
            s.notes.push(n)
        }
    });
}

pub fn violation(property: &str, rule: &str, sig: &str, detail: J, replay: J) {
    with(|s| {
        let key = format!("{property}|{rule}|{sig}");
        let c = s.violation_counts.entry(key).or_insert(0);
        *c += 1;
        // keep the first 3 instances of each signature in full, at most 60 in total
        if *c <= 3 && s.violations.len() < 60 {
            s.violations.push(Violation {
                property: property.to_string(),
                rule: rule.to_string(),
                sig: sig.to_string(),
                detail,
                replay,
            });
        }
    });
}

pub fn violation_total() -> u64 {
    with(|s| s.violation_counts.values().sum())
}

pub fn finish(a: &ShardArgs, error: Option<String>) {
    let doc = with(|s| {
        let counters = J::O(
            s.counters
                .iter()
                .map(|(k, v)| (k.clone(), J::U(*v)))
                .collect(),
        );
        let distinct = J::A(
            s.distinct
                .iter()
                .map(|h| J::S(format!("{h:016x}")))
                .collect(),
        );
        let viols = J::A(
            s.violations
                .iter()
                .map(|v| {
                    J::obj(vec![
                        ("property", J::s(v.property.clone())),
                        ("rule", J::s(v.rule.clone())),
                        ("sig", J::s(v.sig.clone())),
                        ("detail", v.detail.clone()),
                        ("replay", v.replay.clone()),
                    ])
                })
                .collect(),
        );
        let vcounts = J::O(
            s.violation_counts
                .iter()
                .map(|(k, v)| (k.clone(), J::U(*v)))
                .collect(),
        );
        J::obj(vec![
            ("check", J::s(a.check.clone())),
            ("seed", J::U(a.seed)),
            ("shard", J::U(a.shard)),
            ("nshards", J::U(a.nshards)),
            ("tier", J::s(a.tier.clone())),
            ("wall_s", J::F(s.started.elapsed().as_secs_f64())),
            ("error", error.clone().map(J::S).unwrap_or(J::Null)),
            ("counters", counters),
            ("distinct", distinct),
            (
                "distinct_examples",
                J::A(s.distinct_examples.iter().cloned().map(J::S).collect()),
            ),
            ("samples", J::A(s.samples.clone())),
            ("violations", viols),
            ("violation_counts", vcounts),
            ("notes", J::A(s.notes.iter().cloned().map(J::S).collect())),
            ("complete", J::B(true)),
        ])
        .to_string()
    });
    if a.out.is_empty() {
        println!("{doc}");
    } else {
        let _ = std::fs::write(&a.out, doc);
        let _ = std::fs::remove_file(format!("{}.progress", a.out));
    }
}
