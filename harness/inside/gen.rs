//! Generators for application fragments sent to an outstation.

use crate::verif::refcodec::app::*;
use crate::verif::rng::Rng;

/// what the harness knows about a generated request
#[derive(Clone, Debug)]
pub struct Req {
    pub bytes: Vec<u8>,
    pub func: u8,
    pub seq: u8,
    /// short label of the generator class
    pub class: String,
    pub expect: Expect,
}

#[derive(Clone, Copy, Debug, PartialEq, Eq)]
pub enum Expect {
    /// a response must come; it must carry an IIN2 error bit
    Error,
    /// a response must come; error bits unconstrained
    Response,
    /// a response must come and no IIN2 error bit is justified (evidence only)
    Clean,
    /// well-formed request whose function code forbids a reply
    NoReply,
    /// the property does not constrain whether a reply is sent
    Unconstrained,
}

pub fn control_objects(r: &mut Rng, n_headers: usize) -> Vec<u8> {
    control_objects_n(r, n_headers, 3)
}

pub fn control_objects_n(r: &mut Rng, n_headers: usize, max_count: u64) -> Vec<u8> {
    let mut b = B { bytes: vec![] };
    for _ in 0..n_headers {
        let count = r.range(1, max_count) as usize;
        let kind = r.below(5);
        let obj = |r: &mut Rng| -> Vec<u8> {
            match kind {
                0 => crob(
                    *r.pick(&[0x01u8, 0x03, 0x04, 0x41, 0x81]),
                    r.range(1, 3) as u8,
                    r.u32() % 5000,
                    r.u32() % 5000,
                    0,
                ),
                1 => ao_i32(r.u32() as i32, 0),
                2 => ao_i16(r.u16() as i16, 0),
                3 => ao_f32(r.u32() as f32 / 7.0, 0),
                _ => ao_f64(r.u64() as f64 / 3.0, 0),
            }
        };
        let (g, v) = if kind == 0 {
            (12u8, 1u8)
        } else {
            (41u8, kind as u8)
        };
        if r.bool() {
            let items: Vec<(u8, Vec<u8>)> = (0..count).map(|_| (r.u8(), obj(r))).collect();
            b = b.prefixed8(g, v, &items);
        } else {
            let items: Vec<(u16, Vec<u8>)> = (0..count).map(|_| (r.u16(), obj(r))).collect();
            b = b.prefixed16(g, v, &items);
        }
    }
    b.bytes
}

/// object headers that parse but are certainly invalid for the given function
fn rejected_header(r: &mut Rng, func: u8) -> Vec<u8> {
    let b = B { bytes: vec![] };
    match func {
        F_WRITE => match r.below(3) {
            0 => b.range8(30, 1, 0, 0, &[1, 0, 0, 0, 0]).bytes,
            1 => b.range8(1, 2, 3, 3, &[0x81]).bytes,
            _ => b.all(60, 1).bytes,
        },
        F_SELECT | F_OPERATE | F_DIRECT_OPERATE => match r.below(2) {
            0 => b.all(60, 1).bytes,
            _ => b.range8(1, 2, 0, 0, &[0x01]).bytes,
        },
        F_IMMED_FREEZE | F_FREEZE_CLEAR => match r.below(2) {
            0 => b.all(1, 0).bytes,
            _ => b.all(30, 0).bytes,
        },
        F_ENABLE_UNSOL | F_DISABLE_UNSOL => match r.below(2) {
            0 => b.all(60, 1).bytes,
            _ => b.range8(1, 2, 0, 0, &[0x01]).bytes,
        },
        F_READ => {
            // a prefixed qualifier (with valid object data) cannot be used in a read
            b.prefixed8(2, 1, &[(3, vec![0x81])]).bytes
        }
        _ => b.all(60, 1).bytes,
    }
}

/// acceptable header for the function (kept small)
fn good_header(r: &mut Rng, func: u8) -> Vec<u8> {
    let b = B { bytes: vec![] };
    match func {
        F_WRITE => b.range8(80, 1, 7, 7, &[0]).bytes,
        F_SELECT | F_OPERATE | F_DIRECT_OPERATE | F_DIRECT_OPERATE_NR => control_objects(r, 1),
        F_IMMED_FREEZE | F_FREEZE_CLEAR | F_IMMED_FREEZE_NR | F_FREEZE_CLEAR_NR => match r.below(3)
        {
            0 => b.all(20, 0).bytes,
            1 => b.range8(20, 0, 1, 4, &[]).bytes,
            _ => b.range16(20, 0, 0, 300, &[]).bytes,
        },
        F_ENABLE_UNSOL | F_DISABLE_UNSOL => b.all(60, r.range(2, 4) as u8).bytes,
        F_READ => match r.below(6) {
            0 => b.all(60, 1).bytes,
            1 => b.all(60, r.range(2, 4) as u8).bytes,
            2 => b.range8(1, 0, 0, 9, &[]).bytes,
            3 => b.range16(30, r.range(0, 6) as u8, 0, 20, &[]).bytes,
            4 => b.count8(60, 2, r.range(1, 5) as u8, &[]).bytes,
            _ => {
                b.all(
                    r.pick_copy(&[1u8, 3, 10, 20, 21, 30, 40, 2, 4, 11, 22, 23, 32, 42]),
                    0,
                )
                .bytes
            }
        },
        _ => vec![],
    }
}

/// malformed object data (fails object parsing)
pub fn broken_objects(r: &mut Rng) -> (Vec<u8>, &'static str) {
    match r.below(8) {
        0 => (vec![0xEE, 0x01, 0x06], "unknown-group"),
        1 => (vec![1, 99, 0x06], "unknown-variation"),
        2 => (vec![1, 2, 0x99], "unknown-qualifier"),
        3 => (vec![1, 2, 0x00, 9, 3, 0, 0], "stop<start"),
        4 => (vec![1, 2, 0x00, 0, 9, 1], "truncated-data"),
        5 => (vec![12, 1, 0x17, 3, 0, 1, 1], "truncated-prefixed"),
        6 => (vec![1], "one-byte"),
        _ => (vec![30, 1, 0x01, 0, 0], "truncated-range"),
    }
}

/// functions the outstation executes and answers
pub const RESPONDING: [u8; 14] = [
    F_READ,
    F_WRITE,
    F_SELECT,
    F_OPERATE,
    F_DIRECT_OPERATE,
    F_IMMED_FREEZE,
    F_FREEZE_CLEAR,
    F_FREEZE_AT_TIME,
    F_COLD_RESTART,
    F_WARM_RESTART,
    F_ENABLE_UNSOL,
    F_DISABLE_UNSOL,
    F_DELAY_MEASURE,
    F_RECORD_CURRENT_TIME,
];
pub const NO_REPLY: [u8; 4] = [
    F_DIRECT_OPERATE_NR,
    F_IMMED_FREEZE_NR,
    F_FREEZE_CLEAR_NR,
    F_FREEZE_AT_TIME_NR,
];

/// generate one request for the well-formedness property (C12)
pub fn c12_request(r: &mut Rng, seq: u8, unsol_enabled_in_config: bool, max_len: usize) -> Req {
    let q = c12_request_inner(r, seq, unsol_enabled_in_config, max_len);
    if q.bytes.len() > max_len {
        // would not fit the outstation's receive buffer: fall back to a small request
        return c12_request_inner(r, seq, unsol_enabled_in_config, 0);
    }
    q
}

fn c12_request_inner(r: &mut Rng, seq: u8, unsol_enabled_in_config: bool, max_len: usize) -> Req {
    let class = r.below(100);
    if class < 4 && max_len >= 300 {
        // (1b) large control requests: the echo may outgrow the transmit buffer
        let func = r.pick_copy(&[F_SELECT, F_OPERATE, F_DIRECT_OPERATE]);
        let nh = r.range(1, 3) as usize;
        let per = (max_len.min(2040) / 13 / nh).max(2) as u64;
        let objs = control_objects_n(r, nh, per);
        let b = B::request(func, seq).raw(&objs);
        return Req {
            bytes: b.done(),
            func,
            seq,
            class: format!("ok-large/f{func}"),
            expect: Expect::Response,
        };
    }
    let mk = |bytes: Vec<u8>, func: u8, class: String, expect: Expect| Req {
        bytes,
        func,
        seq,
        class,
        expect,
    };
    if r.chance(1, 30) {
        // (9) WRITE of a device attribute that must be refused: the wrong data type for a writable attribute (set 7
        // variation 1 is a visible string), an attribute that is defined read-only (set 7 variation 2), one that is not
        // defined at all. [group 0, variation, qualifier 00, set, set, type code, length, value]
        let (var, code, val, why): (u8, u8, Vec<u8>, &str) = match r.below(4) {
            0 => (1, 2, vec![42], "uint-for-vstr"),
            1 => (1, 4, 1.5f32.to_le_bytes().to_vec(), "float-for-vstr"),
            2 => (2, 1, b"new".to_vec(), "read-only"),
            _ => (9, 1, b"new".to_vec(), "undefined"),
        };
        let mut data = vec![code, val.len() as u8];
        data.extend(val);
        let b = B::request(F_WRITE, seq).range8(0, var, 7, 7, &data);
        return mk(b.done(), F_WRITE, format!("attr-write-refused/{why}"), Expect::Error);
    }
    if class < 22 {
        // (1) well-formed, acceptable
        let func = r.pick_copy(&RESPONDING);
        let mut b = B::request(func, seq);
        match func {
            F_FREEZE_AT_TIME => {
                let mut d = time48(r.u64() & 0xFFFF_FFFF);
                d.extend_from_slice(&(r.u32() % 100000).to_le_bytes());
                b = b.count8(50, 2, 1, &d).all(20, 0);
            }
            F_COLD_RESTART | F_WARM_RESTART | F_DELAY_MEASURE | F_RECORD_CURRENT_TIME => {}
            _ => {
                let n = r.range(1, 3);
                for _ in 0..n {
                    b = b.raw(&good_header(r, func));
                }
            }
        }
        // enable/disable are rejected when unsolicited support is off
        let expect =
            if (func == F_ENABLE_UNSOL || func == F_DISABLE_UNSOL) && !unsol_enabled_in_config {
                Expect::Response
            } else {
                Expect::Response
            };
        return mk(b.done(), func, format!("ok/f{func}"), expect);
    }
    if class < 34 {
        // (2) no-reply functions and confirms, well-formed
        if r.chance(1, 3) {
            let uns = r.bool();
            return mk(
                B::confirm(seq, uns).done(),
                F_CONFIRM,
                format!("confirm/uns{}", uns as u8),
                Expect::NoReply,
            );
        }
        let func = r.pick_copy(&NO_REPLY);
        let mut b = B::request(func, seq);
        if func == F_FREEZE_AT_TIME_NR {
            let mut d = time48(r.u64() & 0xFFFF_FFFF);
            d.extend_from_slice(&0u32.to_le_bytes());
            b = b.count8(50, 2, 1, &d).all(20, 0);
        } else {
            b = b.raw(&good_header(r, func));
        }
        return mk(b.done(), func, format!("noreply/f{func}"), Expect::NoReply);
    }
    if class < 52 {
        // (3) unsupported / unknown function codes: every value 0..=255
        let func = loop {
            let f = r.u8();
            if !RESPONDING.contains(&f) && !NO_REPLY.contains(&f) && f != F_CONFIRM {
                break f;
            }
        };
        let mut bytes = vec![FIR | FIN | seq, func];
        let shape = r.below(3);
        match shape {
            0 => {}
            1 => bytes.extend_from_slice(&[60, 1, 6]),
            _ => {
                let n = r.range(1, 12) as usize;
                bytes.extend(r.bytes(n));
            }
        }
        // response function codes need two more octets to be a complete header
        if (func == F_RESPONSE || func == F_UNSOL_RESPONSE) && bytes.len() < 4 {
            bytes.extend_from_slice(&[0, 0]);
        }
        return mk(
            bytes,
            func,
            format!(
                "badfunc/{}",
                if func > 33 && func < 129 || func > 131 {
                    "undefined"
                } else {
                    "defined-unsupported"
                }
            ),
            Expect::Error,
        );
    }
    if class < 62 {
        // (4) bad header flags on an otherwise fine request
        let func = r.pick_copy(&[
            F_READ,
            F_WRITE,
            F_SELECT,
            F_DIRECT_OPERATE,
            F_DELAY_MEASURE,
            F_ENABLE_UNSOL,
        ]);
        let flags = match r.below(5) {
            0 => FIN,
            1 => FIR,
            2 => 0,
            3 => FIR | FIN | UNS,
            _ => FIR | UNS,
        };
        let mut b = B::with_ctrl(flags | seq, func);
        b = b.raw(&good_header(r, func));
        return mk(
            b.done(),
            func,
            format!("badflags/{:02x}", flags),
            Expect::Error,
        );
    }
    if class < 78 {
        // (5) object parse failures
        let func = r.pick_copy(&[
            F_READ,
            F_WRITE,
            F_SELECT,
            F_OPERATE,
            F_DIRECT_OPERATE,
            F_IMMED_FREEZE,
            F_FREEZE_CLEAR,
            F_FREEZE_AT_TIME,
            F_ENABLE_UNSOL,
            F_DISABLE_UNSOL,
        ]);
        let (bad, why) = broken_objects(r);
        let mut b = B::request(func, seq);
        let pos = r.below(3);
        if pos >= 1 {
            b = b.raw(&good_header(r, func));
        }
        if pos == 2 {
            b = b.raw(&good_header(r, func));
        }
        b = b.raw(&bad);
        // READ never carries object data, so "truncated-data" ranges are complete READ headers
        let expect = if func == F_READ && (why == "truncated-data") {
            Expect::Unconstrained
        } else {
            Expect::Error
        };
        return mk(
            b.done(),
            func,
            format!("badobj/{why}/f{func}/pos{pos}"),
            expect,
        );
    }
    if class < 96 {
        // (6,7) a header that is rejected for this function, alone or early / middle / last among good ones
        let func = r.pick_copy(&[
            F_READ,
            F_WRITE,
            F_SELECT,
            F_OPERATE,
            F_DIRECT_OPERATE,
            F_IMMED_FREEZE,
            F_FREEZE_CLEAR,
            F_ENABLE_UNSOL,
            F_DISABLE_UNSOL,
        ]);
        let n_good = r.below(3) as usize;
        let pos = r.usize_below(n_good + 1);
        let mut b = B::request(func, seq);
        for i in 0..=n_good {
            if i == pos {
                b = b.raw(&rejected_header(r, func));
            } else {
                b = b.raw(&good_header(r, func));
            }
        }
        let where_ = if n_good == 0 {
            "only"
        } else if pos == 0 {
            "first"
        } else if pos == n_good {
            "last"
        } else {
            "middle"
        };
        return mk(
            b.done(),
            func,
            format!("rejected/f{func}/{where_}"),
            Expect::Error,
        );
    }
    // (8) requests without objects for functions that need none / objects where none are allowed
    let func = r.pick_copy(&[
        F_DELAY_MEASURE,
        F_RECORD_CURRENT_TIME,
        F_COLD_RESTART,
        F_WARM_RESTART,
    ]);
    let b = B::request(func, seq).all(60, 1);
    mk(
        b.done(),
        func,
        format!("unexpected-objects/f{func}"),
        Expect::Error,
    )
}
