//! splitmix64-seeded xoshiro256** ; no external crates

#[derive(Clone, Debug)]
pub struct Rng {
    s: [u64; 4],
}

fn splitmix(x: &mut u64) -> u64 {
    *x = x.wrapping_add(0x9E3779B97F4A7C15);
    let mut z = *x;
    z = (z ^ (z >> 30)).wrapping_mul(0xBF58476D1CE4E5B9);
    z = (z ^ (z >> 27)).wrapping_mul(0x94D049BB133111EB);
    z ^ (z >> 31)
}

impl Rng {
    pub fn new(seed: u64) -> Self {
        let mut x = seed;
        let s = [
            splitmix(&mut x),
            splitmix(&mut x),
            splitmix(&mut x),
            splitmix(&mut x),
        ];
        Rng { s }
    }

    pub fn fork(&mut self) -> Rng {
        Rng::new(self.u64())
    }

    pub fn u64(&mut self) -> u64 {
        let r = self.s[1].wrapping_mul(5).rotate_left(7).wrapping_mul(9);
        let t = self.s[1] << 17;
        self.s[2] ^= self.s[0];
        self.s[3] ^= self.s[1];
        self.s[1] ^= self.s[2];
        self.s[0] ^= self.s[3];
        self.s[2] ^= t;
        self.s[3] = self.s[3].rotate_left(45);
        r
    }

    pub fn u32(&mut self) -> u32 {
        (self.u64() >> 32) as u32
    }
    pub fn u16(&mut self) -> u16 {
        (self.u64() >> 48) as u16
    }
    pub fn u8(&mut self) -> u8 {
        (self.u64() >> 56) as u8
    }
    pub fn bool(&mut self) -> bool {
        self.u64() >> 63 == 1
    }
    /// uniform in 0..n (n>0)
    pub fn below(&mut self, n: u64) -> u64 {
        if n == 0 {
            return 0;
        }
        self.u64() % n
    }
    pub fn usize_below(&mut self, n: usize) -> usize {
        self.below(n as u64) as usize
    }
    /// inclusive range
    pub fn range(&mut self, lo: u64, hi: u64) -> u64 {
        if hi <= lo {
            return lo;
        }
        lo + self.below(hi - lo + 1)
    }
    /// true with probability num/den
    pub fn chance(&mut self, num: u64, den: u64) -> bool {
        self.below(den) < num
    }
    pub fn pick<'a, T>(&mut self, items: &'a [T]) -> &'a T {
        &items[self.usize_below(items.len())]
    }
    pub fn pick_copy<T: Copy>(&mut self, items: &[T]) -> T {
        items[self.usize_below(items.len())]
    }
    /// weighted choice: returns index
    pub fn weighted(&mut self, weights: &[u32]) -> usize {
        let total: u64 = weights.iter().map(|w| *w as u64).sum();
        let mut x = self.below(total.max(1));
        for (i, w) in weights.iter().enumerate() {
            if x < *w as u64 {
                return i;
            }
            x -= *w as u64;
        }
        weights.len() - 1
    }
    pub fn bytes(&mut self, n: usize) -> Vec<u8> {
        let mut v = Vec::with_capacity(n);
        while v.len() < n {
            let x = self.u64().to_le_bytes();
            for b in x {
                if v.len() < n {
                    v.push(b);
                }
            }
        }
        v
    }
    pub fn shuffle<T>(&mut self, v: &mut [T]) {
        for i in (1..v.len()).rev() {
            let j = self.usize_below(i + 1);
            v.swap(i, j);
        }
    }
    pub fn f64_unit(&mut self) -> f64 {
        (self.u64() >> 11) as f64 / (1u64 << 53) as f64
    }
}
