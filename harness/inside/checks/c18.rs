//! C18 — time synchronisation sets the outstation's clock to the master's.
//! Part A: real master + real outstation joined by a relay with scripted one-way delays
//!         and an honestly held processing delay; the oracle compares the time handed to the
//!         outstation application with the master's clock at that virtual instant.
//! Part B: real master against a scripted outstation that misbehaves (excess processing
//!         delay, NEED_TIME kept, unexpected objects, rejection), and 48-bit overflow.

use crate::verif::out::{self, J};
use crate::verif::refcodec::app as ra;
use crate::verif::sim::master::*;
use crate::verif::sim::outstation::*;
use crate::verif::sim::pair::*;
use crate::verif::sim::*;
use crate::verif::ShardArgs;

const P: &str = "C18";
const OUT: u16 = 1024;
const MAX48: u64 = 0x0000_FFFF_FFFF_FFFF;

fn replay_j(a: &ShardArgs, idx: u64) -> J {
    J::obj(vec![
        ("check", J::s("c18")),
        ("seed", J::U(a.seed)),
        ("shard", J::U(a.shard)),
        ("nshards", J::U(a.nshards)),
        ("scenario", J::U(idx)),
    ])
}

fn pick_delay(r: &mut crate::verif::rng::Rng) -> u64 {
    match r.below(8) {
        0 => 0,
        1 => r.range(1, 9),
        2 => r.range(10, 99),
        3 => r.range(100, 999),
        4 => r.range(1000, 9999),
        5 => r.range(10_000, 65_535),
        6 => r.range(65_536, 90_000),
        _ => r.range(0, 500),
    }
}

/// Part A
async fn paired(a: &ShardArgs, idx: u64) {
    let mut r = a.rng(&format!("c18a/{idx}"));
    let procedure = r.below(3) as u8; // 0 LAN, 1 non-LAN, 2 direct write
    let f = pick_delay(&mut r);
    let symmetric = r.chance(1, 3);
    let b = if symmetric { f } else { pick_delay(&mut r) };
    // processing delay the outstation reports and really takes (non-LAN)
    let p: u64 = if procedure == 1 {
        match r.below(5) {
            0 => 0,
            1 => r.range(1, 50),
            2 => r.range(51, 5000),
            3 => r.range(5001, 65_535),
            _ => 65_535,
        }
    } else {
        0
    };
    // how much of the reported processing delay really elapses: honest, or less (dishonest: must fail when p > round trip)
    let dishonest = procedure == 1 && p > 0 && r.chance(1, 5);
    let held = if dishonest {
        r.range(0, p.saturating_sub(1))
    } else {
        p
    };
    let warm = r.range(0, 2 * (f + b).min(3000) + 10);
    // instant at which the master reads its clock for the value it writes
    let t_read = if procedure == 1 {
        warm + f + held + b
    } else {
        warm
    };
    let base: u64 = match r.below(6) {
        0 => 0,
        1 => r.range(0, 1_000_000),
        2 => 1_600_000_000_000 + r.below(1_000_000_000),
        // close to the 48-bit limit: the clock itself still fits when it is read, what is derived from it may not
        3 => (MAX48 - t_read).saturating_sub(r.range(0, f + b + 5)),
        // the value to be written lands exactly on the last 48-bit value, or one to either side of it
        4 => {
            let add = match procedure {
                1 => (f + b) / 2,
                0 => f + b,
                _ => 0,
            };
            (MAX48 - t_read).saturating_sub(add).saturating_sub(1) + r.range(0, 2)
        }
        _ => r.u64() & MAX48 >> 1,
    };
    let no_time = r.chance(1, 25);
    let keep_need_time = r.chance(1, 8);
    let app_rejects = r.chance(1, 12);
    let unsol = r.chance(1, 3);
    let wrong_seq_noise = r.chance(1, 3);
    let t_resp = f + b + p + 2000;

    let mut oc = OutCfg::default();
    oc.unsolicited = unsol;
    oc.confirm_timeout_ms = 2 * (f + b) + 1000;
    oc.decode = r.usize_below(108);
    let o = OutSim::start_with(oc.clone(), |db| {
        use crate::outstation::database::*;
        db.add(
            0,
            Some(EventClass::Class1),
            AnalogInputConfig::new(
                StaticAnalogInputVariation::Group30Var1,
                EventAnalogInputVariation::Group32Var3,
                0.0,
            ),
        );
    })
    .await;
    o.mock.script(|s| {
        s.processing_delay = p as u16;
        s.app_iin.need_time = true;
        s.clear_need_time_on_write = !keep_need_time;
        if app_rejects {
            s.write_time_result = Err(crate::outstation::RequestError::ParameterError);
        }
    });
    let mut mc = MasterCfg::default();
    mc.decode = r.usize_below(108);
    let mut ac = AssocCfg::quiet(OUT);
    ac.response_timeout_ms = t_resp;
    let m = MasterSim::start(mc, &[ac]).await;
    m.set_time_base(if no_time { None } else { Some(base) });
    let mut pair = Pair::new(m, o, f, b);
    let mut hist: Vec<String> = vec![format!("procedure={procedure} f={f} b={b} p={p} held={held} base={base} no_time={no_time} keep_need_time={keep_need_time} app_rejects={app_rejects} unsol={unsol} noise={wrong_seq_noise}")];

    // let the start-up chatter (null unsolicited + confirm) pass or get under way
    pair.run_until(warm, |_| false, |_, _| {}).await;
    if unsol && r.bool() {
        // an event right before the procedure: an unsolicited response with data crosses it
        pair.o.db(|db| {
            use crate::outstation::database::*;
            db.update(
                0,
                &crate::app::measurement::AnalogInput::new(
                    1.5,
                    crate::app::measurement::Flags::ONLINE,
                    crate::app::measurement::Time::synchronized(1),
                ),
                UpdateOptions::detect_event(),
            );
        });
        settle().await;
        pair.pump();
    }
    let t_submit = pair.now();
    let id = pair.m.submit(0, UserReq::TimeSync(procedure));
    settle().await;
    pair.pump();
    // observations made while relaying
    let mut t_first_req_sent: Option<u64> = None; // RECORD_CURRENT_TIME / DELAY_MEASURE / direct WRITE leaves the master
    let mut t_first_req_arrived: Option<u64> = None;
    let mut t_write_sent: Option<u64> = None;
    let mut written_value: Option<u64> = None;
    let mut measure_rtt: Option<u64> = None;
    let mut t_measure_sent: Option<u64> = None;
    let limit = 6 * t_resp + 10_000;
    let mut noise_done = false;
    let mut frames: Vec<(u64, Dir, Option<u8>, Vec<u8>)> = vec![];
    {
        let frames = &mut frames;
        let t_first_req_sent = &mut t_first_req_sent;
        let t_first_req_arrived = &mut t_first_req_arrived;
        let t_write_sent = &mut t_write_sent;
        let written_value = &mut written_value;
        let measure_rtt = &mut measure_rtt;
        let t_measure_sent = &mut t_measure_sent;
        let noise_done = &mut noise_done;
        pair.run_until(
            limit,
            |pr| pr.m.result_of(id).is_some() && pr.in_flight.is_empty(),
            |pr, fl| {
                let func = app_function(&fl.bytes);
                frames.push((pr.now(), fl.dir, func, fl.bytes.clone()));
                if fl.injected {
                    return;
                }
                match (fl.dir, func) {
                    (Dir::ToOutstation, Some(ra::F_RECORD_CURRENT_TIME))
                    | (Dir::ToOutstation, Some(ra::F_DELAY_MEASURE)) => {
                        if t_first_req_sent.is_none() {
                            *t_first_req_sent = Some(fl.sent_t);
                            *t_first_req_arrived = Some(pr.now());
                        }
                        if func == Some(ra::F_DELAY_MEASURE) {
                            *t_measure_sent = Some(fl.sent_t);
                            // the outstation answers at once in virtual time; the relay holds the answer for the processing time
                            if let Some(rep) = pr.in_flight.iter_mut().find(|x| {
                                x.dir == Dir::ToMaster
                                    && !x.injected
                                    && app_function(&x.bytes) == Some(ra::F_RESPONSE)
                                    && x.sent_t >= fl.deliver_at
                            }) {
                                rep.deliver_at += held;
                            }
                        }
                        if wrong_seq_noise && !*noise_done {
                            *noise_done = true;
                            // a stale response (other sequence number) reaches the master before the real one
                            let seq = app_control(&fl.bytes).unwrap_or(0) & 15;
                            let mut tseq = 33u8;
                            let stale = encode_fragment(
                                false,
                                1,
                                OUT,
                                &ra::B::response(ra::FIR | ra::FIN | ((seq + 5) & 15), false, 0, 0)
                                    .done(),
                                &mut tseq,
                            );
                            let at = pr.now();
                            pr.inject(Dir::ToMaster, at, stale);
                        }
                    }
                    (Dir::ToOutstation, Some(ra::F_WRITE))
                        if fl.bytes.len() > 13 && fl.bytes[13] == 50 =>
                    {
                        if procedure == 2 && t_first_req_sent.is_none() {
                            *t_first_req_sent = Some(fl.sent_t);
                            *t_first_req_arrived = Some(pr.now());
                        }
                        *t_write_sent = Some(fl.sent_t);
                        // g50vX count 1: [.. func g v 07 01 t48]
                        if fl.bytes.len() >= 10 + 2 + 1 + 4 + 6 + 2 {
                            // payload = frame data without CRCs: data block 1 starts at 10 (16 bytes + 2 CRC)
                            let mut data: Vec<u8> = vec![];
                            let mut i = 10;
                            while i < fl.bytes.len() {
                                let n = (fl.bytes.len() - i - 2).min(16);
                                data.extend_from_slice(&fl.bytes[i..i + n]);
                                i += n + 2;
                            }
                            // data = transport, ctrl, func, g, v, q, count, time(6)
                            if data.len() >= 13 && data[3] == 50 {
                                *written_value = Some(ra::rd48(&data[7..13]));
                            }
                        }
                    }
                    (Dir::ToMaster, Some(ra::F_RESPONSE)) => {
                        if let (Some(ts), None) = (*t_measure_sent, *measure_rtt) {
                            let ctrl = app_control(&fl.bytes).unwrap_or(0);
                            let _ = ctrl;
                            if fl.bytes.len() > 20 {
                                *measure_rtt = Some(pr.now() - ts);
                            }
                        }
                    }
                    _ => {}
                }
            },
        )
        .await;
    }
    for (t, d, fnc, bytes) in &frames {
        hist.push(format!(
            "t={t} delivered {d:?} func={fnc:?} {}",
            hexs(&bytes[..bytes.len().min(40)])
        ));
    }
    let result = pair.m.result_of(id);
    let evs = pair.o.mock.all();
    let writes: Vec<(u64, u64)> = evs
        .iter()
        .filter_map(|(t, e)| {
            if let Ev::WriteAbsTime(v) = e {
                Some((*t, *v))
            } else {
                None
            }
        })
        .collect();
    hist.push(format!("submitted t={t_submit}; result {result:?}; write_absolute_time calls {writes:?}; first request sent {t_first_req_sent:?} arrived {t_first_req_arrived:?}; write sent {t_write_sent:?} value {written_value:?}; measured rtt {measure_rtt:?}"));
    let mut violations: Vec<(String, String, String)> = vec![];
    out::eval(1);
    let Some((_, t_done, _, text)) = result else {
        // no outcome within the budget: every submitted request must resolve (covered by C16); here it leaves the scenario undecided
        out::count("A_no_outcome_within_budget", 1);
        return;
    };
    let ok = text.starts_with("Ok");
    // the true master clock at a virtual instant (None when it would have wrapped)
    let mclock = |t: u64| -> Option<u64> {
        if base + t <= MAX48 {
            Some(base + t)
        } else {
            None
        }
    };
    // ---- conditions under which the property demands a failure
    let mut must_fail: Vec<&str> = vec![];
    if no_time {
        must_fail.push("master has no time");
    }
    if procedure == 1 && p > f + held + b {
        must_fail.push("reported processing delay exceeds the round trip");
    }
    if keep_need_time && !app_rejects {
        must_fail.push("NEED_TIME still indicated afterwards");
    }
    if app_rejects {
        must_fail.push("outstation rejected the write");
    }
    // 48-bit overflow of the value that has to be written / applied
    let _ = (t_done, t_read);
    // the instant at which the master really read its clock (other tasks may have delayed the procedure)
    let t_read_actual: Option<u64> = if procedure == 1 {
        t_write_sent
    } else {
        t_first_req_sent
    };
    let read_fits = t_read_actual.map(|t| mclock(t).is_some()).unwrap_or(false);
    let clock_wrapped = writes
        .first()
        .map(|w| mclock(w.0).is_none())
        .unwrap_or(false)
        || !read_fits;
    // the value the procedure has to write / apply, computed from what was observed on the wire
    let value_due: Option<u128> = match (procedure, t_read_actual) {
        (1, Some(t)) => {
            measure_rtt.map(|rtt| base as u128 + t as u128 + (rtt.saturating_sub(p) / 2) as u128)
        }
        (0, Some(t)) => match (t_first_req_arrived, t_write_sent) {
            (Some(arr), Some(ws)) => Some(base as u128 + t as u128 + (ws + f - arr) as u128),
            _ => None,
        },
        (_, Some(t)) => Some(base as u128 + t as u128),
        _ => None,
    };
    if read_fits && value_due.map(|v| v > MAX48 as u128).unwrap_or(false) {
        must_fail.push("written time does not fit 48 bits");
    }
    if !no_time && !clock_wrapped {
        // nothing here: handled by the exactness rule below
    }
    if ok {
        if !must_fail.is_empty() {
            violations.push((
                "A_success_despite".into(),
                must_fail[0].replace(' ', "-"),
                format!("synchronize_time reported Ok although: {must_fail:?}"),
            ));
        }
        if writes.len() != 1 {
            violations.push(("A_success_without_write".into(), format!("{}", writes.len().min(2)), format!("synchronize_time reported Ok but the outstation application saw {} write_absolute_time calls", writes.len())));
        } else if clock_wrapped {
            out::count("A_skipped_master_clock_wrapped", 1);
        } else {
            let (t_w, v) = writes[0];
            let truth = base + t_w;
            let err = truth as i128 - v as i128;
            let bound: u64 = match procedure {
                0 | 2 => f,
                _ => {
                    if f >= b {
                        f - b
                    } else {
                        b - f
                    }
                }
            };
            // with a dishonestly short processing time the master's estimate is off by the lie; the property speaks of honest reports
            if procedure == 1 && dishonest {
                out::count("A_dishonest_success_not_judged", 1);
            } else if err.unsigned_abs() > bound as u128 {
                violations.push(("A_accuracy".into(), format!("proc{procedure}-{}", if err > 0 { "behind" } else { "ahead" }), format!("outstation clock set to {v} at t={t_w} when the master's clock was {truth}: error {err} ms exceeds the bound {bound} ms (f={f} b={b} p={p})")));
            } else {
                out::count("A_accuracy_within_bound_ok", 1);
                out::count(&format!("A_accuracy_ok_proc{procedure}"), 1);
                if bound == 0 {
                    out::count("A_exact_when_symmetric_ok", 1);
                }
                if p > 0 && procedure == 1 {
                    out::count("A_accuracy_ok_with_processing_delay", 1);
                }
                if f.max(b) > 65_535 {
                    out::count("A_accuracy_ok_delay_beyond_16_bits", 1);
                }
            }
            if v > MAX48 {
                violations.push((
                    "A_value_beyond_48_bits".into(),
                    "value".into(),
                    format!("value {v} handed to the application does not fit 48 bits"),
                ));
            }
        }
    } else {
        out::count("A_reported_failed", 1);
        if must_fail.is_empty() && !clock_wrapped {
            // not demanded by the property (it only constrains successes) but recorded: an always-failing implementation must not pass vacuously
            out::count("A_failed_without_listed_cause", 1);
            out::distinct(&format!(
                "fail-no-cause:{}",
                text.chars().take(40).collect::<String>()
            ));
        } else {
            out::count("A_failed_as_demanded_ok", 1);
            for c in &must_fail {
                out::count(&format!("A_failed_ok:{}", c.replace(' ', "_")), 1);
            }
        }
        // a failed synchronisation that nevertheless set the clock wrongly is not excluded by the property; not judged
    }
    if ok && read_fits && value_due.map(|v| v + 2000 > MAX48 as u128).unwrap_or(false) {
        out::count("A_ok_just_below_48_bit_limit", 1);
    }
    finish(
        a,
        idx,
        "A",
        &violations,
        &hist,
        format!(
            "proc{procedure}/f{}/b{}/p{}/sym{}/fail{}",
            mag(f),
            mag(b),
            mag(p),
            symmetric as u8,
            must_fail.len().min(2)
        ),
    );
}

fn mag(x: u64) -> u32 {
    if x == 0 {
        0
    } else {
        64 - x.leading_zeros()
    }
}

fn finish(
    a: &ShardArgs,
    idx: u64,
    part: &str,
    violations: &[(String, String, String)],
    hist: &[String],
    distinct: String,
) {
    for (rule, sig, why) in violations {
        out::violation(
            P,
            &format!("C18.{rule}"),
            sig,
            J::obj(vec![
                ("why", J::s(why.clone())),
                ("history", J::arr(hist.iter().cloned())),
            ]),
            replay_j(a, idx),
        );
    }
    out::distinct(&format!("{part}/{distinct}"));
    for p in crate::verif::util::take_panics() {
        out::violation(
            P,
            "C18.panic",
            &crate::verif::util::norm_location(&p.location),
            J::obj(vec![
                (
                    "why",
                    J::s(format!("panic {} at {}", p.message, p.location)),
                ),
                ("history", J::arr(hist.iter().cloned())),
            ]),
            replay_j(a, idx),
        );
    }
    if a.replay.is_some() {
        for h in hist {
            eprintln!("HIST {h}");
        }
    }
    if out::sample_count() < 2 {
        out::sample(J::obj(vec![("history", J::arr(hist.iter().cloned()))]));
    }
}

/// Part B: scripted outstation, hostile replies
async fn scripted(a: &ShardArgs, idx: u64) {
    let mut r = a.rng(&format!("c18b/{idx}"));
    let procedure = r.below(3) as u8;
    let mut mc = MasterCfg::default();
    mc.decode = r.usize_below(108);
    let mut ac = AssocCfg::quiet(OUT);
    ac.response_timeout_ms = 5000;
    let mut sim = MasterSim::start(mc, &[ac]).await;
    let rtt = r.range(0, 3000);
    let base: u64 = match r.below(4) {
        // the clock still fits 48 bits when the reply to DELAY_MEASURE arrives; clock + propagation delay may not
        0 | 1 => MAX48 - rtt - r.range(0, rtt / 2 + 3),
        2 => r.range(0, 1000),
        _ => 1_700_000_000_000,
    };
    sim.set_time_base(Some(base));
    // which step is attacked and how
    let attack = r.below(9);
    let mut hist = vec![format!(
        "procedure={procedure} base={base} rtt={rtt} attack={attack}"
    )];
    let id = sim.submit(0, UserReq::TimeSync(procedure));
    settle().await;
    let mut must_fail: Option<&str> = None;
    let mut write_seen: Vec<(u64, u64)> = vec![]; // (t, value)
    let mut steps = 0;
    while sim.result_of(id).is_none() && steps < 6 {
        steps += 1;
        let rx = sim.collect();
        let reqs = requests(&rx);
        let Some((_, t, _, rq)) = reqs
            .into_iter()
            .find(|x| !(x.3.len() == 2 && x.3[1] == ra::F_CONFIRM))
        else {
            sim.advance(100).await;
            continue;
        };
        let seq = rq[0] & 15;
        let func = rq[1];
        hist.push(format!("t={t} -> {}", hexs(&rq)));
        sim.advance(rtt).await;
        // (a reply may ask to be confirmed: that changes nothing about what it says)
        let con = if r.chance(1, 3) { ra::CON } else { 0 };
        if con != 0 {
            out::count("B_replies_asking_for_confirmation", 1);
        }
        let head = |iin1: u8, iin2: u8| ra::B::response(ra::FIR | ra::FIN | con | seq, false, iin1, iin2);
        let reply: Vec<u8> = match func {
            ra::F_DELAY_MEASURE => match attack {
                0 => {
                    // processing delay larger than the whole round trip
                    let p = (rtt + 1 + r.below(1000)).min(65_535) as u16;
                    if (p as u64) > rtt {
                        must_fail = Some("reported processing delay exceeds the round trip");
                    }
                    head(0, 0).count8(52, 2, 1, &p.to_le_bytes()).done()
                }
                1 => {
                    must_fail = Some("unexpected objects");
                    match r.below(5) {
                        0 => head(0, 0).done(),
                        1 => head(0, 0).count8(52, 1, 1, &[1, 0]).done(),
                        2 => head(0, 0).count8(52, 2, 2, &[1, 0, 2, 0]).done(),
                        3 => head(0, 0)
                            .count8(52, 2, 1, &[1, 0])
                            .count8(52, 2, 1, &[1, 0])
                            .done(),
                        _ => head(0, 0).count8(50, 1, 1, &[1, 2, 3, 4, 5, 6]).done(),
                    }
                }
                _ => {
                    let p = r.range(0, rtt) as u16;
                    // overflow: now + propagation beyond 48 bits
                    let prop = (rtt - p as u64) / 2;
                    if base + sim.now() <= MAX48 && base + sim.now() + prop > MAX48 {
                        must_fail = Some("written time does not fit 48 bits");
                    }
                    head(0, 0).count8(52, 2, 1, &p.to_le_bytes()).done()
                }
            },
            ra::F_RECORD_CURRENT_TIME => match attack {
                1 => {
                    must_fail = Some("unexpected objects");
                    head(0, 0).count8(52, 2, 1, &[1, 0]).done()
                }
                _ => head(0, 0).done(),
            },
            ra::F_WRITE => {
                if rq.len() >= 11 && rq[2] == 50 {
                    write_seen.push((t, ra::rd48(&rq[5..11])));
                }
                match attack {
                    2 => {
                        must_fail = Some("NEED_TIME still indicated afterwards");
                        head(ra::IIN1_NEED_TIME, 0).done()
                    }
                    3 => {
                        must_fail = Some("unexpected objects");
                        head(0, 0).count8(52, 2, 1, &[0, 0]).done()
                    }
                    4 => {
                        must_fail = Some("outstation rejected the write");
                        head(
                            0,
                            *r.pick(&[
                                ra::IIN2_PARAM_ERROR,
                                ra::IIN2_NO_FUNC,
                                ra::IIN2_OBJECT_UNKNOWN,
                            ]),
                        )
                        .done()
                    }
                    _ => head(0, 0).done(),
                }
            }
            _ => head(0, ra::IIN2_NO_FUNC).done(),
        };
        hist.push(format!("t={} <- {}", sim.now(), hexs(&reply)));
        sim.send_from(OUT, &reply);
        settle().await;
    }
    sim.advance(6000).await;
    let mut violations: Vec<(String, String, String)> = vec![];
    out::eval(1);
    let Some((_, _, _, text)) = sim.result_of(id) else {
        out::count("B_no_outcome_within_budget", 1);
        return;
    };
    hist.push(format!("result {text}; writes {write_seen:?}"));
    let ok = text.starts_with("Ok");
    if let Some(c) = must_fail {
        if ok {
            violations.push((
                "B_success_despite".into(),
                c.replace(' ', "-"),
                format!("synchronize_time reported Ok although: {c}"),
            ));
        } else {
            out::count("B_failed_as_demanded_ok", 1);
            out::count(&format!("B_failed_ok:{}", c.replace(' ', "_")), 1);
        }
    } else if ok {
        out::count("B_success_on_benign_script_ok", 1);
    } else {
        out::count("B_failed_without_listed_cause", 1);
    }
    // a written value never exceeds 48 bits and, for the direct and LAN procedures, is the master clock at the instant the procedure's first request left
    for (_, v) in &write_seen {
        if *v > MAX48 {
            violations.push((
                "B_value_beyond_48_bits".into(),
                "value".into(),
                format!("WRITE carries {v}"),
            ));
        }
    }
    // after unexpected objects in the first step no WRITE may follow
    if must_fail == Some("unexpected objects")
        && procedure != 2
        && attack == 1
        && !write_seen.is_empty()
    {
        violations.push((
            "B_write_after_bad_reply".into(),
            format!("proc{procedure}"),
            "the time was written although the preceding step was answered with unexpected objects"
                .into(),
        ));
    }
    finish(
        a,
        idx,
        "B",
        &violations,
        &hist,
        format!(
            "proc{procedure}/attack{attack}/fail{}",
            must_fail.is_some() as u8
        ),
    );
}

/// Part C: real outstation against a scripted master (outstation-side rules)
async fn outstation_side(a: &ShardArgs, idx: u64) {
    let mut r = a.rng(&format!("c18c/{idx}"));
    let mut oc = OutCfg::default();
    oc.decode = r.usize_below(108);
    let mut sim = OutSim::start(oc).await;
    let mut hist: Vec<String> = vec![];
    let mut violations: Vec<(String, String, String)> = vec![];
    let mut seq = r.below(16) as u8;
    // model: instant of the last RECORD_CURRENT_TIME that has not been consumed
    let mut recorded_at: Option<u64> = None;
    for _ in 0..r.range(2, 10) {
        seq = (seq + 1) & 15;
        let gap = pick_delay(&mut r).min(70_000);
        sim.advance(gap).await;
        let now = sim.now();
        let _ = sim.mock.take();
        match r.below(4) {
            0 => {
                let rx = sim
                    .request(&ra::B::request(ra::F_RECORD_CURRENT_TIME, seq).done())
                    .await;
                let ok = rx
                    .iter()
                    .filter_map(|x| x.fragment())
                    .any(|f| f.len() == 4 && f[3] & ra::IIN2_ERRORS == 0);
                hist.push(format!("t={now} RECORD_CURRENT_TIME -> ok={ok}"));
                if ok {
                    recorded_at = Some(now);
                }
            }
            1 => {
                // WRITE g50v3
                let v: u64 = match (r.below(7), recorded_at) {
                    (0, _) => MAX48 - r.range(0, 80_000),
                    (1, _) => MAX48,
                    (2, _) => 0,
                    // the sum lands exactly on the last 48-bit value, or one beyond it
                    (3, Some(t0)) | (4, Some(t0)) => MAX48.saturating_sub(now - t0),
                    (5, Some(t0)) => MAX48.saturating_sub(now - t0).saturating_add(1).min(MAX48),
                    _ => r.u64() & (MAX48 >> 1),
                };
                // a fraction of a millisecond more has elapsed when the WRITE arrives (whole milliseconds are what counts)
                let frac_us = if r.bool() { r.range(1, 999) } else { 0 };
                if frac_us > 0 {
                    tokio::time::advance(std::time::Duration::from_micros(frac_us)).await;
                    out::count("C_sub_millisecond_elapsed", 1);
                }
                let rx = sim
                    .request(
                        &ra::B::request(ra::F_WRITE, seq)
                            .count8(50, 3, 1, &ra::time48(v))
                            .done(),
                    )
                    .await;
                if frac_us > 0 {
                    // back onto the millisecond grid
                    tokio::time::advance(std::time::Duration::from_micros(1000 - frac_us)).await;
                }
                let frag = rx
                    .iter()
                    .filter_map(|x| x.fragment())
                    .next()
                    .map(|f| f.to_vec())
                    .unwrap_or_default();
                let accepted = frag.len() >= 4 && frag[3] & ra::IIN2_ERRORS == 0;
                let calls: Vec<u64> = sim
                    .mock
                    .take()
                    .iter()
                    .filter_map(|(_, e)| {
                        if let Ev::WriteAbsTime(v) = e {
                            Some(*v)
                        } else {
                            None
                        }
                    })
                    .collect();
                hist.push(format!("t={now} WRITE g50v3 {v} -> accepted={accepted} calls={calls:?} (recorded_at {recorded_at:?})"));
                match recorded_at {
                    None => {
                        if accepted || !calls.is_empty() {
                            violations.push(("C_write_without_record".into(), "g50v3".into(), format!("t={now}: WRITE g50v3 without a preceding RECORD_CURRENT_TIME was accepted={accepted}, application calls {calls:?}")));
                        } else {
                            out::count("C_write_without_record_rejected_ok", 1);
                        }
                    }
                    Some(t0) => {
                        let want = v as u128 + (now - t0) as u128;
                        if want > MAX48 as u128 {
                            if accepted || !calls.is_empty() {
                                violations.push(("C_overflow_accepted".into(), "g50v3".into(), format!("t={now}: recorded time {v} + elapsed {} exceeds 48 bits but accepted={accepted}, calls {calls:?}", now - t0)));
                            } else {
                                out::count("C_overflow_rejected_ok", 1);
                            }
                            // the record is not consumed by a rejected write? either way the next write needs care: forget it in the model only if the implementation consumed it -> do not judge the next write
                            recorded_at = None;
                            // resynchronise the model: a fresh record follows before the next judged write
                            seq = (seq + 1) & 15;
                            let _ = sim
                                .request(&ra::B::request(ra::F_RECORD_CURRENT_TIME, seq).done())
                                .await;
                            recorded_at = Some(sim.now());
                        } else if calls != vec![want as u64] || !accepted {
                            violations.push(("C_elapsed_not_added".into(), "g50v3".into(), format!("t={now}: recorded {v} at t={t0}; expected write_absolute_time({want}) and acceptance, got calls {calls:?} accepted={accepted}")));
                            recorded_at = None;
                        } else {
                            out::count("C_recorded_plus_elapsed_ok", 1);
                            if want == MAX48 as u128 {
                                out::count("C_sum_exactly_at_48_bit_limit_ok", 1);
                            }
                            if now - t0 > 65_535 {
                                out::count("C_elapsed_beyond_16_bits_ok", 1);
                            }
                            recorded_at = None;
                        }
                    }
                }
            }
            2 => {
                // WRITE g50v1 (direct): value goes to the application unchanged
                let v = r.u64() & MAX48;
                let rx = sim
                    .request(
                        &ra::B::request(ra::F_WRITE, seq)
                            .count8(50, 1, 1, &ra::time48(v))
                            .done(),
                    )
                    .await;
                let frag = rx
                    .iter()
                    .filter_map(|x| x.fragment())
                    .next()
                    .map(|f| f.to_vec())
                    .unwrap_or_default();
                let accepted = frag.len() >= 4 && frag[3] & ra::IIN2_ERRORS == 0;
                let calls: Vec<u64> = sim
                    .mock
                    .take()
                    .iter()
                    .filter_map(|(_, e)| {
                        if let Ev::WriteAbsTime(v) = e {
                            Some(*v)
                        } else {
                            None
                        }
                    })
                    .collect();
                hist.push(format!(
                    "t={now} WRITE g50v1 {v} -> accepted={accepted} calls={calls:?}"
                ));
                if calls != vec![v] || !accepted {
                    violations.push((
                        "C_direct_write".into(),
                        "g50v1".into(),
                        format!("WRITE g50v1 {v}: calls {calls:?} accepted={accepted}"),
                    ));
                } else {
                    out::count("C_direct_write_ok", 1);
                }
            }
            _ => {
                // DELAY_MEASURE reports the application's processing delay
                let p = r.below(65_536) as u16;
                sim.mock.script(|s| s.processing_delay = p);
                let rx = sim
                    .request(&ra::B::request(ra::F_DELAY_MEASURE, seq).done())
                    .await;
                let frag = rx
                    .iter()
                    .filter_map(|x| x.fragment())
                    .next()
                    .map(|f| f.to_vec())
                    .unwrap_or_default();
                let want = ra::B::response(ra::FIR | ra::FIN | seq, false, 0, 0)
                    .count8(52, 2, 1, &p.to_le_bytes())
                    .done();
                hist.push(format!("t={now} DELAY_MEASURE p={p} -> {}", hexs(&frag)));
                if frag.len() != want.len() || frag[4..] != want[4..] {
                    violations.push((
                        "C_delay_measure".into(),
                        "g52v2".into(),
                        format!(
                            "DELAY_MEASURE with processing delay {p}: reply {}",
                            hexs(&frag)
                        ),
                    ));
                } else {
                    out::count("C_delay_measure_ok", 1);
                }
            }
        }
    }
    out::eval(1);
    finish(a, idx, "C", &violations, &hist, "outstation".into());
}

pub fn run(a: &ShardArgs) -> Result<(), String> {
    let only: Option<u64> = a
        .replay
        .as_ref()
        .and_then(|p| super::common::replay_scenario(p));
    let n = a.n(6000);
    for idx in 0..n {
        if idx % a.nshards != a.shard {
            continue;
        }
        if let Some(o) = only {
            if o != idx {
                continue;
            }
        }
        out::progress(&format!("scenario {idx}"));
        match idx % 4 {
            0 | 1 => run_scenario(paired(a, idx)),
            2 => run_scenario(scripted(a, idx)),
            _ => run_scenario(outstation_side(a, idx)),
        }
    }
    Ok(())
}
