//! C08 — the transport layer delivers exactly the fragments that were segmented.
//! Engine E2: real `transport::real::{Writer, Reader}` (with the real link Layer
//! underneath) over the in-memory pipe; oracles: reference segmenter/de-framer
//! and two model-independent rules over uniquely tagged segments.

use crate::app::EndpointType;
use crate::link::reader::LinkModes;
use crate::link::{EndpointAddress, LinkErrorMode, LinkReadMode};
use crate::outstation::Feature;
use crate::transport::real::reader::Reader;
use crate::transport::real::writer::Writer;
use crate::transport::{FragmentAddr, TransportData};
use crate::util::phys::PhysAddr;
use crate::verif::checks::common::*;
use crate::verif::io;
use crate::verif::out::{self, J};
use crate::verif::refcodec::link as rl;
use crate::verif::refcodec::transport as rt;
use crate::verif::rng::Rng;
use crate::verif::util::{hex, poll_once};
use crate::verif::ShardArgs;
use std::task::Poll;

const P: &str = "C08";

#[derive(Clone, Debug, PartialEq, Eq)]
pub struct Got {
    pub source: u16,
    pub broadcast: u16,
    /// emulated UDP source port (0 = stream transport)
    pub port: u16,
    pub data: Vec<u8>,
}

pub struct ReadResult {
    pub fragments: Vec<Got>,
    pub link_msgs: usize,
    pub error: Option<String>,
    pub tx: Vec<u8>,
}

fn modes(discard: bool) -> LinkModes {
    LinkModes {
        error_mode: if discard {
            LinkErrorMode::Discard
        } else {
            LinkErrorMode::Close
        },
        read_mode: LinkReadMode::Stream,
    }
}

fn phys_port(p: PhysAddr) -> u16 {
    match p {
        PhysAddr::None => 0,
        PhysAddr::Udp(a) => a.port(),
    }
}

/// datagram variant: every element is one datagram from an emulated UDP port
pub fn run_reader_dgram(
    outstation: bool,
    local: u16,
    rx: usize,
    dgrams: &[(Vec<u8>, u16)],
    discard: bool,
    lvl: usize,
) -> ReadResult {
    run_reader_impl(outstation, local, rx, &[], dgrams, discard, lvl)
}

/// feed chunks to a fresh library transport Reader, pop everything it delivers
pub fn run_reader(
    outstation: bool,
    local: u16,
    rx: usize,
    chunks: &[Vec<u8>],
    discard: bool,
    lvl: usize,
) -> ReadResult {
    run_reader_impl(outstation, local, rx, chunks, &[], discard, lvl)
}

fn run_reader_impl(
    outstation: bool,
    local: u16,
    rx: usize,
    chunks: &[Vec<u8>],
    dgrams: &[(Vec<u8>, u16)],
    discard: bool,
    lvl: usize,
) -> ReadResult {
    let (pipe, mut phys) = io::phys_pipe(None);
    for c in chunks {
        pipe.push(c);
    }
    for (d, port) in dgrams {
        pipe.push_from(d, *port);
    }
    let addr = EndpointAddress::try_new(local).unwrap();
    let mut m = modes(discard);
    if !dgrams.is_empty() {
        m.read_mode = LinkReadMode::Datagram;
    }
    let mut reader = if outstation {
        Reader::outstation(m, addr, Feature::Disabled, rx)
    } else {
        Reader::master(m, addr, rx)
    };
    let level = decode_level(lvl);
    let mut res = ReadResult {
        fragments: vec![],
        link_msgs: 0,
        error: None,
        tx: vec![],
    };
    loop {
        let r = {
            let mut fut = std::pin::pin!(reader.read(&mut phys, level));
            poll_once(fut.as_mut())
        };
        match r {
            Poll::Pending => break,
            Poll::Ready(Err(e)) => {
                res.error = Some(format!("{e:?}"));
                break;
            }
            Poll::Ready(Ok(())) => {
                // peek must agree with pop
                let peeked = match reader.peek() {
                    Some(TransportData::Fragment(f)) => Some(f.data.to_vec()),
                    _ => None,
                };
                match reader.pop() {
                    Some(TransportData::Fragment(f)) => {
                        if peeked.as_deref() != Some(f.data) {
                            res.error = Some("peek/pop disagree".into());
                        }
                        res.fragments.push(Got {
                            source: f.info.addr.link.raw_value(),
                            broadcast: f.info.broadcast.map(|m| m.address()).unwrap_or(0),
                            port: phys_port(f.info.addr.phys),
                            data: f.data.to_vec(),
                        });
                    }
                    Some(TransportData::LinkLayerMessage(_)) => res.link_msgs += 1,
                    None => {
                        res.error = Some("read returned Ok but nothing to pop".into());
                        break;
                    }
                }
            }
        }
    }
    res.tx = pipe.all_tx().into_iter().flat_map(|t| t.bytes).collect();
    res
}

/// one library transport Reader across several sessions: `reset()` is called between them, as the session layer does
/// when a connection ends; returns what each session delivered
pub fn run_reader_sessions(
    outstation: bool,
    local: u16,
    rx: usize,
    sessions: &[Vec<Vec<u8>>],
    discard: bool,
    lvl: usize,
) -> Vec<ReadResult> {
    let addr = EndpointAddress::try_new(local).unwrap();
    let m = modes(discard);
    let mut reader = if outstation {
        Reader::outstation(m, addr, Feature::Disabled, rx)
    } else {
        Reader::master(m, addr, rx)
    };
    let level = decode_level(lvl);
    let mut all = vec![];
    for chunks in sessions {
        // a new connection is a new physical layer
        let (pipe, mut phys) = io::phys_pipe(None);
        for c in chunks {
            pipe.push(c);
        }
        let mut res = ReadResult {
            fragments: vec![],
            link_msgs: 0,
            error: None,
            tx: vec![],
        };
        loop {
            let r = {
                let mut fut = std::pin::pin!(reader.read(&mut phys, level));
                poll_once(fut.as_mut())
            };
            match r {
                Poll::Pending => break,
                Poll::Ready(Err(e)) => {
                    res.error = Some(format!("{e:?}"));
                    break;
                }
                Poll::Ready(Ok(())) => match reader.pop() {
                    Some(TransportData::Fragment(f)) => res.fragments.push(Got {
                        source: f.info.addr.link.raw_value(),
                        broadcast: f.info.broadcast.map(|m| m.address()).unwrap_or(0),
                        port: phys_port(f.info.addr.phys),
                        data: f.data.to_vec(),
                    }),
                    Some(TransportData::LinkLayerMessage(_)) => res.link_msgs += 1,
                    None => {
                        res.error = Some("read returned Ok but nothing to pop".into());
                        break;
                    }
                },
            }
        }
        all.push(res);
        reader.reset();
    }
    all
}

/// run the library Writer, return the bytes it put on the wire
pub fn run_writer(
    w: &mut Writer,
    dest: u16,
    fragment: &[u8],
    lvl: usize,
) -> Result<Vec<u8>, String> {
    let (pipe, mut phys) = io::phys_pipe(None);
    let dest = FragmentAddr {
        link: EndpointAddress::try_new(dest).unwrap(),
        phys: PhysAddr::None,
    };
    let r = {
        let mut fut = std::pin::pin!(w.write(&mut phys, decode_level(lvl), dest, fragment));
        poll_once(fut.as_mut())
    };
    match r {
        Poll::Ready(Ok(())) => Ok(pipe.all_tx().into_iter().flat_map(|t| t.bytes).collect()),
        Poll::Ready(Err(e)) => Err(format!("{e:?}")),
        Poll::Pending => Err("writer pending".into()),
    }
}

fn viol(a: &ShardArgs, rule: &str, sig: &str, detail: J) {
    out::violation(
        P,
        &format!("C08.{rule}"),
        sig,
        detail,
        J::obj(vec![
            ("check", J::s("c08")),
            ("seed", J::U(a.seed)),
            ("shard", J::U(a.shard)),
            ("nshards", J::U(a.nshards)),
        ]),
    );
}

#[derive(Clone, Debug)]
struct Seg {
    port: u16,
    src: u16,
    dest: u16,
    hdr: u8,
    data: Vec<u8>,
    /// not a data segment (link status request) or zero payload
    kind: u8, // 0 data, 1 link status request, 2 empty data frame
}

impl Seg {
    fn frame(&self, from_master: bool) -> Vec<u8> {
        let dir = if from_master { 0x80 } else { 0 };
        match self.kind {
            1 => rl::Frame::new(0x49 | dir, self.dest, self.src, &[]).encode(),
            2 => rl::Frame::new(0x44 | dir, self.dest, self.src, &[]).encode(),
            _ => {
                let mut p = vec![self.hdr];
                p.extend_from_slice(&self.data);
                rl::Frame::new(0x44 | dir, self.dest, self.src, &p).encode()
            }
        }
    }
    fn fir(&self) -> bool {
        self.hdr & rt::FIR != 0
    }
    fn fin(&self) -> bool {
        self.hdr & rt::FIN != 0
    }
    fn seq(&self) -> u8 {
        self.hdr & 0x3F
    }
    fn bc(&self) -> u16 {
        if self.dest >= 0xFFFD {
            self.dest
        } else {
            0
        }
    }
}

/// does `got` have an explanation as a well-formed run of injected segments?
fn explain(segs: &[Seg], got: &Got, max: usize) -> bool {
    if got.data.len() > max {
        return false;
    }
    'start: for s in 0..segs.len() {
        let f = &segs[s];
        if f.kind != 0
            || !f.fir()
            || f.src != got.source
            || f.bc() != got.broadcast
            || f.port != got.port
        {
            continue;
        }
        if !got.data.starts_with(&f.data) {
            continue;
        }
        let mut pos = f.data.len();
        let mut seq = f.seq();
        let mut last_fin = f.fin();
        let mut j = s;
        loop {
            if last_fin {
                if pos == got.data.len() {
                    return true;
                }
                continue 'start;
            }
            // find the next segment continuing the run
            let mut found = false;
            for k in (j + 1)..segs.len() {
                let g = &segs[k];
                if g.kind == 0
                    && !g.fir()
                    && g.src == got.source
                    && g.port == got.port
                    && g.bc() == got.broadcast
                    && g.seq() == (seq + 1) & 0x3F
                    && got.data[pos..].starts_with(&g.data)
                {
                    pos += g.data.len();
                    seq = g.seq();
                    last_fin = g.fin();
                    j = k;
                    found = true;
                    break;
                }
            }
            if !found {
                continue 'start;
            }
        }
    }
    false
}

/// clean contiguous runs present in the stream (model independent completeness obligation)
fn clean_runs(segs: &[Seg], max: usize) -> Vec<Got> {
    let mut out = vec![];
    let mut i = 0;
    while i < segs.len() {
        let f = &segs[i];
        if f.kind == 0 && f.fir() {
            let mut data = f.data.clone();
            let mut seq = f.seq();
            let mut ok = true;
            let mut j = i;
            let mut fin = f.fin();
            while !fin {
                // next adjacent frame, link status requests / empty frames may be interleaved
                let mut k = j + 1;
                while k < segs.len() && segs[k].kind != 0 {
                    k += 1;
                }
                if k >= segs.len() {
                    ok = false;
                    break;
                }
                let g = &segs[k];
                if g.fir()
                    || g.src != f.src
                    || g.port != f.port
                    || g.bc() != f.bc()
                    || g.dest != f.dest
                    || g.seq() != (seq + 1) & 0x3F
                {
                    ok = false;
                    break;
                }
                data.extend_from_slice(&g.data);
                seq = g.seq();
                fin = g.fin();
                j = k;
            }
            let single = j == i;
            if ok && data.len() <= max && (f.bc() == 0 || single) {
                out.push(Got {
                    source: f.src,
                    broadcast: f.bc(),
                    port: f.port,
                    data,
                });
            }
        }
        i += 1;
    }
    out
}

fn tagged(r: &mut Rng, n: usize) -> Vec<u8> {
    // random bytes are unique with overwhelming probability for n>=6
    r.bytes(n)
}

pub fn run(a: &ShardArgs) -> Result<(), String> {
    let mut r = a.rng("c08");
    const MASTER: u16 = 1;
    const OUT: u16 = 1024;

    // ------------------------------------------------------------ part A+C
    // every fragment length 1..=2048 (sharded) through Writer -> wire -> Reader
    let mut w_master = Writer::new(
        EndpointType::Master,
        EndpointAddress::try_new(MASTER).unwrap(),
    );
    let mut expect_seq: u8 = 0;
    let mut len = 1usize;
    let maxlen = 2048 + 251;
    while len <= maxlen {
        let mine = (len as u64) % a.nshards == a.shard;
        if mine {
            if len % 64 == 0 {
                out::progress(&format!("A len={len}"));
            }
            let frag = tagged(&mut r, len);
            // occasionally reset the writer: sequence must restart at 0
            if r.chance(1, 20) {
                w_master.reset();
                expect_seq = 0;
                out::count("writer_resets", 1);
            }
            let lvl = r.usize_below(NUM_DECODE_LEVELS);
            let wire = run_writer(&mut w_master, OUT, &frag, lvl)?;
            out::eval(1);
            // (c) decode with the reference
            let scan = rl::scan_close(&wire);
            let nseg = (len + 248) / 249;
            let mut ok =
                scan.error.is_none() && scan.stop == wire.len() && scan.frames.len() == nseg;
            let mut rebuilt = vec![];
            let mut why = String::new();
            if ok {
                for (i, (_, f)) in scan.frames.iter().enumerate() {
                    if f.ctrl != 0xC4 || f.dest != OUT || f.src != MASTER || f.payload.is_empty() {
                        ok = false;
                        why = format!(
                            "frame {i} header ctrl={:#x} dest={} src={}",
                            f.ctrl, f.dest, f.src
                        );
                        break;
                    }
                    let h = f.payload[0];
                    let want = rt::header(
                        i + 1 == nseg,
                        i == 0,
                        expect_seq.wrapping_add(i as u8) & 0x3F,
                    );
                    if h != want {
                        ok = false;
                        why = format!("segment {i} of {nseg}: transport header {h:#04x}, expected {want:#04x}");
                        break;
                    }
                    if i + 1 < nseg && f.payload.len() != 250 {
                        ok = false;
                        why = format!(
                            "non-final segment {i} carries {} bytes",
                            f.payload.len() - 1
                        );
                        break;
                    }
                    rebuilt.extend_from_slice(&f.payload[1..]);
                }
                if ok && rebuilt != frag {
                    ok = false;
                    why = "reassembled bytes differ".into();
                }
            } else {
                why = format!(
                    "wire not a clean sequence of {nseg} frames: {} found, error {:?}",
                    scan.frames.len(),
                    scan.error
                );
            }
            expect_seq = expect_seq.wrapping_add(nseg as u8) & 0x3F;
            if !ok {
                viol(
                    a,
                    "writer",
                    &format!(
                        "writer|len%249={}",
                        if len % 249 == 0 {
                            "0"
                        } else if len % 249 == 1 {
                            "1"
                        } else {
                            "n"
                        }
                    ),
                    J::obj(vec![
                        ("len", J::U(len as u64)),
                        ("why", J::s(why)),
                        ("wire", J::hex(&wire[..wire.len().min(600)])),
                    ]),
                );
            } else {
                out::count("writer_ok", 1);
            }
            // (a,b) feed to the library reader under several chunkings / buffer sizes
            let big = len > 2048;
            for variant in 0..3 {
                let rx = if big {
                    2048
                } else {
                    match variant {
                        0 => len.max(249),
                        1 => 2048,
                        _ => r.range(len.max(249) as u64, 2048) as usize,
                    }
                };
                // follow with a small clean fragment so that "next one is delivered" is checked too
                let tail = tagged(&mut r, 8);
                let mut stream = wire.clone();
                let mut w2 = Writer::new(
                    EndpointType::Master,
                    EndpointAddress::try_new(MASTER).unwrap(),
                );
                stream.extend(run_writer(&mut w2, OUT, &tail, 0)?);
                let (cname, chunks) = match variant {
                    0 => ("whole", vec![stream.clone()]),
                    1 => ("bytewise", split_every(&stream, 1)),
                    _ => chunking(&mut r, &stream),
                };
                let got = run_reader(
                    true,
                    OUT,
                    rx,
                    &chunks,
                    r.bool(),
                    r.usize_below(NUM_DECODE_LEVELS),
                );
                out::eval(1);
                let mut want = vec![];
                if len <= rx {
                    want.push(Got {
                        source: MASTER,
                        broadcast: 0,
                        port: 0,
                        data: frag.clone(),
                    });
                }
                want.push(Got {
                    source: MASTER,
                    broadcast: 0,
                    port: 0,
                    data: tail.clone(),
                });
                if got.fragments != want || got.error.is_some() {
                    let rule = if got.fragments.len() > want.len()
                        || got.fragments.iter().any(|g| !want.contains(g))
                    {
                        "soundness"
                    } else {
                        "completeness"
                    };
                    viol(
                        a,
                        rule,
                        &format!(
                            "{rule}|roundtrip|{}|{}",
                            if len > rx {
                                "len>rx"
                            } else if len == rx {
                                "len=rx"
                            } else {
                                "len<rx"
                            },
                            cname
                        ),
                        J::obj(vec![
                            ("len", J::U(len as u64)),
                            ("rx", J::U(rx as u64)),
                            ("chunking", J::s(cname)),
                            (
                                "delivered_lens",
                                J::arr(got.fragments.iter().map(|g| g.data.len())),
                            ),
                            ("error", J::s(format!("{:?}", got.error))),
                        ]),
                    );
                } else {
                    out::count(
                        if len > rx {
                            "oversize_dropped_next_ok"
                        } else {
                            "roundtrip_ok"
                        },
                        1,
                    );
                }
                out::distinct(&format!(
                    "A/{}/{}/{}",
                    match len % 249 {
                        0 => "k*249",
                        1 => "k*249+1",
                        248 => "k*249-1",
                        _ => "other",
                    },
                    if len > rx {
                        ">rx"
                    } else if len == rx {
                        "=rx"
                    } else {
                        "<rx"
                    },
                    cname
                ));
            }
        }
        len += 1;
    }
    // all 64 starting sequence values are covered by the running writer sequence (wraps every 64 segments)

    // ------------------------------------------------------------ part B
    // mutated segment streams
    let n = a.n(3_000);
    for it in 0..n {
        if it % 500 == 0 {
            out::progress(&format!("B it={it}"));
        }
        let outstation = r.below(5) != 0;
        let (local, peer_a, peer_b) = if outstation {
            (OUT, MASTER, 2u16)
        } else {
            (MASTER, OUT, 1025u16)
        };
        let rx = *r.pick(&[249usize, 250, 300, 498, 1000, 2048]);
        // build a few valid fragments from sender A (and sometimes B), then mutate the segment list
        let mut segs: Vec<Seg> = vec![];
        let nfrag = r.range(1, 4);
        let mut seq_a = r.below(64) as u8;
        let mut seq_b = r.below(64) as u8;
        for _ in 0..nfrag {
            let from_b = r.chance(1, 4);
            let src = if from_b { peer_b } else { peer_a };
            let dest = if outstation && r.chance(1, 8) {
                0xFFFD + r.below(3) as u16
            } else {
                local
            };
            let flen = match r.below(4) {
                0 => r.range(1, 20) as usize,
                1 => r.range(200, 260) as usize,
                2 => r.range(1, (rx + 260) as u64) as usize,
                _ => r.range(249, 800) as usize,
            };
            let frag = tagged(&mut r, flen);
            let seq = if from_b { &mut seq_b } else { &mut seq_a };
            for s in rt::segment(&frag, *seq) {
                segs.push(Seg {
                    port: 0,
                    src,
                    dest,
                    hdr: s[0],
                    data: s[1..].to_vec(),
                    kind: 0,
                });
                *seq = (*seq + 1) & 0x3F;
            }
        }
        // mutations
        let nm = r.range(0, 3);
        let mut classes = vec![];
        for _ in 0..nm {
            if segs.is_empty() {
                break;
            }
            let i = r.usize_below(segs.len());
            match r.below(11) {
                0 => {
                    segs.remove(i);
                    classes.push("drop");
                }
                1 => {
                    let s = segs[i].clone();
                    segs.insert(i, s);
                    classes.push("dup");
                }
                2 => {
                    if i + 1 < segs.len() {
                        segs.swap(i, i + 1);
                    }
                    classes.push("swap");
                }
                3 => {
                    segs[i].src = if segs[i].src == peer_a {
                        peer_b
                    } else {
                        peer_a
                    };
                    classes.push("readdr");
                }
                4 => {
                    segs[i].hdr ^= rt::FIR;
                    classes.push("fir-flip");
                }
                5 => {
                    segs[i].hdr ^= rt::FIN;
                    classes.push("fin-flip");
                }
                6 => {
                    segs[i].hdr = (segs[i].hdr & 0xC0)
                        | ((segs[i].hdr.wrapping_add(r.range(1, 63) as u8)) & 0x3F);
                    classes.push("seq-skip");
                }
                7 => {
                    segs.insert(
                        i,
                        Seg {
                            port: 0,
                            src: peer_a,
                            dest: local,
                            hdr: 0,
                            data: vec![],
                            kind: 1,
                        },
                    );
                    classes.push("linkstatus");
                }
                8 => {
                    segs.insert(
                        i,
                        Seg {
                            port: 0,
                            src: peer_a,
                            dest: local,
                            hdr: 0,
                            data: vec![],
                            kind: 2,
                        },
                    );
                    classes.push("empty-frame");
                }
                9 => {
                    // interleave a foreign single segment
                    let d = tagged(&mut r, 10);
                    segs.insert(
                        i,
                        Seg {
                            port: 0,
                            src: peer_b,
                            dest: local,
                            hdr: rt::header(r.bool(), r.bool(), r.u8()),
                            data: d,
                            kind: 0,
                        },
                    );
                    classes.push("interleave");
                }
                _ => {
                    // transport-header-only segment
                    segs.insert(
                        i,
                        Seg {
                            port: 0,
                            src: peer_a,
                            dest: local,
                            hdr: rt::header(r.bool(), r.bool(), r.u8()),
                            data: vec![],
                            kind: 0,
                        },
                    );
                    classes.push("hdr-only");
                }
            }
        }
        // final clean fragment after the damage: must be delivered intact
        let tail_len = r.range(1, rx as u64) as usize;
        let tail = tagged(&mut r, tail_len.max(6));
        let tail = if tail.len() > rx {
            tail[..rx].to_vec()
        } else {
            tail
        };
        let tseq = r.below(64) as u8;
        for s in rt::segment(&tail, tseq) {
            segs.push(Seg {
                port: 0,
                src: peer_a,
                dest: local,
                hdr: s[0],
                data: s[1..].to_vec(),
                kind: 0,
            });
        }
        // emulated UDP: one frame per datagram, ports identify the physical sender; a second
        // physical sender may share a link address with the first (only the port differs)
        let dgram = r.chance(1, 4);
        if dgram {
            let share = r.bool();
            for s in segs.iter_mut() {
                s.port = if s.src == peer_a { 5000 } else { 5001 };
                if share && s.src == peer_b {
                    s.src = peer_a;
                }
            }
            if share {
                classes.push("shared-link-addr");
            }
        }
        // master never accepts broadcasts: frames to broadcast addresses are dropped by its link layer
        let wire: Vec<u8> = segs.iter().flat_map(|s| s.frame(outstation)).collect();
        let (cname, got) = if dgram {
            let d: Vec<(Vec<u8>, u16)> =
                segs.iter().map(|s| (s.frame(outstation), s.port)).collect();
            (
                "datagrams",
                run_reader_dgram(
                    outstation,
                    local,
                    rx,
                    &d,
                    r.bool(),
                    r.usize_below(NUM_DECODE_LEVELS),
                ),
            )
        } else {
            let (cname, chunks) = chunking(&mut r, &wire);
            (
                cname,
                run_reader(
                    outstation,
                    local,
                    rx,
                    &chunks,
                    r.bool(),
                    r.usize_below(NUM_DECODE_LEVELS),
                ),
            )
        };
        out::eval(1);
        classes.sort();
        classes.dedup();
        let mclass = if classes.is_empty() {
            "none".to_string()
        } else {
            classes.join("+")
        };
        let detail = |why: &str, extra: J| {
            J::obj(vec![
                ("why", J::s(why)),
                (
                    "role",
                    J::s(if outstation { "outstation" } else { "master" }),
                ),
                ("rx", J::U(rx as u64)),
                ("mutations", J::s(mclass.clone())),
                (
                    "segments",
                    J::A(
                        segs.iter()
                            .map(|s| {
                                J::s(format!(
                                    "k{} {}->{} hdr={:02x} len={}",
                                    s.kind,
                                    s.src,
                                    s.dest,
                                    s.hdr,
                                    s.data.len()
                                ))
                            })
                            .collect(),
                    ),
                ),
                (
                    "delivered",
                    J::A(
                        got.fragments
                            .iter()
                            .map(|g| {
                                J::s(format!(
                                    "src={} bc={:#x} len={}",
                                    g.source,
                                    g.broadcast,
                                    g.data.len()
                                ))
                            })
                            .collect(),
                    ),
                ),
                ("extra", extra),
            ])
        };
        if let Some(e) = &got.error {
            viol(
                a,
                "reader_error",
                &format!("reader_error|{mclass}"),
                detail(e, J::Null),
            );
            continue;
        }
        // soundness
        let visible: Vec<Seg> = segs
            .iter()
            .filter(|s| outstation || s.bc() == 0)
            .cloned()
            .collect();
        for g in &got.fragments {
            if !explain(&visible, g, rx) {
                viol(
                    a,
                    "soundness",
                    &format!("soundness|{mclass}"),
                    detail(
                        "delivered fragment is not a well-formed run of injected segments",
                        J::hex(&g.data[..g.data.len().min(64)]),
                    ),
                );
            } else {
                out::count("delivered_explained", 1);
            }
        }
        // completeness
        let runs = clean_runs(&visible, rx);
        let mut cursor = 0usize;
        for want in &runs {
            // must appear, in order
            match got.fragments[cursor.min(got.fragments.len())..]
                .iter()
                .position(|g| g == want)
            {
                Some(p) => {
                    cursor += p + 1;
                    out::count("clean_runs_delivered", 1);
                }
                None => {
                    viol(
                        a,
                        "completeness",
                        &format!("completeness|{mclass}"),
                        detail(
                            "a contiguous well-formed run within the buffer size was not delivered",
                            J::U(want.data.len() as u64),
                        ),
                    );
                }
            }
        }
        // the tail in particular
        let tail_got = got
            .fragments
            .last()
            .map(|g| g.data == tail && g.source == peer_a)
            .unwrap_or(false);
        if dgram {
            out::count("datagram_scenarios", 1);
        }
        if tail_got {
            out::count("tail_after_damage_ok", 1);
        }
        // reference reassembler agreement (evidence only)
        let mut model = rt::Reassembler::new(rx);
        let mut mdel = vec![];
        for (i, s) in visible.iter().enumerate() {
            if s.kind == 0 {
                let mut seg = vec![s.hdr];
                seg.extend_from_slice(&s.data);
                if let Some(d) = model.feed(
                    i,
                    rt::Ident {
                        source: s.src,
                        broadcast: s.bc(),
                        port: s.port,
                    },
                    &seg,
                ) {
                    mdel.push(Got {
                        source: d.ident.source,
                        broadcast: d.ident.broadcast,
                        port: d.ident.port,
                        data: d.data,
                    });
                }
            }
        }
        if mdel == got.fragments {
            out::count("model_agrees", 1);
        } else {
            out::count("model_differs", 1);
            out::note(format!(
                "reference reassembler differs (not a violation by itself): mutations={mclass}"
            ));
        }
        out::distinct(&format!(
            "B/{}/{}/rx{}/{}",
            if outstation { "o" } else { "m" },
            mclass,
            rx,
            cname
        ));
        if out::sample_count() < 2 {
            out::sample(detail("sample scenario", J::Null));
        }
    }

    // ------------------------------------------------------------ part C
    // session boundaries: what a connection left half-assembled must not be completed by the next one
    let n = a.n(600);
    for it in 0..n {
        let outstation = r.below(4) != 0;
        let (local, peer) = if outstation { (OUT, MASTER) } else { (MASTER, OUT) };
        let rx = *r.pick(&[249usize, 498, 1000, 2048]);
        let mk = |data: &[u8], seq: u8| -> Vec<Seg> {
            rt::segment(data, seq)
                .into_iter()
                .map(|s| Seg {
                    port: 0,
                    src: peer,
                    dest: local,
                    hdr: s[0],
                    data: s[1..].to_vec(),
                    kind: 0,
                })
                .collect()
        };
        let mut seq = r.below(64) as u8;
        // session 1: optionally a complete fragment, then the first k segments of a longer one
        let mut s1: Vec<Seg> = vec![];
        let mut want1: Vec<Vec<u8>> = vec![];
        if r.bool() {
            let n0 = r.range(6, rx.min(600) as u64) as usize;
            let f0 = tagged(&mut r, n0);
            let segs = mk(&f0, seq);
            seq = (seq + segs.len() as u8) & 0x3F;
            s1.extend(segs);
            want1.push(f0);
        }
        let long_len = r.range(250, (rx.max(251)) as u64) as usize;
        let f1 = tagged(&mut r, long_len.max(250));
        let f1 = if f1.len() > rx { f1[..rx].to_vec() } else { f1 };
        let segs1 = mk(&f1, seq);
        if segs1.len() < 2 {
            continue;
        }
        let k = 1 + r.usize_below(segs1.len() - 1);
        s1.extend(segs1[..k].iter().cloned());
        // session 2: either the remainder of that fragment (same sequence numbers, no FIR) or nothing of it, then a clean fragment
        let continue_old = r.chance(3, 4);
        let mut s2: Vec<Seg> = vec![];
        if continue_old {
            s2.extend(segs1[k..].iter().cloned());
        }
        let nt = r.range(6, rx.min(700) as u64) as usize;
        let tail = tagged(&mut r, nt);
        let tseq = if r.bool() {
            (seq + segs1.len() as u8) & 0x3F
        } else {
            r.below(64) as u8
        };
        s2.extend(mk(&tail, tseq));
        let wire = |v: &Vec<Seg>| -> Vec<u8> { v.iter().flat_map(|s| s.frame(outstation)).collect() };
        let (w1, w2) = (wire(&s1), wire(&s2));
        let (c1name, c1) = chunking(&mut r, &w1);
        let (_, c2) = chunking(&mut r, &w2);
        let res = run_reader_sessions(
            outstation,
            local,
            rx,
            &[c1, c2],
            r.bool(),
            r.usize_below(NUM_DECODE_LEVELS),
        );
        out::eval(1);
        let got1: Vec<Vec<u8>> = res[0].fragments.iter().map(|g| g.data.clone()).collect();
        let got2: Vec<Vec<u8>> = res[1].fragments.iter().map(|g| g.data.clone()).collect();
        let detail = |why: &str| {
            J::obj(vec![
                ("why", J::s(why)),
                ("role", J::s(if outstation { "outstation" } else { "master" })),
                ("rx", J::U(rx as u64)),
                ("cut_after_segment", J::U(k as u64)),
                ("segments_of_cut_fragment", J::U(segs1.len() as u64)),
                ("remainder_sent_in_second_session", J::B(continue_old)),
                ("session1_delivered", J::arr(got1.iter().map(|d| d.len()))),
                ("session2_delivered", J::arr(got2.iter().map(|d| d.len()))),
                ("errors", J::s(format!("{:?} {:?}", res[0].error, res[1].error))),
            ])
        };
        if res[0].error.is_some() || res[1].error.is_some() {
            viol(a, "reader_error", "reader_error|sessions", detail("reader error in a stream of valid frames"));
            continue;
        }
        if got1 != want1 {
            viol(a, if got1.len() > want1.len() { "soundness" } else { "completeness" }, "sessions|first", detail("first session: delivered fragments differ from the complete fragments sent"));
            continue;
        }
        if got2.iter().any(|d| *d != tail) {
            viol(
                a,
                "soundness",
                &format!("soundness|session-boundary|{}", if continue_old { "remainder" } else { "fresh" }),
                detail("second session delivered a fragment that it did not receive from its FIR segment on (assembly state survived the end of the first session)"),
            );
            continue;
        }
        if got2 != vec![tail.clone()] {
            viol(a, "completeness", "completeness|session-boundary", detail("the clean fragment of the second session was not delivered exactly once"));
            continue;
        }
        out::count("session_boundary_ok", 1);
        out::distinct(&format!("C/{}/rx{}/{}/{}", if outstation { "o" } else { "m" }, rx, c1name, continue_old));
        let _ = it;
    }
    // ------------------------------------------------------------ part D
    // the receive buffer a real endpoint is configured with is the one its transport reader uses (whatever the transmit
    // buffers are): fragments up to that size arrive and are answered, the next larger one is not
    if a.extra.iter().all(|x| x != "--direct-only") {
        crate::verif::sim::run_scenario(part_d(a));
    }
    Ok(())
}

async fn part_d(a: &ShardArgs) {
    use crate::outstation::database::Add;
    use crate::verif::refcodec::app as ra;
    use crate::verif::sim::outstation::*;
    use crate::verif::sim::*;
    let mut r = a.rng(&format!("c08d/{}", a.shard));
    for _ in 0..6 {
        let mut cfg = OutCfg::default();
        cfg.rx = *r.pick(&[249usize, 300, 1000, 2048]);
        cfg.sol_tx = *r.pick(&[249usize, 2048]);
        cfg.unsol_tx = *r.pick(&[249usize, 2048]);
        cfg.discard = r.bool();
        let mut sim = OutSim::start_with(cfg.clone(), |db| {
            db.add(0, None, crate::outstation::database::AnalogInputConfig::default());
        })
        .await;
        let _ = sim.collect();
        let mut seq = r.below(16) as u8;
        // a READ of 2 + 5k octets: k one-point range headers
        let kmax = (cfg.rx - 2) / 5;
        for k in [kmax.saturating_sub(1).max(1), kmax, kmax + 1, kmax + 3] {
            seq = (seq + 1) & 15;
            let mut b = ra::B::request(ra::F_READ, seq);
            for _ in 0..k {
                b = b.range8(30, 0, 0, 0, &[]);
            }
            let rq = b.done();
            let fits = rq.len() <= cfg.rx;
            let rx = sim.request(&rq).await;
            out::eval(1);
            let answered = rx
                .iter()
                .filter_map(|x| x.fragment())
                .any(|f| f.len() >= 4 && f[1] == ra::F_RESPONSE && f[0] & 15 == seq);
            if fits != answered {
                viol(
                    a,
                    if fits { "completeness" } else { "soundness" },
                    &format!("endpoint-rx|{}", if fits { "fits" } else { "too-long" }),
                    J::s(format!(
                        "outstation with receive buffer {} (transmit buffers {} / {}): a fragment of {} octets was {}",
                        cfg.rx,
                        cfg.sol_tx,
                        cfg.unsol_tx,
                        rq.len(),
                        if answered { "answered" } else { "not answered" }
                    )),
                );
            } else {
                out::count(if fits { "D_fragment_up_to_rx_answered" } else { "D_fragment_beyond_rx_dropped" }, 1);
            }
            out::distinct(&format!("D/rx{}/tx{}/{}", cfg.rx, cfg.sol_tx, if fits { "fits" } else { "too-long" }));
        }
    }
}
