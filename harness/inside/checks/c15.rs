//! C15 — a master accepts only the answer to its question and confirms what it accepts.
//! Engine E1 (master under test, the harness is the outstation).

use crate::verif::out::{self, J};
use crate::verif::rec::Item;
use crate::verif::refcodec::app as ra;
use crate::verif::rng::Rng;
use crate::verif::sim::master::*;
use crate::verif::sim::*;
use crate::verif::util::hex;
use crate::verif::ShardArgs;

const P: &str = "C15";
const OUT: u16 = 1024;

/// objects for a response to the given request kind
fn response_objects(r: &mut Rng, req: &[u8], want_measurements: bool) -> Vec<u8> {
    let func = req[1];
    match func {
        ra::F_READ if want_measurements => {
            // a few analog and binary static objects with unique values
            let n = r.range(1, 4) as u8;
            let mut data = vec![];
            for i in 0..n {
                data.push(0x01);
                data.extend_from_slice(&(r.u32() % 100_000).to_le_bytes());
                let _ = i;
            }
            let start = r.below(20) as u8;
            let mut b = ra::B { bytes: vec![] }
                .range8(30, 1, start, start + n - 1, &data)
                .range8(1, 2, 0, 1, &[0x81, 0x01]);
            // every way an object header can address its objects: 8- and 16-bit ranges (indices beyond 255 too),
            // 8- and 16-bit index prefixes, for the static and event groups of each measurement type
            for _ in 0..r.range(0, 3) {
                // (group, variation, object size) - statics then events
                let statics = [(1u8, 2u8, 1usize), (3, 2, 1), (10, 2, 1), (20, 1, 5), (21, 1, 5), (30, 1, 5), (40, 1, 5)];
                let events = [(2u8, 1u8, 1usize), (4, 1, 1), (11, 1, 1), (22, 1, 5), (23, 1, 5), (32, 1, 5), (42, 1, 5)];
                let k = r.range(1, 3) as usize;
                let obj = |r: &mut Rng, size: usize| -> Vec<u8> {
                    let mut o = vec![0x01u8];
                    for _ in 1..size {
                        o.push(r.u8() & 0x7F);
                    }
                    o
                };
                match r.below(4) {
                    0 => {
                        let (g, v, sz) = *r.pick(&statics);
                        let start = r.below(200) as u8;
                        let data: Vec<u8> = (0..k).flat_map(|_| obj(r, sz)).collect();
                        b = b.range8(g, v, start, start + k as u8 - 1, &data);
                    }
                    1 => {
                        let (g, v, sz) = *r.pick(&statics);
                        let start = *r.pick(&[0u16, 255, 256, 1000, 65_000]);
                        let data: Vec<u8> = (0..k).flat_map(|_| obj(r, sz)).collect();
                        b = b.range16(g, v, start, start + k as u16 - 1, &data);
                    }
                    2 => {
                        let (g, v, sz) = *r.pick(&events);
                        let items: Vec<(u8, Vec<u8>)> = (0..k).map(|_| (r.u8(), obj(r, sz))).collect();
                        b = b.prefixed8(g, v, &items);
                    }
                    _ => {
                        let (g, v, sz) = *r.pick(&events);
                        let items: Vec<(u16, Vec<u8>)> = (0..k).map(|_| (r.u16(), obj(r, sz))).collect();
                        b = b.prefixed16(g, v, &items);
                    }
                }
            }
            b.bytes
        }
        ra::F_SELECT | ra::F_OPERATE | ra::F_DIRECT_OPERATE => req[2..].to_vec(), // faithful echo
        ra::F_DELAY_MEASURE => ra::B { bytes: vec![] }.count8(52, 2, 1, &[0, 0]).bytes,
        ra::F_COLD_RESTART | ra::F_WARM_RESTART => {
            ra::B { bytes: vec![] }.count8(52, 2, 1, &[10, 0]).bytes
        }
        ra::F_READ if req.len() >= 16 && req[2] == 70 && req[3] == 5 => {
            // file block read: answer with the last block
            let mut o = vec![];
            o.extend_from_slice(&req[8..12]);
            let block = u32::from_le_bytes([req[12], req[13], req[14], req[15]]) | 0x8000_0000;
            o.extend_from_slice(&block.to_le_bytes());
            o.extend_from_slice(b"hello");
            let mut b = vec![70, 5, 0x5B, 1];
            b.extend_from_slice(&(o.len() as u16).to_le_bytes());
            b.extend(o);
            b
        }
        26 => {
            // CLOSE_FILE: status object
            let mut o = vec![];
            o.extend_from_slice(&0x0A0B0C0Du32.to_le_bytes());
            o.extend_from_slice(&0u32.to_le_bytes());
            o.extend_from_slice(&0u16.to_le_bytes());
            o.extend_from_slice(&0u16.to_le_bytes());
            o.push(0);
            let mut b = vec![70, 4, 0x5B, 1];
            b.extend_from_slice(&(o.len() as u16).to_le_bytes());
            b.extend(o);
            b
        }
        28 => {
            // GET_FILE_INFO: a file descriptor (g70v7, free format)
            let name = b"file.txt";
            let mut o = vec![];
            o.extend_from_slice(&20u16.to_le_bytes());
            o.extend_from_slice(&(name.len() as u16).to_le_bytes());
            o.extend_from_slice(&1u16.to_le_bytes());
            o.extend_from_slice(&(r.u32() % 100_000).to_le_bytes());
            o.extend_from_slice(&ra::time48(1_600_000_000_000));
            o.extend_from_slice(&0x1FFu16.to_le_bytes());
            o.extend_from_slice(&0u16.to_le_bytes());
            o.extend_from_slice(name);
            let mut b = vec![70, 7, 0x5B, 1];
            b.extend_from_slice(&(o.len() as u16).to_le_bytes());
            b.extend(o);
            b
        }
        25 => {
            // OPEN_FILE: status object (g70v4)
            let mut o = vec![];
            o.extend_from_slice(&0x0A0B0C0Du32.to_le_bytes());
            o.extend_from_slice(&10u32.to_le_bytes());
            o.extend_from_slice(&64u16.to_le_bytes());
            o.extend_from_slice(&0u16.to_le_bytes());
            o.push(0);
            let mut b = vec![70, 4, 0x5B, 1];
            b.extend_from_slice(&(o.len() as u16).to_le_bytes());
            b.extend(o);
            b
        }
        _ => vec![],
    }
}

#[derive(Clone, Debug, PartialEq)]
enum Verdict {
    /// the reference predicate accepts it as (part of) the answer
    Accept,
    /// ignored: the task keeps waiting
    Ignore,
    /// rejected: the task fails
    Fatal,
}

#[derive(Clone, Debug)]
struct Sent {
    frag: Vec<u8>,
    src: u16,
    verdict: Verdict,
    label: String,
    ord_after: u64,
}

/// an unsolicited response that is ignored before the start-up integrity poll completes must be
/// delivered and confirmed when the outstation retries it afterwards (it is not a duplicate)
async fn startup_unsol_scenario(a: &ShardArgs, idx: u64) {
    let mut r = a.rng(&format!("c15s/{idx}"));
    let mut mc = MasterCfg::default();
    mc.decode = r.usize_below(108);
    let mut ac = AssocCfg::quiet(OUT);
    ac.startup_integrity = [true, true, true, true];
    ac.response_timeout_ms = 1000;
    let mut sim = MasterSim::start(mc, &[ac]).await;
    let rx = sim.collect();
    let reqs = requests(&rx);
    let mut hist = vec![];
    let viol = |rule: &str, sig: &str, why: String, hist: &Vec<String>| {
        out::violation(
            P,
            &format!("C15.{rule}"),
            sig,
            J::obj(vec![
                ("why", J::s(why)),
                ("history", J::arr(hist.iter().cloned())),
            ]),
            J::obj(vec![
                ("check", J::s("c15")),
                ("seed", J::U(a.seed)),
                ("shard", J::U(a.shard)),
                ("nshards", J::U(a.nshards)),
                ("scenario", J::U(idx)),
            ]),
        );
    };
    if reqs.len() != 1 || reqs[0].3[1] != ra::F_READ {
        viol(
            "harness_no_request",
            "startup",
            "no integrity poll after connect".into(),
            &hist,
        );
        return;
    }
    let s = reqs[0].3[0] & 15;
    hist.push(format!("integrity poll seq={s}"));
    let useq = r.below(16) as u8;
    let with_data = r.chance(3, 4);
    let body = if with_data {
        ra::B { bytes: vec![] }
            .prefixed8(32, 1, &[(3, vec![1, 42, 0, 0, 0])])
            .bytes
    } else {
        vec![]
    };
    let unsol = ra::B::response(ra::FIR | ra::FIN | ra::UNS | ra::CON | useq, true, 0, 0)
        .raw(&body)
        .done();
    sim.send_from(OUT, &unsol);
    settle().await;
    let w1 = requests(&sim.collect());
    let confirmed1 = w1
        .iter()
        .any(|w| w.3.len() == 2 && w.3[1] == ra::F_CONFIRM && w.3[0] & ra::UNS != 0);
    hist.push(format!(
        "unsolicited ({}) before the integrity response: confirmed={confirmed1}",
        if with_data { "data" } else { "null" }
    ));
    out::eval(1);
    out::distinct(&format!(
        "startup/{}",
        if with_data { "data" } else { "null" }
    ));
    if with_data && confirmed1 {
        viol(
            "unsolicited_confirm",
            "unexpected|before-integrity",
            "data-bearing unsolicited response confirmed before the integrity poll completed"
                .into(),
            &hist,
        );
    }
    if !with_data && !confirmed1 {
        viol(
            "unsolicited_confirm",
            "missing|null-before-integrity",
            "null unsolicited response not confirmed".into(),
            &hist,
        );
    }
    // answer the integrity poll
    let resp = ra::B::response(ra::FIR | ra::FIN | s, false, 0, 0)
        .range8(30, 1, 0, 0, &[1, 7, 0, 0, 0])
        .done();
    sim.send_from(OUT, &resp);
    settle().await;
    let _ = sim.collect();
    let _ = sim.assocs[0].2.take();
    let _ = sim.take_events();
    // the outstation retries the very same unsolicited response
    sim.send_from(OUT, &unsol);
    settle().await;
    let w2 = requests(&sim.collect());
    let confirmed2 = w2.iter().any(|w| {
        w.3.len() == 2 && w.3[1] == ra::F_CONFIRM && w.3[0] & ra::UNS != 0 && w.3[0] & 15 == useq
    });
    let delivered: usize = sim.assocs[0]
        .2
        .take()
        .iter()
        .filter(|i| matches!(i, Item::M(_)))
        .count();
    let evs = sim.take_events();
    let dup_flag = evs.iter().find_map(|e| match &e.3 {
        MEv::Unsolicited(d, sq) if *sq == useq => Some(*d),
        _ => None,
    });
    hist.push(format!("retry after integrity: confirmed={confirmed2} delivered={delivered} duplicate_flag={dup_flag:?}"));
    if !confirmed2 {
        viol(
            "unsolicited_confirm",
            "missing|retry-after-integrity",
            "unsolicited response not confirmed after the integrity poll completed".into(),
            &hist,
        );
    }
    if with_data {
        // it was never accepted before, so this is its first delivery
        if delivered != 1 || dup_flag != Some(false) {
            viol("unsolicited_delivery", "retry-of-ignored-treated-as-duplicate", format!("unsolicited response ignored during start-up and retried afterwards: delivered {delivered} objects, duplicate flag {dup_flag:?}"), &hist);
        } else {
            out::count("startup_unsol_retry_delivered_ok", 1);
        }
    } else if dup_flag != Some(true) || delivered != 0 {
        // a null response that was accepted before: a true duplicate
        viol("unsolicited_delivery", "duplicate-null", format!("repeated null unsolicited response: delivered {delivered}, duplicate flag {dup_flag:?}"), &hist);
    } else {
        out::count("startup_unsol_duplicate_null_ok", 1);
    }
}

async fn scenario(a: &ShardArgs, idx: u64) {
    if idx % 7 == 3 {
        return startup_unsol_scenario(a, idx).await;
    }
    let mut r = a.rng(&format!("c15/{idx}"));
    let mut mc = MasterCfg::default();
    mc.decode = r.usize_below(108);
    mc.discard = r.bool();
    let mut ac = AssocCfg::quiet(OUT);
    ac.response_timeout_ms = *r.pick(&[100u64, 1000]);
    // a second association on the same channel: responses from it are "foreign" for tasks of the first
    let ac2 = AssocCfg::quiet(1025);
    let mut sim = MasterSim::start(mc.clone(), &[ac.clone(), ac2]).await;
    let _ = sim.collect();
    let mut hist: Vec<String> = vec![];
    let viol = |rule: &str, sig: &str, why: String, hist: &Vec<String>| {
        out::violation(
            P,
            &format!("C15.{rule}"),
            sig,
            J::obj(vec![
                ("why", J::s(why)),
                ("history", J::arr(hist.iter().cloned())),
            ]),
            J::obj(vec![
                ("check", J::s("c15")),
                ("seed", J::U(a.seed)),
                ("shard", J::U(a.shard)),
                ("nshards", J::U(a.nshards)),
                ("scenario", J::U(idx)),
            ]),
        );
    };
    let mut last_unsol: Option<Vec<u8>> = None;
    let ntasks = r.range(1, 3);
    for _ in 0..ntasks {
        if sim.task_finished() {
            break;
        }
        // ---- submit a task
        let mut custom_read = false;
        let _ = sim.custom.take();
        let (req, kind): (UserReq, &str) = match r.below(10) {
            8 => (UserReq::GetFileInfo, "file-info"),
            9 => (UserReq::ReadFile(64), "file-open"),
            0 | 1 => {
                let c = [true, r.bool(), r.bool(), false];
                custom_read = r.chance(1, 3);
                (if custom_read { UserReq::ReadClassesCustom(c) } else { UserReq::ReadClasses(c) }, "read")
            }
            2 => (
                UserReq::Command(
                    false,
                    vec![(
                        r.below(5) as u8,
                        r.below(30) as u16,
                        r.bool(),
                        r.u32() % 1000,
                    )],
                ),
                "direct-operate",
            ),
            3 => (
                UserReq::Command(
                    true,
                    vec![(
                        r.below(5) as u8,
                        r.below(30) as u16,
                        r.bool(),
                        r.u32() % 1000,
                    )],
                ),
                "select-operate",
            ),
            4 => (UserReq::TimeSync(1), "time-nonlan"),
            5 => (UserReq::ColdRestart, "restart"),
            6 => (
                UserReq::WriteDeadBands(vec![(r.below(9) as u16, r.u16() % 500)]),
                "dead-bands",
            ),
            _ => (
                UserReq::EmptyResponse(ra::F_RECORD_CURRENT_TIME),
                "empty-response",
            ),
        };
        let multi = kind == "read" && r.bool();
        let id = sim.submit(0, req.clone());
        settle().await;
        let rx = sim.collect();
        let reqs = requests(&rx);
        if reqs.len() != 1 {
            viol(
                "harness_no_request",
                kind,
                format!("{} requests after submit", reqs.len()),
                &hist,
            );
            return;
        }
        let (_, _, dest, rq) = reqs[0].clone();
        let s = rq[0] & 0x0F;
        hist.push(format!(
            "t={} task {kind} -> request to {dest} seq={s} {}",
            sim.now(),
            hex(&rq[..rq.len().min(40)])
        ));
        let _ = sim.take_events();
        for (_, _, rec) in &sim.assocs {
            let _ = rec.take();
        }
        // ---- the response stream
        let steps_needed = if kind == "select-operate" || kind == "time-nonlan" {
            1
        } else {
            1
        };
        let _ = steps_needed;
        let mut sent: Vec<Sent> = vec![];
        let give_answer = r.chance(3, 5);
        let nnoise = r.range(0, 4);
        let mut cur_seq = s;
        let mut cur_req = rq.clone();
        let mut frag_no = 0usize; // for multi-fragment reads
        let total_frags = if multi {
            if r.chance(1, 6) {
                r.range(16, 19) as usize
            } else {
                r.range(2, 4) as usize
            }
        } else {
            1
        };
        let mut noise_left = nnoise;
        let mut outcome_expected: Option<bool> = None; // Some(true) success, Some(false) failure decided by a fatal fragment
        let mut confirms_expected: Vec<(u8, bool)> = vec![];
        let mut confirms_forbidden: Vec<(u8, bool)> = vec![];
        let mut expected_deliveries: Vec<(u8, usize)> = vec![]; // (seq, measurement count) of accepted READ fragments
        let mut unsol_expected: Vec<(u8, usize, bool)> = vec![]; // seq, count, duplicate
        let mut step = 0;
        'stream: loop {
            step += 1;
            if step > 40 || outcome_expected.is_some() {
                break;
            }
            // unacceptable fragments may come at any position of the exchange (more likely around the
            // 17th fragment of a long series, where the 4-bit sequence number has wrapped)
            let noise = noise_left > 0
                && (r.chance(1, 2) || (!give_answer) || (frag_no >= 15 && r.chance(2, 3)));
            if noise {
                noise_left -= 1;
            }
            if !noise && !give_answer {
                break;
            }
            let want_meas = kind == "read";
            let objs = response_objects(&mut r, &cur_req, want_meas);
            let first = frag_no == 0;
            let last = frag_no + 1 == total_frags;
            // the faithful fragment for this point of the exchange
            let good_ctrl = (if first { ra::FIR } else { 0 })
                | (if last { ra::FIN } else { ra::CON })
                | if r.chance(1, 3) { ra::CON } else { 0 }
                | cur_seq;
            let mut ctrl = good_ctrl;
            let mut func = ra::F_RESPONSE;
            let mut iin2 = 0u8;
            let mut src = dest;
            let mut body = objs.clone();
            let mut verdict = Verdict::Accept;
            let mut label = "faithful".to_string();
            let mut split: Option<(u16, u16)> = None;
            if noise {
                match r.below(11) {
                    10 => {
                        // the faithful fragment in two transport segments that come from two sources: the first (with the
                        // response header and the sequence number) from another outstation, the last from the right one,
                        // or the other way round. A fragment is assembled from one source only: never accepted
                        let other = if r.bool() { 1025 } else { 77 };
                        split = Some(if r.bool() { (other, dest) } else { (dest, other) });
                        verdict = Verdict::Ignore;
                        label = format!("mixed-sources-{}-{}", split.unwrap().0, split.unwrap().1);
                    }
                    9 => {
                        // an unsolicited response that is not a single fragment (FIR and FIN both required): never
                        // delivered, never confirmed; whether the outstanding request survives it is left open
                        func = ra::F_UNSOL_RESPONSE;
                        let flags = *r.pick(&[ra::FIR, ra::FIN, 0]);
                        ctrl = flags | ra::UNS | if r.chance(3, 4) { ra::CON } else { 0 } | r.below(16) as u8;
                        body = if r.bool() {
                            vec![]
                        } else {
                            ra::B { bytes: vec![] }
                                .prefixed8(32, 1, &[(3, vec![1, 42, 0, 0, 0])])
                                .bytes
                        };
                        verdict = Verdict::Ignore;
                        label = format!("unsolicited-misflagged-{flags:02x}");
                    }
                    0 => {
                        ctrl = (good_ctrl & 0xF0) | ((cur_seq + r.range(1, 15) as u8) & 15);
                        verdict = Verdict::Ignore;
                        label = "wrong-seq".into();
                    }
                    1 => {
                        src = if r.bool() { 1025 } else { 77 };
                        verdict = Verdict::Ignore;
                        label = format!("wrong-source-{src}");
                    }
                    2 => {
                        ctrl |= ra::UNS;
                        verdict = Verdict::Fatal;
                        label = "solicited-with-uns".into();
                    }
                    3 => {
                        // illegal FIR/FIN/CON combination for this position
                        let bad = match (kind == "read", first) {
                            (false, _) => *r.pick(&[ra::FIR, ra::FIN, 0]),
                            (true, true) => *r.pick(&[ra::FIN, 0, ra::FIR]), // no FIR on the first / non-FIN without CON
                            (true, false) => *r.pick(&[ra::FIR | ra::FIN, ra::FIR | ra::CON, 0]),
                        };
                        ctrl = bad | cur_seq;
                        verdict = Verdict::Fatal;
                        label = format!("bad-flags-{:02x}", bad);
                    }
                    4 => {
                        iin2 = *r.pick(&[
                            ra::IIN2_NO_FUNC,
                            ra::IIN2_OBJECT_UNKNOWN,
                            ra::IIN2_PARAM_ERROR,
                        ]);
                        verdict = Verdict::Fatal;
                        label = format!("iin2-{iin2:02x}");
                    }
                    5 => {
                        // unsolicited response interleaved (null or with data): handled separately, task keeps waiting
                        func = ra::F_UNSOL_RESPONSE;
                        let useq = r.below(16) as u8;
                        ctrl = ra::FIR
                            | ra::FIN
                            | ra::UNS
                            | if r.chance(3, 4) { ra::CON } else { 0 }
                            | useq;
                        body = if r.bool() {
                            vec![]
                        } else {
                            ra::B { bytes: vec![] }
                                .prefixed8(
                                    32,
                                    1,
                                    &[(r.below(9) as u8, vec![1, (r.u8() % 100), 0, 0, 0])],
                                )
                                .bytes
                        };
                        verdict = Verdict::Ignore;
                        label = "unsolicited".into();
                    }
                    6 => {
                        // duplicate of the previous unsolicited response
                        if let Some(u) = &last_unsol {
                            func = ra::F_UNSOL_RESPONSE;
                            ctrl = u[0];
                            body = u[4..].to_vec();
                            verdict = Verdict::Ignore;
                            label = "unsolicited-duplicate".into();
                        } else {
                            continue 'stream;
                        }
                    }
                    7 => {
                        body = vec![1, 2, 0, 0, 9, 1]; // truncated objects
                        verdict = Verdict::Fatal;
                        label = "unparsable-objects".into();
                    }
                    _ => {
                        body = vec![0xEE, 1, 6];
                        verdict = Verdict::Fatal;
                        label = "unknown-object".into();
                    }
                }
            }
            let frag = if label == "unsolicited-duplicate" {
                last_unsol.clone().unwrap()
            } else {
                ra::B::response(ctrl, func == ra::F_UNSOL_RESPONSE, 0x00, iin2)
                    .raw(&body)
                    .done()
            };
            hist.push(format!(
                "t={} <- {label} from {src}: {}",
                sim.now(),
                hex(&frag[..frag.len().min(40)])
            ));
            match split {
                Some((a0, a1)) if frag.len() <= 490 => {
                    sim.send_split_from(a0, a1, &frag);
                    out::count("mixed_source_responses_sent", 1);
                }
                // (too long for two segments: all of it from the other source)
                Some((a0, a1)) => sim.send_from(if a0 == dest { a1 } else { a0 }, &frag),
                None => sim.send_from(src, &frag),
            }
            settle().await;
            let rx = sim.collect();
            let o = crate::verif::io::bump();
            sent.push(Sent {
                frag: frag.clone(),
                src,
                verdict: verdict.clone(),
                label: label.clone(),
                ord_after: o,
            });
            // what did the master write in reaction?
            let wrote = requests(&rx);
            let confirms: Vec<(u8, bool)> = wrote
                .iter()
                .filter(|w| w.3.len() == 2 && w.3[1] == ra::F_CONFIRM)
                .map(|w| (w.3[0] & 0x0F, w.3[0] & ra::UNS != 0))
                .collect();
            let non_confirms: Vec<Vec<u8>> = wrote
                .iter()
                .filter(|w| !(w.3.len() == 2 && w.3[1] == ra::F_CONFIRM))
                .map(|w| w.3.clone())
                .collect();
            let con = frag[0] & ra::CON != 0;
            out::eval(1);
            out::distinct(&format!("{kind}/{label}/frag{frag_no}/con{}", con as u8));
            if func == ra::F_UNSOL_RESPONSE {
                // unsolicited: quiet association has no start-up integrity -> accepted; from a known association only
                let known = src == OUT || src == 1025;
                let dup = last_unsol.as_deref() == Some(frag.as_slice());
                let misflagged = label.starts_with("unsolicited-misflagged");
                let want_confirm = con && known && !misflagged;
                if want_confirm != confirms.contains(&(frag[0] & 0x0F, true)) || confirms.len() > 1
                {
                    viol("unsolicited_confirm", &format!("{}|dup{}", if want_confirm { "missing" } else { "unexpected" }, dup as u8), format!("unsolicited response (CON={con}, source {src}) answered with confirms {confirms:?}"), &hist);
                } else if want_confirm {
                    out::count("unsolicited_confirmed_ok", 1);
                }
                if misflagged {
                    out::count("misflagged_unsolicited_sent", 1);
                    if sim.result_of(id).is_some() {
                        // the library fails the outstanding request on it: the stream ends here
                        outcome_expected = Some(false);
                        break 'stream;
                    }
                    continue;
                }
                if known && src == OUT {
                    let n = ra::decode_response_measurements(&frag[4..])
                        .map(|m| m.0.len())
                        .unwrap_or(0);
                    unsol_expected.push((frag[0] & 0x0F, n, dup));
                }
                if src == OUT {
                    last_unsol = Some(frag.clone());
                }
                continue;
            }
            match verdict {
                Verdict::Accept => {
                    if con {
                        confirms_expected.push((cur_seq, false));
                        if confirms != vec![(cur_seq, false)] {
                            viol("accepted_not_confirmed", &format!("{kind}|{}", if confirms.is_empty() { "none" } else { "wrong" }), format!("accepted fragment with CON (seq {cur_seq}) answered with confirms {confirms:?}"), &hist);
                        } else {
                            out::count("accepted_confirmed_ok", 1);
                        }
                    } else if !confirms.is_empty() {
                        viol(
                            "confirm_without_con",
                            kind,
                            format!("confirm {confirms:?} for a fragment that did not request one"),
                            &hist,
                        );
                    }
                    if kind == "read" {
                        let n = ra::decode_response_measurements(&frag[4..])
                            .map(|m| m.0.len())
                            .unwrap_or(0);
                        expected_deliveries.push((cur_seq, n));
                        frag_no += 1;
                        if last {
                            outcome_expected = Some(true);
                        } else {
                            cur_seq = (cur_seq + 1) & 15;
                        }
                    } else if kind == "select-operate" && cur_req[1] == ra::F_SELECT {
                        // the master now sends the OPERATE
                        if non_confirms.len() != 1 || non_confirms[0][1] != ra::F_OPERATE {
                            viol(
                                "sbo_no_operate",
                                kind,
                                "no OPERATE after a faithful SELECT echo".into(),
                                &hist,
                            );
                            outcome_expected = Some(false);
                        } else {
                            cur_req = non_confirms[0].clone();
                            if cur_req[0] & 0x0F != (cur_seq + 1) & 15 {
                                viol(
                                    "sbo_sequence",
                                    kind,
                                    format!(
                                        "OPERATE has sequence {} after SELECT {cur_seq}",
                                        cur_req[0] & 0x0F
                                    ),
                                    &hist,
                                );
                            }
                            cur_seq = cur_req[0] & 0x0F;
                            hist.push(format!("t={} -> OPERATE seq={cur_seq}", sim.now()));
                        }
                    } else if kind == "time-nonlan" && cur_req[1] == ra::F_DELAY_MEASURE {
                        if non_confirms.len() != 1 || non_confirms[0][1] != ra::F_WRITE {
                            viol(
                                "timesync_no_write",
                                kind,
                                "no WRITE after the delay measurement response".into(),
                                &hist,
                            );
                            outcome_expected = Some(false);
                        } else {
                            cur_req = non_confirms[0].clone();
                            cur_seq = cur_req[0] & 0x0F;
                            hist.push(format!("t={} -> WRITE seq={cur_seq}", sim.now()));
                        }
                    } else if kind == "file-open" && (cur_req[1] == 25 || cur_req[1] == ra::F_READ)
                    {
                        // OPEN answered -> the master reads block 0; the (last) block answered -> terminal callback, then CLOSE
                        let want = if cur_req[1] == 25 { ra::F_READ } else { 26 };
                        if non_confirms.len() != 1 || non_confirms[0][1] != want {
                            viol("file_next_step", kind, format!("after the faithful answer to function {} the master did not send function {want}", cur_req[1]), &hist);
                            outcome_expected = Some(false);
                        } else {
                            if want == 26 {
                                outcome_expected = Some(true);
                            }
                            cur_req = non_confirms[0].clone();
                            cur_seq = cur_req[0] & 0x0F;
                            hist.push(format!(
                                "t={} -> function {} seq={cur_seq}",
                                sim.now(),
                                cur_req[1]
                            ));
                        }
                    } else {
                        outcome_expected = Some(true);
                    }
                }
                Verdict::Ignore | Verdict::Fatal => {
                    if !confirms.is_empty() {
                        confirms_forbidden.extend(confirms.iter().cloned());
                        viol("rejected_fragment_confirmed", &label.split('-').take(2).collect::<Vec<_>>().join("-"), format!("fragment the reference rejects ({label}) was confirmed: {confirms:?}"), &hist);
                    } else if con {
                        out::count("rejected_not_confirmed_ok", 1);
                    }
                    if verdict == Verdict::Fatal {
                        outcome_expected = Some(false);
                    }
                    if !non_confirms.is_empty() && verdict == Verdict::Ignore {
                        viol(
                            "request_during_wait",
                            &label,
                            "the master sent a new request while one was outstanding".into(),
                            &hist,
                        );
                    }
                }
            }
        }
        // a file read ends with a CLOSE after its terminal callback: answer it so that the channel is free again
        if kind == "file-open" && cur_req[1] == 26 {
            let objs = response_objects(&mut r, &cur_req, false);
            sim.send_from(
                dest,
                &ra::B::response(ra::FIR | ra::FIN | cur_seq, false, 0, 0)
                    .raw(&objs)
                    .done(),
            );
            settle().await;
            let _ = sim.collect();
        }
        // ---- let the task end (timeout if nothing decided it)
        if sim.result_of(id).is_none() {
            sim.advance(ac.response_timeout_ms + 5).await;
        }
        let _late = sim.collect();
        let res = sim.result_of(id);
        let success = res.as_ref().map(|r| r.3.starts_with("Ok")).unwrap_or(false);
        hist.push(format!(
            "t={} result {:?}",
            sim.now(),
            res.as_ref().map(|r| r.3.clone())
        ));
        match (outcome_expected, &res) {
            (_, None) => viol(
                "no_outcome",
                kind,
                "the request did not complete within the response timeout".into(),
                &hist,
            ),
            (Some(true), Some(_)) if !success => viol(
                "answer_not_accepted",
                kind,
                format!(
                    "a faithful response stream did not complete the request: {:?}",
                    res.as_ref().unwrap().3
                ),
                &hist,
            ),
            (Some(false), Some(_)) | (None, Some(_)) if success => {
                let which: Vec<String> = sent.iter().map(|s| s.label.clone()).collect();
                viol("completed_without_answer", &format!("{kind}|{}", which.last().cloned().unwrap_or_default().split('-').take(2).collect::<Vec<_>>().join("-")), format!("request completed successfully although every response sent was unacceptable: {which:?}"), &hist);
            }
            (Some(true), _) => {
                out::count("completed_with_answer_ok", 1);
                if total_frags >= 17 {
                    out::count("long_series_ok", 1);
                }
            }
            _ => out::count("not_completed_without_answer_ok", 1),
        }
        // ---- handler deliveries: exactly the accepted fragments, once, in wire order
        // (a READ made with a handler of its own: its fragments go to that handler, all of them, and none to the association's;
        // unsolicited fragments still go to the association's)
        let mut items = sim.assocs[0].2.take();
        if custom_read {
            let assoc_sol: usize = {
                let mut n = 0;
                let mut in_sol = false;
                for it in &items {
                    match it {
                        Item::Begin(rt, _) => in_sol = rt != "Unsolicited",
                        Item::End(_, _) => {
                            if in_sol {
                                n += 1;
                            }
                            in_sol = false;
                        }
                        _ => {}
                    }
                }
                n
            };
            if assoc_sol > 0 {
                viol("custom_handler_bypassed", kind, format!("{assoc_sol} solicited fragment(s) of a read_with_handler request reached the association's handler"), &hist);
            }
            let mut keep: Vec<Item> = vec![];
            let mut in_unsol = false;
            for it in items {
                match &it {
                    Item::Begin(rt, _) => in_unsol = rt == "Unsolicited",
                    _ => {}
                }
                if in_unsol {
                    keep.push(it);
                }
            }
            let got_custom = sim.custom.take();
            if got_custom.iter().any(|i| matches!(i, Item::Begin(_, _))) && assoc_sol == 0 {
                out::count("custom_handler_deliveries_ok", 1);
            }
            keep.extend(got_custom);
            items = keep;
        }
        let mut got: Vec<(String, u8, usize)> = vec![];
        let mut cur: Option<(String, u8, usize)> = None;
        for it in items {
            match it {
                Item::Begin(rt, sq) => {
                    if cur.is_some() {
                        viol(
                            "handler_bracket",
                            "nested-begin",
                            "begin_fragment without end_fragment".into(),
                            &hist,
                        );
                    }
                    cur = Some((rt, sq, 0));
                }
                Item::M(_) => match &mut cur {
                    Some(c) => c.2 += 1,
                    None => viol(
                        "handler_bracket",
                        "objects-outside",
                        "measurement delivered outside begin/end_fragment".into(),
                        &hist,
                    ),
                },
                Item::End(_, _) => {
                    if let Some(c) = cur.take() {
                        got.push(c);
                    } else {
                        viol(
                            "handler_bracket",
                            "end-without-begin",
                            "end_fragment without begin_fragment".into(),
                            &hist,
                        );
                    }
                }
                _ => {}
            }
        }
        let got_sol: Vec<(u8, usize)> = got
            .iter()
            .filter(|g| g.0 != "Unsolicited")
            .map(|g| (g.1, g.2))
            .collect();
        let got_unsol: Vec<(u8, usize)> = got
            .iter()
            .filter(|g| g.0 == "Unsolicited")
            .map(|g| (g.1, g.2))
            .collect();
        // a fatal fragment after some accepted ones: deliveries so far stand
        if kind == "read" {
            if got_sol != expected_deliveries {
                let extra = got_sol.len() > expected_deliveries.len();
                viol(if extra { "delivered_unaccepted" } else { "delivery_mismatch" }, kind, format!("handler received solicited fragments {got_sol:?}, accepted were {expected_deliveries:?}"), &hist);
            } else if !expected_deliveries.is_empty() {
                out::count("deliveries_match_ok", 1);
            }
        } else if !got_sol.is_empty() {
            viol(
                "delivered_unaccepted",
                kind,
                format!("handler received {got_sol:?} during a non-read task"),
                &hist,
            );
        }
        let want_unsol: Vec<(u8, usize)> = unsol_expected
            .iter()
            .filter(|u| !u.2)
            .map(|u| (u.0, u.1))
            .collect();
        if got_unsol != want_unsol {
            viol("unsolicited_delivery", if got_unsol.len() > want_unsol.len() { "extra" } else { "missing" }, format!("unsolicited deliveries {got_unsol:?}, expected {want_unsol:?} (duplicates excluded)"), &hist);
        } else if !want_unsol.is_empty() {
            out::count("unsolicited_delivery_ok", 1);
        }
        if unsol_expected.iter().any(|u| u.2) {
            out::count("unsolicited_duplicates_sent", 1);
        }
        let _ = (confirms_expected, confirms_forbidden);
    }
    for p in crate::verif::util::take_panics() {
        viol(
            "panic",
            &crate::verif::util::norm_location(&p.location),
            format!("panic {} at {}", p.message, p.location),
            &hist,
        );
    }
    if a.replay.is_some() {
        for l in crate::verif::trace::tail(100) {
            eprintln!("TRACE {l}");
        }
        for h in &hist {
            eprintln!("HIST {h}");
        }
    }
    if out::sample_count() < 3 {
        out::sample(J::obj(vec![("history", J::arr(hist.iter().cloned()))]));
    }
}

pub fn run(a: &ShardArgs) -> Result<(), String> {
    let only: Option<u64> = a
        .replay
        .as_ref()
        .and_then(|p| super::common::replay_scenario(p));
    let n = a.n(8000);
    for idx in 0..n {
        if idx % a.nshards != a.shard {
            continue;
        }
        if let Some(o) = only {
            if o != idx {
                continue;
            }
        }
        out::progress(&format!("scenario {idx}"));
        run_scenario(scenario(a, idx));
    }
    Ok(())
}
