//! C01 — bytes from the peer can never crash or wedge a master or an outstation.
//! E2: parsers / formatters / extraction under catch_unwind on generated inputs.
//! E1: hostile bytes and fragments injected into live sessions in every state,
//!     followed by liveness probes in virtual time.

use crate::app::parse::options::ParseOptions;
use crate::app::parse::parser::ParsedFragment;
use crate::decode::AppDecodeLevel;
use crate::verif::checks::c12::{populate, some_events};
use crate::verif::checks::common::*;
use crate::verif::gen;
use crate::verif::out::{self, J};
use crate::verif::refcodec::app as ra;
use crate::verif::refcodec::link as rl;
use crate::verif::refcodec::transport as rt;
use crate::verif::rng::Rng;
use crate::verif::sim::outstation::*;
use crate::verif::sim::*;
use crate::verif::util::{hex, norm_location, take_panics};
use crate::verif::ShardArgs;

const P: &str = "C01";

const BOUNDS: [u32; 12] = [0, 1, 2, 7, 8, 9, 15, 16, 255, 256, 65534, 65535];

/// grammar-generated application fragment (well-formed and malformed), at most `max` bytes
/// a file object (group 70) in its proper layout, with the offset and size fields that describe its strings set to
/// boundary values some of the time: the parsers add them to constants and to each other
fn structured_file_object(r: &mut Rng, v: u8) -> Vec<u8> {
    let edge = |r: &mut Rng, honest: u16| -> u16 {
        if r.chance(1, 3) {
            *r.pick(&[
                0u16, 1, 11, 12, 13, 19, 20, 21, 25, 26, 27, 255, 256, 0x7FFF, 0x8000, 0xFFE5, 0xFFE6, 0xFFEB, 0xFFEC, 0xFFF3, 0xFFF4,
                0xFFFE, 0xFFFF,
            ])
        } else {
            honest
        }
    };
    let text = |r: &mut Rng| -> Vec<u8> {
        let n = r.range(0, 12) as usize;
        (0..n)
            .map(|_| if r.chance(1, 8) { r.u8() } else { b'a' + r.below(26) as u8 })
            .collect()
    };
    let mut o = vec![];
    match v {
        2 => {
            let (user, pass) = (text(r), text(r));
            o.extend_from_slice(&edge(r, 12).to_le_bytes());
            o.extend_from_slice(&edge(r, user.len() as u16).to_le_bytes());
            o.extend_from_slice(&edge(r, 12 + user.len() as u16).to_le_bytes());
            o.extend_from_slice(&edge(r, pass.len() as u16).to_le_bytes());
            o.extend_from_slice(&(r.u64() as u32).to_le_bytes());
            o.extend(user);
            o.extend(pass);
        }
        3 => {
            let name = text(r);
            o.extend_from_slice(&edge(r, 26).to_le_bytes());
            o.extend_from_slice(&edge(r, name.len() as u16).to_le_bytes());
            o.extend_from_slice(&ra::time48(r.u64() & 0xFFFF_FFFF_FFFF));
            o.extend_from_slice(&r.u16().to_le_bytes());
            o.extend_from_slice(&(r.u64() as u32).to_le_bytes());
            o.extend_from_slice(&(r.u64() as u32).to_le_bytes());
            o.extend_from_slice(&edge(r, 1).to_le_bytes());
            o.extend_from_slice(&edge(r, 512).to_le_bytes());
            o.extend_from_slice(&r.u16().to_le_bytes());
            o.extend(name);
        }
        4 => {
            o.extend_from_slice(&(r.u64() as u32).to_le_bytes());
            o.extend_from_slice(&(r.u64() as u32).to_le_bytes());
            o.extend_from_slice(&edge(r, 512).to_le_bytes());
            o.extend_from_slice(&r.u16().to_le_bytes());
            o.push(r.u8());
            o.extend(text(r));
        }
        5 => {
            o.extend_from_slice(&(r.u64() as u32).to_le_bytes());
            o.extend_from_slice(&(*r.pick(&[0u32, 1, 0x7FFF_FFFF, 0x8000_0000, 0xFFFF_FFFF])).to_le_bytes());
            o.extend(text(r));
        }
        6 => {
            o.extend_from_slice(&(r.u64() as u32).to_le_bytes());
            o.extend_from_slice(&(*r.pick(&[0u32, 1, 0x7FFF_FFFF, 0x8000_0000, 0xFFFF_FFFF])).to_le_bytes());
            o.push(r.u8());
            o.extend(text(r));
        }
        7 => {
            let name = text(r);
            o.extend_from_slice(&edge(r, 20).to_le_bytes());
            o.extend_from_slice(&edge(r, name.len() as u16).to_le_bytes());
            o.extend_from_slice(&edge(r, 1).to_le_bytes());
            o.extend_from_slice(&(r.u64() as u32).to_le_bytes());
            o.extend_from_slice(&ra::time48(r.u64() & 0xFFFF_FFFF_FFFF));
            o.extend_from_slice(&r.u16().to_le_bytes());
            o.extend_from_slice(&r.u16().to_le_bytes());
            o.extend(name);
        }
        _ => o.extend(text(r)),
    }
    o
}

pub fn hostile_fragment(r: &mut Rng, max: usize) -> Vec<u8> {
    let vars = ra::all_variations();
    let seq = r.below(16) as u8;
    if r.chance(1, 25) {
        // READ of device attributes: every variation is a legal request, the two special ones (254 all attributes, 255 list
        // of variations) and the ends of the set range included
        let v = if r.bool() { r.pick_copy(&[0u8, 1, 211, 252, 253, 254, 255]) } else { r.u8() };
        let mut f = vec![0xC0 | seq, ra::F_READ, 0, v];
        match r.below(4) {
            0 => f.push(0x06),
            1 => {
                let a = r.pick_copy(&[0u8, 1, 254, 255]);
                f.extend_from_slice(&[0x00, a, a.saturating_add(r.below(2) as u8)]);
            }
            2 => f.extend_from_slice(&[0x00, 0, 255]),
            _ => {
                let a = r.pick_copy(&[0u16, 255, 256, 65535]);
                f.push(0x01);
                f.extend_from_slice(&a.to_le_bytes());
                f.extend_from_slice(&a.saturating_add(r.below(2) as u16).to_le_bytes());
            }
        }
        return f;
    }
    let func = match r.below(10) {
        0 => r.u8(),
        1 => ra::F_RESPONSE,
        2 => ra::F_UNSOL_RESPONSE,
        3 => ra::F_CONFIRM,
        _ => r.pick_copy(&[
            1u8, 2, 3, 4, 5, 6, 7, 9, 11, 13, 20, 21, 22, 23, 24, 25, 26, 27, 28, 29, 30, 129, 130,
        ]),
    };
    let ctrl = if r.chance(1, 8) {
        r.u8()
    } else {
        0xC0 | seq
            | if r.chance(1, 10) { ra::CON } else { 0 }
            | if func == ra::F_UNSOL_RESPONSE {
                ra::UNS
            } else {
                0
            }
    };
    let mut f = vec![ctrl, func];
    if func == ra::F_RESPONSE || func == ra::F_UNSOL_RESPONSE {
        f.push(r.u8());
        f.push(r.u8());
    }
    let nh = r.below(5);
    for _ in 0..nh {
        let (mut g, mut v) = if r.chance(1, 10) {
            (r.u8(), r.u8())
        } else {
            *r.pick(&vars)
        };
        let mut q = if r.chance(1, 12) {
            r.u8()
        } else {
            r.pick_copy(&[0x00u8, 0x01, 0x06, 0x07, 0x08, 0x17, 0x28, 0x5B])
        };
        // file objects in their own layout often enough to reach the code behind each variation
        let structured = r.chance(1, 12);
        if structured {
            g = 70;
            v = r.range(2, 8) as u8;
            q = 0x5B;
        }
        f.extend_from_slice(&[g, v, q]);
        let kind = ra::kind(g, v);
        let sz = match kind {
            Some(ra::Kind::Fixed(n)) => n,
            Some(ra::Kind::Octets) => v as usize,
            _ => 1,
        };
        let mut count: u32 = 0;
        match q {
            0x00 => {
                let (a, b) = match r.below(5) {
                    0 => (255, 255),
                    1 => (9, 3),
                    2 => (0, 255),
                    _ => {
                        let a = r.u8();
                        (a, a.saturating_add(r.below(8) as u8))
                    }
                };
                f.extend_from_slice(&[a, b]);
                count = (b as u32).wrapping_sub(a as u32).wrapping_add(1);
            }
            0x01 => {
                let (a, b): (u16, u16) = match r.below(6) {
                    0 => (65535, 65535),
                    1 => (65528, 65535),
                    2 => (9, 3),
                    3 => (0, 65535),
                    _ => {
                        let a = *r.pick(&BOUNDS) as u16;
                        (a, a.saturating_add(r.below(8) as u16))
                    }
                };
                f.extend_from_slice(&a.to_le_bytes());
                f.extend_from_slice(&b.to_le_bytes());
                count = (b as u32).wrapping_sub(a as u32).wrapping_add(1) & 0x1FFFF;
            }
            0x07 | 0x17 => {
                let c = *r.pick(&[0u8, 1, 2, 3, 7, 8, 9, 255]);
                f.push(c);
                count = c as u32;
            }
            0x08 | 0x28 => {
                let c = *r.pick(&BOUNDS) as u16;
                f.extend_from_slice(&c.to_le_bytes());
                count = c as u32;
            }
            0x5B => {
                let c = if r.chance(1, 5) { r.u8() } else { 1 };
                f.push(c);
                let body = if structured {
                    structured_file_object(r, v)
                } else {
                    let inner = r.range(0, 40) as usize;
                    r.bytes(inner)
                };
                let declared = if r.chance(1, if structured { 8 } else { 3 }) {
                    r.u16()
                } else {
                    body.len() as u16
                };
                f.extend_from_slice(&declared.to_le_bytes());
                f.extend(body);
                count = 0;
            }
            _ => {}
        }
        // object data: right size, short, long or none
        if func != ra::F_READ || r.chance(1, 4) {
            let per = match q {
                0x17 => sz + 1,
                0x28 => sz + 2,
                _ => sz,
            };
            let want = match kind {
                Some(ra::Kind::Bit) => (count as usize + 7) / 8,
                Some(ra::Kind::DBit) => (count as usize + 3) / 4,
                Some(ra::Kind::Attr) => 2 + r.below(12) as usize,
                Some(ra::Kind::NoData) | None => 0,
                _ => per * count as usize,
            };
            let n = match r.below(6) {
                0 => 0,
                1 => want.saturating_sub(1),
                2 => want + 1,
                _ => want,
            }
            .min(max.saturating_sub(f.len()));
            let fill = r.below(4);
            for i in 0..n {
                f.push(match fill {
                    0 => 0x00,
                    1 => 0xFF,
                    _ => r.u8(),
                });
                let _ = i;
            }
        }
        if f.len() >= max {
            break;
        }
    }
    // mutations
    match r.below(10) {
        0 if f.len() > 2 => {
            let k = r.range(1, f.len() as u64 - 1) as usize;
            f.truncate(k);
        }
        1 => {
            let n = r.range(1, 3) as usize;
            f.extend(r.bytes(n));
        }
        2 if f.len() > 3 => {
            let k = r.usize_below(f.len());
            f[k] ^= 1 << r.below(8);
        }
        _ => {}
    }
    f.truncate(max.max(1));
    f
}

fn record_panics(a: &ShardArgs, context: &str, input: &[u8], extra: J) -> bool {
    let ps = take_panics();
    let any = !ps.is_empty();
    for p in ps {
        let loc = norm_location(&p.location);
        if p.message.starts_with("verif: spin") {
            out::violation(
                P,
                "C01.spin",
                "endpoint",
                J::obj(vec![
                    ("why", J::s(p.message.clone())),
                    ("context", J::s(context)),
                    ("extra", extra.clone()),
                ]),
                J::obj(vec![
                    ("check", J::s("c01")),
                    ("seed", J::U(a.seed)),
                    ("shard", J::U(a.shard)),
                    ("nshards", J::U(a.nshards)),
                ]),
            );
            continue;
        }
        out::violation(
            P,
            "C01.panic",
            &loc,
            J::obj(vec![
                ("message", J::s(p.message.clone())),
                ("location", J::s(p.location.clone())),
                ("context", J::s(context)),
                ("input", J::hex(&input[..input.len().min(400)])),
                ("extra", extra.clone()),
            ]),
            J::obj(vec![
                ("check", J::s("c01")),
                ("seed", J::U(a.seed)),
                ("shard", J::U(a.shard)),
                ("nshards", J::U(a.nshards)),
            ]),
        );
    }
    any
}

/// E2: direct parser / formatter / extraction calls
fn direct(a: &ShardArgs) {
    let mut r = a.rng("c01/direct");
    let n = a.n(40_000);
    let mut rec = crate::verif::rec::Recorder::new();
    for i in 0..n {
        if i % 5000 == 0 {
            out::progress(&format!("direct {i}"));
        }
        let maxlen = *r.pick(&[64usize, 249, 2048]);
        let f = hostile_fragment(&mut r, maxlen);
        out::eval(1);
        for zl in [false, true] {
            let opts = ParseOptions {
                parse_zero_length_strings: zl,
            };
            let res = std::panic::catch_unwind(std::panic::AssertUnwindSafe(|| {
                let mut sink = 0usize;
                if let Ok(p) = ParsedFragment::parse(opts, &f) {
                    for lvl in [
                        AppDecodeLevel::Nothing,
                        AppDecodeLevel::Header,
                        AppDecodeLevel::ObjectHeaders,
                        AppDecodeLevel::ObjectValues,
                    ] {
                        sink += format!("{}", p.display(lvl)).len();
                    }
                    if let Ok(objs) = p.objects {
                        sink += objs.iter().count();
                        let _ = objs.hash();
                        crate::master::extract::extract_measurements_inner(objs, &mut rec);
                        out::count("direct_objects_accepted", 1);
                    }
                    let _ = p.to_request().map(|q| q.header.function);
                    let _ = p.to_response().map(|q| q.header.iin);
                    out::count("direct_fragments_parsed", 1);
                } else {
                    out::count("direct_header_rejected", 1);
                }
                sink
            }));
            let _ = rec.take();
            if res.is_err() {
                record_panics(
                    a,
                    "ParsedFragment::parse/display/iterate/extract",
                    &f,
                    J::B(zl),
                );
            }
        }
        out::distinct(&format!(
            "direct/f{}/len{}",
            f.get(1).copied().unwrap_or(0),
            f.len().min(300) / 50
        ));
    }
    // link + transport readers on random / mutated byte streams
    let n2 = a.n(6_000);
    for i in 0..n2 {
        if i % 2000 == 0 {
            out::progress(&format!("direct-link {i}"));
        }
        let mut bytes = vec![];
        let parts = r.range(1, 4);
        for _ in 0..parts {
            match r.below(4) {
                0 => {
                    let n = r.range(1, 60) as usize;
                    bytes.extend(r.bytes(n));
                }
                _ => {
                    let len = *r.pick(&[0usize, 1, 15, 16, 17, 100, 249, 250]);
                    let mut fr = rl::Frame::new(
                        r.u8(),
                        if r.bool() { 1024 } else { r.u16() },
                        r.u16(),
                        &r.bytes(len),
                    )
                    .encode();
                    match r.below(5) {
                        0 => fr[2] = r.u8(),
                        1 => {
                            let k = r.usize_below(fr.len());
                            fr[k] ^= 1 << r.below(8);
                        }
                        2 => {
                            let k = r.usize_below(fr.len());
                            fr.truncate(k);
                        }
                        _ => {}
                    }
                    bytes.extend(fr);
                }
            }
        }
        let (_, chunks) = chunking(&mut r, &bytes);
        let outstation = r.bool();
        let rx = *r.pick(&[249usize, 292, 2048]);
        let discard = r.bool();
        let lvl = r.usize_below(NUM_DECODE_LEVELS);
        out::eval(1);
        let res = std::panic::catch_unwind(std::panic::AssertUnwindSafe(|| {
            crate::verif::checks::c08::run_reader(
                outstation,
                if outstation { 1024 } else { 1 },
                rx,
                &chunks,
                discard,
                lvl,
            )
            .fragments
            .len()
        }));
        if res.is_err() {
            record_panics(a, "transport::real::Reader::read", &bytes, J::Null);
        } else {
            out::count("direct_link_streams", 1);
        }
    }
}

/// E1: one outstation scenario
async fn out_scenario(a: &ShardArgs, idx: u64) {
    let mut r = a.rng(&format!("c01/out/{idx}"));
    let mut cfg = OutCfg::default();
    cfg.sol_tx = *r.pick(&[249usize, 250, 292, 498, 2048]);
    cfg.unsol_tx = *r.pick(&[249usize, 498, 2048]);
    cfg.rx = *r.pick(&[249usize, 250, 292, 498, 2048, 4096]);
    cfg.decode = r.usize_below(108);
    cfg.discard = r.bool();
    cfg.unsolicited = r.bool();
    cfg.broadcast = r.bool();
    cfg.any_master = r.chance(1, 4);
    cfg.zero_len_strings = r.bool();
    cfg.confirm_timeout_ms = *r.pick(&[50u64, 1000]);
    cfg.select_timeout_ms = 1000;
    cfg.max_unsol_retries = *r.pick(&[None, Some(0usize), Some(2)]);
    cfg.unsol_retry_delay_ms = *r.pick(&[0u64, 10, 1000]);
    cfg.keep_alive_ms = if r.chance(1, 4) { Some(500) } else { None };
    cfg.max_controls = if r.chance(1, 5) {
        Some(r.range(0, 4) as u16)
    } else {
        None
    };
    cfg.max_read_headers = if r.chance(1, 5) {
        Some(r.range(1, 5) as u16)
    } else {
        None
    };
    for t in 0..8 {
        cfg.event_cfg[t] = *r.pick(&[0u16, 1, 2, 5, 50]);
    }
    let npoints = *r.pick(&[0u16, 2, 30]);
    let mut rr = r.fork();
    let mut sim = OutSim::start_with(cfg.clone(), |db| {
        populate(db, &mut rr, npoints);
        some_events(db, &mut rr, npoints, 20, 500);
    })
    .await;
    let _ = sim.collect();
    let mut hist: Vec<String> = vec![];
    let viol = |rule: &str, sig: &str, why: String, hist: &Vec<String>| {
        out::violation(
            P,
            &format!("C01.{rule}"),
            sig,
            J::obj(vec![
                ("why", J::s(why)),
                ("config", cfg.to_json()),
                ("history", J::arr(hist.iter().rev().take(16).rev().cloned())),
            ]),
            J::obj(vec![
                ("check", J::s("c01")),
                ("seed", J::U(a.seed)),
                ("shard", J::U(a.shard)),
                ("nshards", J::U(a.nshards)),
                ("scenario", J::U(idx)),
            ]),
        );
    };
    let mut seq = r.below(16) as u8;
    // state preparation
    let state = match r.below(6) {
        0 => "idle",
        1 => {
            seq = (seq + 1) & 15;
            sim.send(
                &ra::B::request(ra::F_READ, seq)
                    .all(60, 2)
                    .all(60, 3)
                    .all(60, 4)
                    .all(60, 1)
                    .done(),
            );
            settle().await;
            "sol-confirm-wait"
        }
        2 => {
            seq = (seq + 1) & 15;
            sim.send(
                &ra::B::request(ra::F_SELECT, seq)
                    .raw(&gen::control_objects(&mut r, 1))
                    .done(),
            );
            settle().await;
            "select-pending"
        }
        3 => {
            // read deferred behind the null unsolicited response (if unsolicited is on)
            seq = (seq + 1) & 15;
            sim.send(&ra::B::request(ra::F_READ, seq).all(60, 1).done());
            settle().await;
            "deferred-read"
        }
        4 => {
            // overflow while a response awaits its confirm
            seq = (seq + 1) & 15;
            sim.send(
                &ra::B::request(ra::F_READ, seq)
                    .all(60, 2)
                    .all(60, 3)
                    .all(60, 4)
                    .done(),
            );
            settle().await;
            let mut rr = r.fork();
            sim.db(|db| some_events(db, &mut rr, npoints, 60, 9000));
            settle().await;
            "overflow-in-confirm-wait"
        }
        _ => "unsol-activity",
    };
    let _ = sim.collect();
    let n_items = r.range(1, 6);
    for _ in 0..n_items {
        if sim.task_finished() {
            break;
        }
        let kind = r.below(10);
        let label;
        let mut framing_error = false;
        if kind < 3 {
            // raw bytes: garbage and damaged frames
            let mut bytes = vec![];
            match r.below(4) {
                0 => {
                    let n = r.range(1, 600) as usize;
                    bytes = r.bytes(n);
                }
                1 => {
                    let body = hostile_fragment(&mut r, 200);
                    let mut seg = vec![0xC0 | (r.u8() & 0x3F)];
                    seg.extend(body);
                    let mut fr = rl::Frame::new(
                        0xC4,
                        cfg.out_addr,
                        cfg.master_addr,
                        &seg[..seg.len().min(250)],
                    )
                    .encode();
                    let k = r.usize_below(fr.len());
                    fr[k] ^= 1 << r.below(8);
                    bytes = fr;
                }
                2 => {
                    // every link function code, odd addresses
                    for _ in 0..r.range(1, 6) {
                        let len = *r.pick(&[0usize, 1, 5, 250]);
                        bytes.extend(
                            rl::Frame::new(
                                r.u8(),
                                *r.pick(&[cfg.out_addr, 0xFFFF, 0xFFFC, 0xFFF0, 3]),
                                *r.pick(&[cfg.master_addr, 0xFFFF, 0xFFFC, 7]),
                                &r.bytes(len),
                            )
                            .encode(),
                        );
                    }
                }
                _ => {
                    // transport level abuse: segments out of order, without FIR, oversized series
                    let nseg = r.range(1, 12);
                    for _ in 0..nseg {
                        let mut seg = vec![rt::header(r.chance(1, 3), r.chance(1, 3), r.u8())];
                        let n = *r.pick(&[0usize, 1, 249]);
                        seg.extend(r.bytes(n));
                        bytes.extend(
                            rl::Frame::new(0xC4, cfg.out_addr, cfg.master_addr, &seg).encode(),
                        );
                    }
                }
            }
            framing_error = rl::scan_close(&bytes).error.is_some();
            let (cname, chunks) = chunking(&mut r, &bytes);
            label = format!("bytes/{cname}/{}B", bytes.len());
            for c in &chunks {
                sim.pipe.push(c);
            }
        } else {
            // application fragment in valid frames (sometimes maximal size)
            let max = if r.chance(1, 4) {
                cfg.rx
            } else {
                *r.pick(&[30usize, 249, 600])
            }
            .min(cfg.rx + 300);
            let frag = if r.chance(1, 6) {
                // maximal-size control request against a small transmit buffer
                let per = (cfg.rx.min(2040) / 13).max(2) as u64;
                let f = r.pick_copy(&[
                    ra::F_SELECT,
                    ra::F_OPERATE,
                    ra::F_DIRECT_OPERATE,
                    ra::F_DIRECT_OPERATE_NR,
                ]);
                seq = (seq + 1) & 15;
                ra::B::request(f, seq)
                    .raw(&gen::control_objects_n(&mut r, 1, per))
                    .done()
            } else {
                hostile_fragment(&mut r, max)
            };
            let src = if r.chance(1, 8) { 7 } else { cfg.master_addr };
            let dest = if r.chance(1, 10) {
                0xFFFD + r.below(3) as u16
            } else {
                cfg.out_addr
            };
            label = format!(
                "fragment/f{}/{}B {}",
                frag.get(1).copied().unwrap_or(0),
                frag.len(),
                hex(&frag[..frag.len().min(24)])
            );
            let mut tseq = sim.tseq;
            let bytes = encode_fragment(true, dest, src, &frag, &mut tseq);
            sim.tseq = tseq;
            let (_, chunks) = chunking(&mut r, &bytes);
            for c in &chunks {
                sim.pipe.push(c);
            }
        }
        hist.push(format!("t={} [{state}] {label}", sim.now()));
        out::eval(1);
        let ex0 = settle_exhausted();
        let rounds = settle().await;
        if settle_exhausted() > ex0 {
            viol(
                "spin",
                state,
                format!("endpoint did not become quiescent after {rounds} scheduler rounds"),
                &hist,
            );
            break;
        }
        // let timers run a little (retries, keep-alive), then check quiescence again
        sim.advance(r.range(0, 60)).await;
        let _ = sim.collect();
        out::distinct(&format!(
            "out/{state}/{}/{}",
            label.split('/').take(2).collect::<Vec<_>>().join("/"),
            if cfg.discard { "discard" } else { "close" }
        ));
        if record_panics(
            a,
            "outstation session",
            &[],
            J::arr(hist.iter().rev().take(8).rev().cloned()),
        ) {
            break;
        }
        if sim.pipe.dropped() {
            if cfg.discard && !sim.task_finished() {
                // in discard mode garbage never ends the session; only I/O errors do
                viol(
                    "session_ended_in_discard_mode",
                    state,
                    "the session ended although the link error mode is Discard".into(),
                    &hist,
                );
            }
            out::count(
                if framing_error {
                    "close_mode_session_ended_on_framing_error"
                } else {
                    "session_ended"
                },
                1,
            );
            sim.reconnect_preempt().await;
            let _ = sim.collect();
            hist.push("(session had ended: new connection)".into());
        } else if framing_error && !cfg.discard {
            viol(
                "close_mode_no_error",
                state,
                "framing error in Close mode did not end the session".into(),
                &hist,
            );
        }
    }
    if sim.task_finished() {
        record_panics(a, "outstation session", &[], J::arr(hist.iter().cloned()));
        viol(
            "task_ended",
            state,
            "the outstation server task ended".into(),
            &hist,
        );
        return;
    }
    // ---------------- liveness probes
    // flush whatever partial frame / fragment is pending with a clean link status request
    let probe = rl::Frame::new(
        rl::F_REQUEST_LINK_STATUS | rl::DIR,
        cfg.out_addr,
        cfg.master_addr,
        &[],
    )
    .encode();
    let mut flush = vec![0u8; 0];
    // discard mode: a damaged header may make the parser wait for up to 282 more bytes; feed filler frames
    for _ in 0..2 {
        flush.extend(rl::Frame::new(0x44 | rl::DIR, 2, 3, &[0x55; 250]).encode());
    }
    sim.pipe.push(&flush);
    settle().await;
    if sim.pipe.dropped() {
        sim.reconnect_preempt().await;
    }
    let _ = sim.collect();
    sim.pipe.push(&probe);
    settle().await;
    let rx = sim.collect();
    let answered = rx
        .iter()
        .any(|x| matches!(x, Rx::Link { frame, .. } if frame.ctrl & 0x4F == rl::F_LINK_STATUS));
    if !answered {
        viol(
            "wedged_link",
            state,
            "link status request not answered after the hostile input".into(),
            &hist,
        );
    } else {
        out::count("probe_link_status_ok", 1);
    }
    // application probe: READ class 0 with a fresh sequence number
    let pseq = (seq + 5) & 15;
    let rd = ra::B::request(ra::F_READ, pseq).all(60, 1).done();
    // make sure the transport assembler is not in the middle of something: send FIR+FIN segment
    sim.send(&rd);
    settle().await;
    let mut got = sim
        .collect()
        .iter()
        .filter_map(|x| x.fragment().map(|f| f.to_vec()))
        .any(|f| f.len() >= 2 && f[1] == ra::F_RESPONSE && f[0] & 0x0F == pseq);
    let mut waited = 0u64;
    let bound = cfg.confirm_timeout_ms * 4 + cfg.unsol_retry_delay_ms + 2000;
    // a peer that keeps talking without ever confirming must not keep the outstation in a confirm wait: while waiting for
    // the answer, the same READ is repeated or link status is requested more often than the confirm time-out expires
    let chatter = r.below(3);
    if chatter > 0 && !got {
        out::count("probe_with_chatter", 1);
    }
    while !got && waited < bound {
        let step = if chatter > 0 { (cfg.confirm_timeout_ms / 2).max(1) } else { cfg.confirm_timeout_ms };
        sim.advance(step).await;
        waited += step;
        match chatter {
            1 => {
                sim.send(&rd);
                settle().await;
            }
            2 => {
                sim.pipe.push(&probe);
                settle().await;
            }
            _ => {}
        }
        got = sim
            .collect()
            .iter()
            .filter_map(|x| x.fragment().map(|f| f.to_vec()))
            .any(|f| f.len() >= 2 && f[1] == ra::F_RESPONSE && f[0] & 0x0F == pseq);
    }
    if !got {
        viol(
            "wedged_app",
            state,
            format!("READ class 0 probe not answered within {bound} virtual ms"),
            &hist,
        );
    } else {
        out::count("probe_read_ok", 1);
    }
    record_panics(
        a,
        "outstation session (probe)",
        &[],
        J::arr(hist.iter().cloned()),
    );
    if a.replay.is_some() {
        for l in crate::verif::trace::tail(80) {
            eprintln!("TRACE {l}");
        }
        for h in &hist {
            eprintln!("HIST {h}");
        }
    }
    if out::sample_count() < 2 {
        out::sample(J::obj(vec![
            ("role", J::s("outstation")),
            ("state", J::s(state)),
            ("history", J::arr(hist.iter().cloned())),
        ]));
    }
}

pub fn run(a: &ShardArgs) -> Result<(), String> {
    let only: Option<u64> = a
        .replay
        .as_ref()
        .and_then(|p| super::common::replay_scenario(p));
    if only.is_none() {
        direct(a);
    }
    if a.extra.iter().any(|x| x == "--direct-only") {
        // interpreter runs: parsers, formatters, extraction, link and transport readers only (no sessions)
        return Ok(());
    }
    let n = a.n(6000);
    for idx in 0..n {
        if idx % a.nshards != a.shard {
            continue;
        }
        if let Some(o) = only {
            if o != idx {
                continue;
            }
        }
        out::progress(&format!("out scenario {idx}"));
        run_scenario(out_scenario(a, idx));
    }
    crate::verif::checks::c01m::run(a, only)?;
    Ok(())
}
