//! C19 — master scheduling: requests first and in order, polls on period, one at a time.
//! Engine E1 (master under test). The harness is every outstation, the user and the clock;
//! the oracle is a reference schedule model evaluated at every request the master writes.

use crate::verif::io;
use crate::verif::out::{self, J};
use crate::verif::refcodec::app as ra;
use crate::verif::refcodec::link as rl;
use crate::verif::sim::master::*;
use crate::verif::sim::*;
use crate::verif::ShardArgs;

const P: &str = "C19";
const BASE: u16 = 1024;

struct PollM {
    assoc: usize,
    hdr: [u8; 3],
    period: u64,
    due: u64,
    handle: crate::master::PollHandle,
    inflight: bool,
}

struct UserM {
    assoc: usize,
    id: u16,
    write: bool,
    submit_t: u64,
    stamp: u64,
    sent: bool,
}

struct AssocM {
    t_r: u64,
    keep_alive: Option<u64>,
    last_rx: u64,
    /// order stamp of the last request served for this association (initially: registration order)
    last_served: u64,
}

#[derive(Clone, Debug)]
enum What {
    User(usize),
    Poll(usize),
    KeepAlive,
}

struct Outstanding {
    assoc: usize,
    what: What,
    sent_t: u64,
    seq: u8,
    /// virtual time at which the harness answers (None: never)
    reply_at: Option<u64>,
}

#[derive(Clone, Debug)]
enum Stim {
    Submit(usize, usize),
    Demand(usize),
    Unsol(usize),
    Stale(usize),
    LinkNoise(usize),
    /// disable the channel for this many ms, then enable it and give it a new connection
    Toggle(u64),
}

async fn scenario(a: &ShardArgs, idx: u64) {
    let mut r = a.rng(&format!("c19/{idx}"));
    let spin0 = settle_exhausted();
    let spins0 = crate::verif::probe::spins();
    let mut mc = MasterCfg::default();
    mc.decode = r.usize_below(108);
    let n_assoc = 1 + r.usize_below(3);
    let mut acs = vec![];
    for i in 0..n_assoc {
        let mut ac = AssocCfg::quiet(BASE + i as u16);
        ac.response_timeout_ms = *r.pick(&[200u64, 1000]);
        ac.keep_alive_ms = *r.pick(&[None, None, Some(1500u64), Some(4000)]);
        ac.max_queued = 64;
        acs.push(ac);
    }
    let mut sim = MasterSim::start(mc, &acs).await;
    let t0 = sim.now();
    let mut am: Vec<AssocM> = acs
        .iter()
        .enumerate()
        .map(|(i, c)| AssocM {
            t_r: c.response_timeout_ms,
            keep_alive: c.keep_alive_ms,
            last_rx: t0,
            last_served: i as u64,
        })
        .collect();
    let mut hist: Vec<String> = vec![format!(
        "assocs: {:?}",
        acs.iter()
            .map(|c| (c.addr, c.response_timeout_ms, c.keep_alive_ms))
            .collect::<Vec<_>>()
    )];
    // polls
    let vars = [
        (crate::app::Variation::Group1Var0, [1u8, 0, 6]),
        (crate::app::Variation::Group10Var0, [10, 0, 6]),
        (crate::app::Variation::Group20Var0, [20, 0, 6]),
    ];
    let mut polls: Vec<PollM> = vec![];
    for i in 0..n_assoc {
        for j in 0..r.usize_below(3) {
            // one poll in six never comes due by itself (the longest period there is): it runs when demanded only, and the
            // other polls keep their periods next to it
            let demand_only = r.chance(1, 6);
            let period = if demand_only { 1u64 << 50 } else { *r.pick(&[300u64, 700, 1000, 2500]) };
            let mut h = sim.assocs[i].1.clone();
            let now = sim.now();
            if demand_only {
                out::count("demand_only_polls", 1);
            }
            let ph = h
                .add_poll(
                    crate::master::ReadRequest::all_objects(vars[j].0),
                    if demand_only { std::time::Duration::MAX } else { std::time::Duration::from_millis(period) },
                )
                .await;
            settle().await;
            let Ok(ph) = ph else {
                out::count("harness_add_poll_failed", 1);
                return;
            };
            hist.push(format!(
                "t={now} add poll #{} assoc={i} g{}v0 period={period}",
                polls.len(),
                vars[j].1[0]
            ));
            polls.push(PollM {
                assoc: i,
                hdr: vars[j].1,
                period,
                due: now + period,
                handle: ph,
                inflight: false,
            });
        }
    }
    // script
    let horizon = 9000u64;
    let mut script: Vec<(u64, Stim)> = vec![];
    for _ in 0..r.range(3, 14) {
        let t = match r.below(3) {
            0 => r.below(horizon / 100) * 100,
            1 => r.below(horizon / 10) * 10,
            _ => r.below(horizon),
        };
        let ai = r.usize_below(n_assoc);
        let st = match r.below(10) {
            0..=4 => Stim::Submit(ai, 1 + r.usize_below(4)),
            5 if !polls.is_empty() => Stim::Demand(r.usize_below(polls.len())),
            6 => Stim::Unsol(ai),
            7 => Stim::Stale(ai),
            8 if r.bool() => Stim::LinkNoise(ai),
            8 => Stim::Toggle(*r.pick(&[0u64, 50, 400, 1500])),
            _ => Stim::Submit(ai, 1),
        };
        // traffic stimuli at odd instants so that they never coincide with a model deadline
        let t = if matches!(st, Stim::Unsol(_) | Stim::Stale(_) | Stim::LinkNoise(_)) {
            t / 10 * 10 + 3
        } else {
            t
        };
        script.push((t, st));
    }
    script.sort_by_key(|x| x.0);
    let mut script: std::collections::VecDeque<(u64, Stim)> = script.into();
    let mut users: Vec<UserM> = vec![];
    let mut next_user_id: u16 = 1;
    let mut outstanding: Option<Outstanding> = None;
    let mut t_free: u64 = t0; // the channel has been free since
    let mut violations: Vec<(String, String, String)> = vec![];
    let mut stimuli = 0u64;
    let mut writes = 0u64;
    let sched0 = crate::verif::probe::master_sched_count();
    let mut spun = false;
    let mut unsol_seq = 0u8;
    let mut inconclusive = false;
    let end = horizon + 4000;

    loop {
        // ---- everything the master wrote
        for x in sim.collect() {
            let (ord, t, dest, frag): (u64, u64, u16, Option<Vec<u8>>) = match x {
                Rx::Fragment {
                    ord,
                    t_ms,
                    dest,
                    bytes,
                    ..
                } => {
                    if bytes.len() == 2 && bytes[1] == ra::F_CONFIRM {
                        continue;
                    }
                    (ord, t_ms, dest, Some(bytes))
                }
                Rx::Link { ord, t_ms, frame } if frame.ctrl & 0x4F == rl::F_REQUEST_LINK_STATUS => {
                    (ord, t_ms, frame.dest, None)
                }
                Rx::Link { .. } => continue,
                Rx::Garbage { why, .. } => {
                    violations.push((
                        "wire".into(),
                        "garbage".into(),
                        format!("master wrote garbage: {why}"),
                    ));
                    continue;
                }
            };
            writes += 1;
            let ai = (dest.wrapping_sub(BASE)) as usize;
            if ai >= n_assoc {
                violations.push((
                    "wire".into(),
                    "unknown-destination".into(),
                    format!("request to unknown address {dest}"),
                ));
                continue;
            }
            // the previous request completes by time-out if it was never answered
            if let Some(o) = &outstanding {
                let expiry = o.sent_t + am[o.assoc].t_r;
                if o.reply_at.is_none() && t >= expiry {
                    if let What::Poll(p) = o.what {
                        polls[p].due = expiry + polls[p].period;
                        polls[p].inflight = false;
                    }
                    t_free = expiry;
                    outstanding = None;
                }
            }
            // identify
            let what = match &frag {
                None => What::KeepAlive,
                Some(b) => {
                    if b[1] == ra::F_READ && b.len() == 5 {
                        match polls
                            .iter()
                            .position(|p| p.assoc == ai && p.hdr[..] == b[2..5])
                        {
                            Some(p) => What::Poll(p),
                            None => {
                                violations.push((
                                    "wire".into(),
                                    "unknown-read".into(),
                                    format!("unexpected READ {}", hexs(b)),
                                ));
                                continue;
                            }
                        }
                    } else {
                        let id = if b[1] == ra::F_READ && b.len() >= 9 {
                            u16::from_le_bytes([b[5], b[6]])
                        } else if b[1] == ra::F_WRITE && b.len() >= 11 {
                            u16::from_le_bytes([b[7], b[8]])
                        } else {
                            0
                        };
                        match users.iter().position(|u| u.assoc == ai && u.id == id) {
                            Some(u) => What::User(u),
                            None => {
                                violations.push((
                                    "wire".into(),
                                    "unknown-request".into(),
                                    format!("unexpected request {}", hexs(b)),
                                ));
                                continue;
                            }
                        }
                    }
                }
            };
            hist.push(format!("t={t} -> assoc={ai} {what:?}"));
            // Q5 one at a time
            if let Some(o) = &outstanding {
                violations.push(("Q5_one_at_a_time".into(), format!("{:?}-while-{:?}", kind(&what), kind(&o.what)), format!("t={t}: {what:?} for association {ai} written while {:?} for association {} (sent t={}) is outstanding", o.what, o.assoc, o.sent_t)));
            } else {
                out::count("Q5_channel_free_ok", 1);
            }
            // eligibility of everything that is pending, as of this write
            let mut min_e = u64::MAX;
            let mut user_waiting: Vec<(usize, usize)> = vec![]; // (assoc, user index) settled before this write and unsent
            for (ui, u) in users.iter().enumerate() {
                if !u.sent {
                    min_e = min_e.min(u.submit_t);
                    if u.stamp < ord {
                        user_waiting.push((u.assoc, ui));
                    }
                }
            }
            let mut timer_eligible: Vec<(usize, String)> = vec![];
            for (pi, p) in polls.iter().enumerate() {
                if !p.inflight {
                    min_e = min_e.min(p.due);
                    if p.due <= t {
                        timer_eligible.push((p.assoc, format!("poll#{pi}")));
                    }
                }
            }
            for (i, m) in am.iter().enumerate() {
                if let Some(k) = m.keep_alive {
                    min_e = min_e.min(m.last_rx + k);
                    if m.last_rx + k <= t {
                        timer_eligible.push((i, "keep-alive".into()));
                    }
                }
            }
            // own eligibility
            match &what {
                What::Poll(p) => {
                    if t < polls[*p].due {
                        violations.push((
                            "Q2_poll_early".into(),
                            "poll".into(),
                            format!(
                                "t={t}: poll #{p} (period {}) sent {} ms before it is due (t={})",
                                polls[*p].period,
                                polls[*p].due - t,
                                polls[*p].due
                            ),
                        ));
                    } else {
                        out::count("Q2_poll_not_early_ok", 1);
                    }
                    if polls[*p].inflight {
                        violations.push(("Q2_poll_twice".into(), "poll".into(), format!("t={t}: poll #{p} sent again while its previous run has not completed")));
                    }
                }
                What::KeepAlive => {
                    let k = am[ai].keep_alive.unwrap_or(u64::MAX / 4);
                    if t < am[ai].last_rx + k {
                        violations.push(("Q4_keep_alive_early".into(), "keep-alive".into(), format!("t={t}: link status request to association {ai} although it was heard at t={} (keep-alive {:?})", am[ai].last_rx, am[ai].keep_alive)));
                    } else {
                        out::count("Q4_keep_alive_after_silence_ok", 1);
                    }
                    if polls
                        .iter()
                        .any(|p| p.assoc == ai && !p.inflight && p.due <= t)
                    {
                        violations.push(("Q4_keep_alive_before_poll".into(), "keep-alive".into(), format!("t={t}: link status request to association {ai} while one of its polls is due")));
                    }
                }
                What::User(u) => {
                    // Q1 FIFO within the association
                    if let Some(earlier) = users
                        .iter()
                        .position(|x| x.assoc == ai && !x.sent && x.stamp < users[*u].stamp)
                    {
                        violations.push(("Q1_fifo".into(), "user".into(), format!("t={t}: request id {} of association {ai} sent before id {} which was submitted earlier", users[*u].id, users[earlier].id)));
                    } else {
                        out::count("Q1_fifo_ok", 1);
                    }
                }
            }
            // Q1 user requests ahead of polls and keep-alives
            if !matches!(what, What::User(_)) {
                if let Some((ua, ui)) = user_waiting.first() {
                    violations.push(("Q1_user_first".into(), format!("{:?}-before-user", kind(&what)), format!("t={t}: {what:?} for association {ai} sent while user request id {} of association {ua} (submitted t={}) is waiting", users[*ui].id, users[*ui].submit_t)));
                } else {
                    out::count("Q1_no_user_waiting_ok", 1);
                }
            }
            // Q3 taking turns: among associations with something of the same class waiting, the least recently served one goes first
            let rivals: Vec<usize> = match &what {
                What::User(_) => user_waiting.iter().map(|x| x.0).collect(),
                _ => timer_eligible.iter().map(|x| x.0).collect(),
            };
            if let Some(b) = rivals
                .iter()
                .find(|b| **b != ai && am[**b].last_served < am[ai].last_served)
            {
                violations.push(("Q3_turns".into(), format!("{:?}", kind(&what)), format!("t={t}: association {ai} served (last served stamp {}) although association {b} (last served stamp {}) also has a {:?} waiting", am[ai].last_served, am[*b].last_served, kind(&what))));
            } else if rivals.iter().any(|b| *b != ai) {
                out::count("Q3_turn_taken_in_order_ok", 1);
            }
            // Q6 no sleeping while something is due, no early wake-up: the write happens at max(channel free, earliest eligibility)
            let want = t_free.max(min_e);
            if t != want {
                violations.push(("Q6_wake_time".into(), if t > want { "late" } else { "early" }.into(), format!("t={t}: {what:?} for association {ai}; channel free since t={t_free}, earliest pending eligibility t={min_e}: expected the next request at t={want}")));
            } else {
                out::count("Q6_wake_exact_ok", 1);
                if t > t_free {
                    out::count("Q6_woke_at_deadline_ok", 1);
                }
            }
            // bookkeeping
            am[ai].last_served = ord;
            match &what {
                What::User(u) => users[*u].sent = true,
                What::Poll(p) => polls[*p].inflight = true,
                What::KeepAlive => {}
            }
            let policy = r.below(10);
            let delay = match policy {
                0 => None,
                1 | 2 => Some(r.range(1, am[ai].t_r / 10 - 1) * 10 - 5),
                _ => Some(0),
            };
            let now = sim.now();
            if now - t >= am[ai].t_r / 2 {
                inconclusive = true;
            }
            let seq = frag.as_ref().map(|b| b[0] & 15).unwrap_or(0);
            outstanding = Some(Outstanding {
                assoc: ai,
                what,
                sent_t: t,
                seq,
                reply_at: delay.map(|d| (t + d).max(now)),
            });
        }
        if inconclusive {
            break;
        }
        if settle_exhausted() > spin0 || crate::verif::probe::spins() > spins0 {
            violations.push(("Q6_spin".into(), "never-rests".into(), format!("t={}: the master task keeps running ({} scheduler passes so far) although nothing is due and virtual time stands still", sim.now(), crate::verif::probe::master_sched_count() - sched0)));
            spun = true;
            break;
        }
        let now = sim.now();
        // ---- answer the outstanding request when its time has come
        if let Some(o) = &outstanding {
            if let Some(at) = o.reply_at {
                if at <= now {
                    let addr = BASE + o.assoc as u16;
                    match &o.what {
                        What::KeepAlive => sim.send_link(addr, rl::F_LINK_STATUS),
                        What::User(u) if users[*u].write => sim.send_from(
                            addr,
                            &ra::B::response(ra::FIR | ra::FIN | o.seq, false, 0, 0).done(),
                        ),
                        _ => sim.send_from(
                            addr,
                            &ra::B::response(ra::FIR | ra::FIN | o.seq, false, 0, 0)
                                .range8(30, 1, 0, 0, &[1, 7, 0, 0, 0])
                                .done(),
                        ),
                    }
                    stimuli += 1;
                    hist.push(format!(
                        "t={now} <- reply from assoc={} to {:?}",
                        o.assoc, o.what
                    ));
                    am[o.assoc].last_rx = now;
                    if let What::Poll(p) = o.what {
                        polls[p].due = now + polls[p].period;
                        polls[p].inflight = false;
                    }
                    t_free = now;
                    outstanding = None;
                    settle().await;
                    continue;
                }
            } else if now >= o.sent_t + am[o.assoc].t_r {
                let expiry = o.sent_t + am[o.assoc].t_r;
                if let What::Poll(p) = o.what {
                    polls[p].due = expiry + polls[p].period;
                    polls[p].inflight = false;
                }
                t_free = expiry;
                hist.push(format!(
                    "t={expiry} (time-out of {:?} assoc={})",
                    o.what, o.assoc
                ));
                outstanding = None;
                continue;
            }
        }
        // ---- scripted stimuli that are due
        if let Some((st_t, _)) = script.front() {
            if *st_t <= now {
                let (_, st) = script.pop_front().unwrap();
                stimuli += 1;
                match st {
                    Stim::Submit(ai, n) => {
                        for _ in 0..n {
                            let id = next_user_id;
                            next_user_id += 1;
                            let write = r.chance(1, 3);
                            let req = if write {
                                UserReq::WriteDeadBands(vec![(id, id)])
                            } else {
                                UserReq::ReadRange16(30, 2, id, id)
                            };
                            sim.submit(ai, req);
                            settle().await;
                            let stamp = io::bump();
                            hist.push(format!("t={now} submit id={id} assoc={ai} write={write}"));
                            users.push(UserM {
                                assoc: ai,
                                id,
                                write,
                                submit_t: now,
                                stamp,
                                sent: false,
                            });
                        }
                    }
                    Stim::Demand(p) => {
                        if !polls[p].inflight {
                            polls[p].due = polls[p].due.min(now);
                        }
                        let _ = polls[p].handle.demand().await;
                        hist.push(format!("t={now} demand poll #{p}"));
                        settle().await;
                        if polls[p].inflight {
                            // a demand during the poll's own run is overwritten at completion; nothing to model
                        }
                    }
                    Stim::Unsol(ai) => {
                        unsol_seq = (unsol_seq + 1) & 15;
                        sim.send_from(
                            BASE + ai as u16,
                            &ra::B::response(
                                ra::FIR | ra::FIN | ra::UNS | ra::CON | unsol_seq,
                                true,
                                0,
                                0,
                            )
                            .done(),
                        );
                        am[ai].last_rx = now;
                        hist.push(format!("t={now} <- unsolicited (empty) from assoc={ai}"));
                        settle().await;
                    }
                    Stim::Stale(ai) => {
                        // a solicited response nobody asked for (sequence chosen not to match an outstanding request)
                        let s = outstanding.as_ref().map(|o| (o.seq + 7) & 15).unwrap_or(5);
                        sim.send_from(
                            BASE + ai as u16,
                            &ra::B::response(ra::FIR | ra::FIN | s, false, 0, 0).done(),
                        );
                        am[ai].last_rx = now;
                        hist.push(format!("t={now} <- stale response from assoc={ai}"));
                        settle().await;
                    }
                    Stim::Toggle(down) => {
                        hist.push(format!("t={now} channel disabled for {down} ms"));
                        let _ = sim.channel.disable().await;
                        settle().await;
                        let _ = sim.collect();
                        // what was outstanding is abandoned, queued user requests fail, a poll in flight is rescheduled from now
                        if let Some(o) = outstanding.take() {
                            if let What::Poll(p) = o.what {
                                polls[p].due = now + polls[p].period;
                                polls[p].inflight = false;
                            }
                        }
                        for u in users.iter_mut() {
                            u.sent = true;
                        }
                        let until = now + down;
                        while sim.now() < until {
                            sim.advance((until - sim.now()).min(50)).await;
                            for x in sim.collect() {
                                if let Rx::Fragment { .. } | Rx::Link { .. } = x {
                                    violations.push(("Q7_write_while_disabled".into(), "disabled".into(), format!("t={}: the master wrote {x:?} while its channel was disabled", sim.now())));
                                }
                            }
                        }
                        out::count("Q7_silent_while_disabled_ok", 1);
                        let _ = sim.channel.enable().await;
                        sim.connect().await;
                        t_free = sim.now();
                        hist.push(format!("t={} channel enabled, new connection", sim.now()));
                        settle().await;
                    }
                    Stim::LinkNoise(ai) => {
                        sim.send_link(BASE + ai as u16, rl::F_LINK_STATUS);
                        am[ai].last_rx = now;
                        // a LINK_STATUS from the outstation that is being asked IS the answer
                        if matches!(&outstanding, Some(o) if o.assoc == ai && matches!(o.what, What::KeepAlive))
                        {
                            t_free = now;
                            outstanding = None;
                        }
                        hist.push(format!(
                            "t={now} <- unrequested LINK_STATUS from assoc={ai}"
                        ));
                        settle().await;
                    }
                }
                continue;
            }
        }
        if (now >= end && outstanding.is_none() && users.iter().all(|u| u.sent))
            || writes > 150
            || now > end + 60_000
        {
            break;
        }
        // ---- advance to the next thing the harness has to do, in small steps so that requests are noticed promptly
        let mut next = now + 20;
        if let Some((st_t, _)) = script.front() {
            next = next.min(*st_t);
        }
        if let Some(o) = &outstanding {
            next = next.min(o.reply_at.unwrap_or(o.sent_t + am[o.assoc].t_r));
        }
        sim.advance(next.max(now + 1) - now).await;
    }
    if inconclusive {
        out::count("harness_inconclusive_late_notice", 1);
        return;
    }
    // ---- at the end: every user request was sent (none starved) and produced exactly one outcome
    for u in &users {
        if !u.sent && writes <= 150 && !spun {
            violations.push((
                "Q1_user_starved".into(),
                "user".into(),
                format!(
                    "request id {} of association {} submitted t={} was never sent",
                    u.id, u.assoc, u.submit_t
                ),
            ));
        }
    }
    // ---- Q6 no spinning: scheduler passes are bounded by the things that happened
    let sched = crate::verif::probe::master_sched_count() - sched0;
    let events = stimuli + writes + users.len() as u64 + 4;
    out::count("scheduler_passes", sched);
    out::count("scheduler_events", events);
    if spun {
    } else if sched > 4 * events + 16 {
        violations.push(("Q6_spin".into(), "sched".into(), format!("{sched} scheduler passes for {events} events (stimuli {stimuli}, requests {writes}) in {} ms of virtual time", sim.now())));
    } else {
        out::count("Q6_no_spin_ok", 1);
    }
    out::eval(1);
    out::count("requests_observed", writes);
    for (rule, sig, why) in &violations {
        out::violation(
            P,
            &format!("C19.{rule}"),
            sig,
            J::obj(vec![
                ("why", J::s(why.clone())),
                ("history", J::arr(hist.iter().cloned())),
            ]),
            J::obj(vec![
                ("check", J::s("c19")),
                ("seed", J::U(a.seed)),
                ("shard", J::U(a.shard)),
                ("nshards", J::U(a.nshards)),
                ("scenario", J::U(idx)),
            ]),
        );
    }
    out::distinct(&format!(
        "n{}polls{}ka{}users{}",
        n_assoc,
        polls.len(),
        am.iter().filter(|m| m.keep_alive.is_some()).count(),
        users.len().min(6)
    ));
    for p in crate::verif::util::take_panics() {
        if p.message.starts_with("verif: spin") {
            continue;
        }
        out::violation(
            P,
            "C19.panic",
            &crate::verif::util::norm_location(&p.location),
            J::obj(vec![
                (
                    "why",
                    J::s(format!("panic {} at {}", p.message, p.location)),
                ),
                ("history", J::arr(hist.iter().cloned())),
            ]),
            J::obj(vec![
                ("check", J::s("c19")),
                ("seed", J::U(a.seed)),
                ("shard", J::U(a.shard)),
                ("nshards", J::U(a.nshards)),
                ("scenario", J::U(idx)),
            ]),
        );
    }
    if a.replay.is_some() {
        for h in &hist {
            eprintln!("HIST {h}");
        }
    }
    if out::sample_count() < 2 {
        out::sample(J::obj(vec![("history", J::arr(hist.iter().cloned()))]));
    }
}

fn kind(w: &What) -> &'static str {
    match w {
        What::User(_) => "user",
        What::Poll(_) => "poll",
        What::KeepAlive => "keep-alive",
    }
}

pub fn run(a: &ShardArgs) -> Result<(), String> {
    let only: Option<u64> = a
        .replay
        .as_ref()
        .and_then(|p| super::common::replay_scenario(p));
    let n = a.n(20000);
    for idx in 0..n {
        if idx % a.nshards != a.shard {
            continue;
        }
        if let Some(o) = only {
            if o != idx {
                continue;
            }
        }
        out::progress(&format!("scenario {idx}"));
        run_scenario(scenario(a, idx));
    }
    Ok(())
}
