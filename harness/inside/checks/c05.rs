//! C05 — a retransmitted request is answered from memory and never executed twice;
//! every re-sent fragment is identical to one already transmitted.

use crate::app::measurement::*;
use crate::outstation::database::*;
use crate::verif::checks::c12::{populate, some_events};
use crate::verif::gen;
use crate::verif::out::{self, J};
use crate::verif::refcodec::app as ra;
use crate::verif::rng::Rng;
use crate::verif::sim::outstation::*;
use crate::verif::sim::*;
use crate::verif::util::hex;
use crate::verif::ShardArgs;

const P: &str = "C05";

struct Cx<'a> {
    a: &'a ShardArgs,
    idx: u64,
    cfg: OutCfg,
    hist: Vec<String>,
    /// every application fragment transmitted in this session (connection)
    sent: Vec<Vec<u8>>,
}

impl Cx<'_> {
    fn viol(&self, rule: &str, sig: &str, why: String, extra: J) {
        out::violation(
            P,
            &format!("C05.{rule}"),
            sig,
            J::obj(vec![
                ("why", J::s(why)),
                ("extra", extra),
                ("config", self.cfg.to_json()),
                ("history", J::arr(self.hist.iter().cloned())),
            ]),
            J::obj(vec![
                ("check", J::s("c05")),
                ("seed", J::U(self.a.seed)),
                ("shard", J::U(self.a.shard)),
                ("nshards", J::U(self.a.nshards)),
                ("scenario", J::U(self.idx)),
            ]),
        );
    }
    fn record(&mut self, rx: &[Rx]) -> (Vec<Vec<u8>>, Vec<Vec<u8>>) {
        let (mut sol, mut unsol) = (vec![], vec![]);
        for x in rx {
            if let Some(f) = x.fragment() {
                if f.len() >= 2 && f[1] == ra::F_UNSOL_RESPONSE {
                    unsol.push(f.to_vec());
                } else {
                    sol.push(f.to_vec());
                }
            }
        }
        (sol, unsol)
    }
    fn remember(&mut self, frags: &[Vec<u8>]) {
        for f in frags {
            self.sent.push(f.clone());
        }
    }
}

/// a request of a function the outstation executes (non-READ), acceptable to it
fn executable_request(r: &mut Rng, seq: u8) -> (Vec<u8>, String) {
    let f = r.pick_copy(&[
        ra::F_WRITE,
        ra::F_SELECT,
        ra::F_OPERATE,
        ra::F_DIRECT_OPERATE,
        ra::F_DIRECT_OPERATE_NR,
        ra::F_IMMED_FREEZE,
        ra::F_IMMED_FREEZE_NR,
        ra::F_FREEZE_CLEAR,
        ra::F_FREEZE_CLEAR_NR,
        ra::F_FREEZE_AT_TIME,
        ra::F_FREEZE_AT_TIME_NR,
        ra::F_COLD_RESTART,
        ra::F_WARM_RESTART,
        ra::F_ENABLE_UNSOL,
        ra::F_DISABLE_UNSOL,
        ra::F_DELAY_MEASURE,
        ra::F_RECORD_CURRENT_TIME,
    ]);
    let mut b = ra::B::request(f, seq);
    let mut label = format!("f{f}");
    match f {
        ra::F_WRITE => match r.below(5) {
            4 => {
                // a writable device attribute of a private set (defined at start-up): VSTR value
                let text = format!("w{}", r.u16());
                let mut o = vec![0u8, 1, 0x00, 7, 7, 1, text.len() as u8];
                o.extend_from_slice(text.as_bytes());
                b = b.raw(&o);
                label += "/device-attribute";
            }
            0 => {
                b = b.range8(80, 1, 7, 7, &[0]);
                label += "/restart-iin";
            }
            1 => {
                b = b.count8(50, 1, 1, &ra::time48(r.u64() & 0xFFFF_FFFF_FFFF));
                label += "/abs-time";
            }
            2 => {
                b = b.prefixed8(
                    34,
                    1,
                    &[(r.below(5) as u8, (r.u16() % 1000).to_le_bytes().to_vec())],
                );
                label += "/dead-band";
            }
            _ => {
                b = b.count8(50, 3, 1, &ra::time48(r.u64() & 0xFFFF_FFFF));
                label += "/time-at-last-recorded";
            }
        },
        ra::F_SELECT | ra::F_OPERATE | ra::F_DIRECT_OPERATE | ra::F_DIRECT_OPERATE_NR => {
            let n = r.range(1, 2) as usize;
            b = b.raw(&gen::control_objects(r, n));
        }
        ra::F_IMMED_FREEZE | ra::F_IMMED_FREEZE_NR | ra::F_FREEZE_CLEAR | ra::F_FREEZE_CLEAR_NR => {
            b = if r.bool() {
                b.all(20, 0)
            } else {
                b.range8(20, 0, 0, 3, &[])
            };
        }
        ra::F_FREEZE_AT_TIME | ra::F_FREEZE_AT_TIME_NR => {
            let mut d = ra::time48(r.u64() & 0xFFFF_FFFF);
            d.extend_from_slice(&(r.u32() % 1000).to_le_bytes());
            b = b.count8(50, 2, 1, &d).all(20, 0);
        }
        ra::F_ENABLE_UNSOL | ra::F_DISABLE_UNSOL => {
            b = b.all(60, r.range(2, 4) as u8);
        }
        _ => {}
    }
    (b.done(), label)
}

fn side_effects(evs: &[(u64, Ev)]) -> Vec<String> {
    evs.iter()
        .filter(|(_, e)| e.is_side_effect())
        .map(|(_, e)| format!("{e:?}"))
        .collect()
}

fn disturb(sim: &OutSim, r: &mut Rng, n: u16, t: u64) -> &'static str {
    if n == 0 {
        return "none";
    }
    let i = r.below(n as u64) as u16;
    sim.db(|db| {
        db.update(
            i,
            &AnalogInput::new(t as f64 + 0.5, Flags::ONLINE, Time::synchronized(t)),
            UpdateOptions::new(true, EventMode::Force),
        );
        db.update(
            i,
            &BinaryInput::new(t % 2 == 0, Flags::ONLINE, Time::synchronized(t)),
            UpdateOptions::new(true, EventMode::Force),
        )
    });
    "event"
}

async fn scenario(a: &ShardArgs, idx: u64) {
    let mut r = a.rng(&format!("c05/{idx}"));
    let mut cfg = OutCfg::default();
    cfg.sol_tx = *r.pick(&[249usize, 260, 300, 400, 2048]);
    cfg.unsol_tx = *r.pick(&[249usize, 300, 2048]);
    cfg.decode = r.usize_below(108);
    cfg.unsolicited = r.bool();
    cfg.confirm_timeout_ms = *r.pick(&[100u64, 1000]);
    cfg.max_unsol_retries = *r.pick(&[None, Some(0usize), Some(1), Some(3)]);
    cfg.unsol_retry_delay_ms = *r.pick(&[0u64, 50, 5000]);
    cfg.discard = r.bool();
    let npoints = *r.pick(&[4u16, 30, 60]);
    let mut rr = r.fork();
    let mut sim = OutSim::start_with(cfg.clone(), |db| {
        populate(db, &mut rr, npoints);
        use crate::app::attr::{AttrProp, AttrSet, OwnedAttrValue, OwnedAttribute};
        let _ = db.define_attr(
            AttrProp::writable(),
            OwnedAttribute::new(AttrSet::new(7), 1, OwnedAttrValue::VisibleString("initial".into())),
        );
    })
    .await;
    let mut cx = Cx {
        a,
        idx,
        cfg: cfg.clone(),
        hist: vec![],
        sent: vec![],
    };
    let rx = sim.collect();
    let (s0, u0) = cx.record(&rx);
    cx.remember(&s0);
    cx.remember(&u0);
    let mut seq: u8 = r.below(16) as u8;
    let mut null_outstanding = cfg.unsolicited;
    // sometimes confirm the null unsolicited response so the session is idle/ready
    if cfg.unsolicited && r.bool() {
        if let Some(u) = u0.last() {
            let _ = sim.request(&ra::B::confirm(u[0] & 0x0F, true).done()).await;
            null_outstanding = false;
        }
    }
    let _ = sim.mock.take();
    let part = r.below(3);
    match part {
        // ---------------------------------------------------------------- (a) non-READ repeats
        0 => {
            let rounds = r.range(1, 4);
            for _ in 0..rounds {
                seq = (seq + 1) & 0x0F;
                let (req, label) = executable_request(&mut r, seq);
                let state = if null_outstanding {
                    "unsol-wait"
                } else if cfg.unsolicited {
                    "unsol-ready"
                } else {
                    "idle"
                };
                cx.hist.push(format!(
                    "t={} {label} {}",
                    sim.now(),
                    hex(&req[..req.len().min(40)])
                ));
                let rx = sim.request(&req).await;
                let (sol, unsol) = cx.record(&rx);
                cx.remember(&sol);
                cx.remember(&unsol);
                let first_events = sim.mock.take();
                let first = sol.first().cloned();
                // ENABLE/DISABLE may change the unsolicited state: stop tracking it precisely
                let what = match r.below(3) {
                    0 => "none",
                    1 => disturb(&sim, &mut r, npoints, sim.now() + 1),
                    _ => {
                        sim.advance(r.range(1, 30)).await;
                        "advance"
                    }
                };
                settle().await;
                // anything the outstation sends by itself in between (unsolicited) is remembered
                let rx = sim.collect();
                let (s_mid, u_mid) = cx.record(&rx);
                cx.remember(&s_mid);
                cx.remember(&u_mid);
                let _ = sim.mock.take();
                let reps = r.range(1, 3);
                for k in 0..reps {
                    out::eval(1);
                    cx.hist
                        .push(format!("t={} repeat#{k} after {what}", sim.now()));
                    let rx = sim.request(&req).await;
                    let (sol2, unsol2) = cx.record(&rx);
                    let evs = sim.mock.take();
                    let se = side_effects(&evs);
                    let key = format!("{label}/{state}/{what}");
                    out::distinct(&format!("a/{key}"));
                    if !se.is_empty() {
                        cx.viol(
                            "re_executed",
                            &format!("{label}|{state}"),
                            format!("repeat of the last request fired callbacks {se:?}"),
                            J::hex(&req),
                        );
                    } else {
                        out::count("repeat_not_executed", 1);
                    }
                    match (&first, sol2.first()) {
                        (None, None) => out::count("repeat_no_reply_ok", 1),
                        (Some(x), Some(y)) if x == y && sol2.len() == 1 => {
                            out::count("repeat_echo_identical", 1)
                        }
                        (Some(x), Some(y)) => {
                            let d = x
                                .iter()
                                .zip(y.iter())
                                .position(|(p, q)| p != q)
                                .unwrap_or(x.len().min(y.len()));
                            let wherep = if d < 2 {
                                "ctrl"
                            } else if d < 4 {
                                "iin"
                            } else {
                                "objects"
                            };
                            cx.viol(
                                "echo_differs",
                                &format!("{wherep}|{state}|{what}"),
                                format!("echo differs from the first response at byte {d}"),
                                J::obj(vec![
                                    ("first", J::hex(x)),
                                    ("echo", J::hex(y)),
                                    ("request", J::hex(&req)),
                                ]),
                            );
                        }
                        (Some(x), None) => cx.viol(
                            "echo_missing",
                            &format!("{label}|{state}"),
                            "the repeat got no reply although the first transmission was answered"
                                .into(),
                            J::hex(x),
                        ),
                        (None, Some(y)) => cx.viol(
                            "echo_invented",
                            &format!("{label}|{state}"),
                            "a reply appeared where none was sent before".into(),
                            J::hex(y),
                        ),
                    }
                    cx.remember(&unsol2);
                }
                let _ = first_events;
            }
        }
        // ---------------------------------------------------------------- (b1) repeated READ inside a series
        1 => {
            let nev = r.range(0, 40) as usize;
            let mut rr = r.fork();
            sim.db(|db| some_events(db, &mut rr, npoints, nev, 5000));
            settle().await;
            let rx = sim.collect();
            let (s, u) = cx.record(&rx);
            cx.remember(&s);
            cx.remember(&u);
            seq = (seq + 1) & 0x0F;
            let rd = match r.below(3) {
                0 => ra::B::request(ra::F_READ, seq)
                    .all(60, 2)
                    .all(60, 3)
                    .all(60, 4)
                    .all(60, 1)
                    .done(),
                1 => ra::B::request(ra::F_READ, seq).all(60, 1).done(),
                _ => ra::B::request(ra::F_READ, seq)
                    .all(30, 0)
                    .all(1, 0)
                    .all(20, 0)
                    .all(2, 0)
                    .done(),
            };
            cx.hist.push(format!("t={} READ {}", sim.now(), hex(&rd)));
            let rx = sim.request(&rd).await;
            let (mut sol, unsol) = cx.record(&rx);
            cx.remember(&unsol);
            if sol.is_empty() && cfg.unsolicited {
                // deferred by an unsolicited confirm wait: the master may retransmit it while it is deferred
                let reps = r.below(3);
                let mut early = 0usize;
                for j in 0..reps {
                    out::eval(1);
                    cx.hist.push(format!("t={} repeat READ #{j} while it is deferred behind an unsolicited confirm wait", sim.now()));
                    let rx = sim.request(&rd).await;
                    let (es, eu) = cx.record(&rx);
                    cx.remember(&eu);
                    cx.remember(&es);
                    early += es.len();
                }
                // ... then wait for the series to end
                sim.advance(cfg.confirm_timeout_ms).await;
                let rx = sim.collect();
                let (s2, u2) = cx.record(&rx);
                cx.remember(&u2);
                sol = s2;
                // however often it was retransmitted, the deferred READ is served once
                let firsts = sol.iter().filter(|f| f[0] & ra::FIR != 0).count() + early;
                if reps > 0 {
                    if firsts > 1 {
                        cx.viol("re_executed", "deferred-read-repeat", format!("a READ retransmitted {reps} time(s) while deferred was answered {firsts} times"), J::obj(vec![("responses", J::U(firsts as u64))]));
                    } else {
                        out::count("deferred_read_repeat_served_once", 1);
                    }
                }
            }
            cx.remember(&sol);
            let mut k = 1;
            let mut last = sol.last().cloned();
            while let Some(f) = last.clone() {
                if f[0] & ra::CON == 0 || k > 30 {
                    break;
                }
                // repeat the READ while fragment k awaits its confirm
                if r.chance(2, 3) {
                    let reps = r.range(1, 3);
                    for j in 0..reps {
                        if r.chance(1, 4) {
                            disturb(&sim, &mut r, npoints, sim.now() + 7);
                        }
                        out::eval(1);
                        cx.hist.push(format!(
                            "t={} repeat READ #{j} while fragment {k} awaits confirm",
                            sim.now()
                        ));
                        let rx = sim.request(&rd).await;
                        let (es, eu) = cx.record(&rx);
                        cx.remember(&eu);
                        out::distinct(&format!(
                            "b1/frag{}/{}",
                            k.min(4),
                            if f[0] & ra::FIN != 0 {
                                "final"
                            } else {
                                "nonfinal"
                            }
                        ));
                        for e in &es {
                            if cx.sent.contains(e) {
                                out::count("series_echo_identical", 1);
                                if k >= 2 {
                                    out::count("series_echo_identical_frag2plus", 1);
                                }
                            } else {
                                let same_body_as_last = e.len() == f.len() && e[4..] == f[4..];
                                cx.viol(
                                    "resend_is_mixture",
                                    &format!("repeat-read|frag{}|{}", if k >= 2 { "2+" } else { "1" }, if same_body_as_last { "header-differs" } else { "other" }),
                                    format!("reply to a repeated READ while fragment {k} awaits confirmation is not identical to any fragment transmitted before"),
                                    J::obj(vec![("reply", J::hex(&e[..e.len().min(64)])), ("fragment_awaiting_confirm", J::hex(&f[..f.len().min(64)]))]),
                                );
                            }
                        }
                        if es.is_empty() {
                            out::count("series_repeat_unanswered", 1);
                        }
                    }
                }
                let c = ra::B::confirm(f[0] & 0x0F, false).done();
                let rx = sim.request(&c).await;
                let (s, u) = cx.record(&rx);
                cx.remember(&s);
                cx.remember(&u);
                last = s.last().cloned();
                if f[0] & ra::FIN != 0 {
                    break;
                }
                k += 1;
            }
            if k >= 2 {
                out::count("multi_fragment_series", 1);
            }
        }
        // ---------------------------------------------------------------- (b2) unsolicited retries
        _ => {
            if !cfg.unsolicited {
                return;
            }
            // make sure the null response is confirmed, enable classes, create events
            if null_outstanding {
                if let Some(u) = u0.last() {
                    let _ = sim.request(&ra::B::confirm(u[0] & 0x0F, true).done()).await;
                }
            }
            seq = (seq + 1) & 0x0F;
            let en = ra::B::request(ra::F_ENABLE_UNSOL, seq)
                .all(60, 2)
                .all(60, 3)
                .all(60, 4)
                .done();
            let rx = sim.request(&en).await;
            let (s, u) = cx.record(&rx);
            cx.remember(&s);
            cx.remember(&u);
            let mut rr = r.fork();
            let nev = r.range(1, 8) as usize;
            sim.db(|db| some_events(db, &mut rr, npoints, nev, 9000));
            settle().await;
            let rx = sim.collect();
            let (s, u) = cx.record(&rx);
            cx.remember(&s);
            cx.remember(&u);
            let Some(outstanding) = u.last().cloned() else {
                out::count("no_unsolicited_started", 1);
                return;
            };
            cx.hist.push(format!(
                "t={} unsolicited {}",
                sim.now(),
                hex(&outstanding[..outstanding.len().min(40)])
            ));
            let max = cfg.max_unsol_retries.unwrap_or(4).min(4);
            for k in 0..=max {
                // something changes while waiting: new events (IIN), a solicited non-READ request (other buffer)
                let what = match r.below(3) {
                    0 => "none",
                    1 => disturb(&sim, &mut r, npoints, sim.now() + 3),
                    _ => {
                        seq = (seq + 1) & 0x0F;
                        let q = ra::B::request(ra::F_DELAY_MEASURE, seq).done();
                        let rx = sim.request(&q).await;
                        let (s, u) = cx.record(&rx);
                        cx.remember(&s);
                        cx.remember(&u);
                        "solicited-request"
                    }
                };
                settle().await;
                let rx = sim.collect();
                let (s, u) = cx.record(&rx);
                cx.remember(&s);
                cx.remember(&u);
                sim.advance(cfg.confirm_timeout_ms).await;
                let rx = sim.collect();
                let (s, u) = cx.record(&rx);
                cx.remember(&s);
                cx.hist.push(format!(
                    "t={} timeout #{k} after {what}: {} unsolicited fragment(s)",
                    sim.now(),
                    u.len()
                ));
                for f in &u {
                    if f[0] & 0x0F == outstanding[0] & 0x0F {
                        out::eval(1);
                        out::distinct(&format!(
                            "b2/retry{}/{what}/retries{:?}",
                            k.min(3),
                            cfg.max_unsol_retries
                        ));
                        if *f == outstanding {
                            out::count("unsol_retry_identical", 1);
                        } else {
                            let d = f
                                .iter()
                                .zip(outstanding.iter())
                                .position(|(p, q)| p != q)
                                .unwrap_or(0);
                            cx.viol(
                                "resend_is_mixture",
                                &format!("unsol-retry|{}|{what}", if d < 4 { "header" } else { "objects" }),
                                format!("unsolicited retry with the outstanding sequence number differs from the original at byte {d}"),
                                J::obj(vec![("original", J::hex(&outstanding[..outstanding.len().min(64)])), ("retry", J::hex(&f[..f.len().min(64)]))]),
                            );
                        }
                    }
                }
                cx.remember(&u);
                if u.iter().any(|f| f[0] & 0x0F != outstanding[0] & 0x0F) {
                    break; // a new series started
                }
                if u.is_empty() {
                    break;
                }
            }
        }
    }
    for p in crate::verif::util::take_panics() {
        cx.viol(
            "panic",
            &crate::verif::util::norm_location(&p.location),
            format!("panic {} at {}", p.message, p.location),
            J::Null,
        );
    }
    if a.replay.is_some() {
        for l in crate::verif::trace::tail(120) {
            eprintln!("TRACE {l}");
        }
        for h in &cx.hist {
            eprintln!("HIST {h}");
        }
    }
    if out::sample_count() < 3 {
        out::sample(J::obj(vec![
            ("part", J::U(part)),
            ("history", J::arr(cx.hist.iter().cloned())),
        ]));
    }
}

pub fn run(a: &ShardArgs) -> Result<(), String> {
    let only: Option<u64> = a
        .replay
        .as_ref()
        .and_then(|p| super::common::replay_scenario(p));
    let n = a.n(8000);
    for idx in 0..n {
        if idx % a.nshards != a.shard {
            continue;
        }
        if let Some(o) = only {
            if o != idx {
                continue;
            }
        }
        out::progress(&format!("scenario {idx}"));
        run_scenario(scenario(a, idx));
    }
    Ok(())
}
