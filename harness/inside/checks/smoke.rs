//! smoke test of the simulator (not a registered check)
use crate::app::measurement::*;
use crate::outstation::database::*;
use crate::verif::refcodec::app as ra;
use crate::verif::sim::outstation::*;
use crate::verif::sim::*;
use crate::verif::ShardArgs;

pub fn run(_a: &ShardArgs) -> Result<(), String> {
    run_scenario(async {
        let mut cfg = OutCfg::default();
        cfg.unsolicited = true;
        cfg.decode = 3;
        let mut sim = OutSim::start_with(cfg, |db| {
            for i in 0..5 {
                db.add(i, Some(EventClass::Class1), BinaryInputConfig::default());
                db.add(i, Some(EventClass::Class2), AnalogInputConfig::default());
            }
        })
        .await;
        println!("t={} after start: {:?}", sim.now(), sim.collect());
        println!("events {:?}", sim.mock.take());
        let rx = sim
            .request(&ra::B::request(ra::F_READ, 0).all(60, 1).done())
            .await;
        println!("t={} read class0: {:?}", sim.now(), rx);
        sim.db(|db| {
            db.update(
                1,
                &BinaryInput::new(true, Flags::ONLINE, Time::synchronized(1000)),
                UpdateOptions::detect_event(),
            )
        });
        settle().await;
        println!("t={} after update: {:?}", sim.now(), sim.collect());
        sim.advance(5000).await;
        println!("t={} after 5s: {:?}", sim.now(), sim.collect());
        println!("events {:?}", sim.mock.take());
        sim.reconnect_close().await;
        println!("t={} after reconnect: {:?}", sim.now(), sim.collect());
        println!("events {:?}", sim.mock.take());
        println!("trace events {}", crate::verif::trace::events());
    });
    Ok(())
}
