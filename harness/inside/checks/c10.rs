//! C10 — measurement values survive the trip from outstation database to master handler.
//! Real outstation (database, response/unsolicited writers) and real master (parser,
//! extraction, handler callbacks) joined by the relay; the oracle is a hand-written
//! "what this variation can carry" function applied to the value put into the database.

use crate::app::measurement::*;
use crate::outstation::database::*;
use crate::verif::out::{self, J};
use crate::verif::rec::{Item, RVal, Rec};
use crate::verif::refcodec::app::PType;
use crate::verif::rng::Rng;
use crate::verif::sim::master::*;
use crate::verif::sim::outstation::*;
use crate::verif::sim::pair::*;
use crate::verif::sim::*;
use crate::verif::ShardArgs;

const P: &str = "C10";
const OUT: u16 = 1024;
const MAX48: u64 = 0x0000_FFFF_FFFF_FFFF;
const OVER_RANGE: u8 = 0x20;

#[derive(Clone, Copy, Debug, PartialEq)]
enum Num {
    Bit,
    DBit,
    U32,
    U16,
    I32,
    I16,
    F32,
    F64,
    Bytes,
}
#[derive(Clone, Copy, Debug, PartialEq)]
enum Tk {
    None,
    Abs,
    Rel,
}

/// what a variation carries: (number format, flag octet?, time)
fn desc(g: u8, v: u8) -> Option<(Num, bool, Tk)> {
    Some(match (g, v) {
        (1, 1) | (10, 1) => (Num::Bit, false, Tk::None),
        (1, 2) | (10, 2) | (2, 1) | (11, 1) => (Num::Bit, true, Tk::None),
        (2, 2) | (11, 2) => (Num::Bit, true, Tk::Abs),
        (2, 3) => (Num::Bit, true, Tk::Rel),
        (3, 1) => (Num::DBit, false, Tk::None),
        (3, 2) | (4, 1) => (Num::DBit, true, Tk::None),
        (4, 2) => (Num::DBit, true, Tk::Abs),
        (4, 3) => (Num::DBit, true, Tk::Rel),
        (20, 1) | (21, 1) | (22, 1) | (23, 1) => (Num::U32, true, Tk::None),
        (20, 2) | (21, 2) | (22, 2) | (23, 2) => (Num::U16, true, Tk::None),
        (20, 5) | (21, 9) => (Num::U32, false, Tk::None),
        (20, 6) | (21, 10) => (Num::U16, false, Tk::None),
        (21, 5) | (22, 5) | (23, 5) => (Num::U32, true, Tk::Abs),
        (21, 6) | (22, 6) | (23, 6) => (Num::U16, true, Tk::Abs),
        (30, 1) | (32, 1) | (40, 1) | (42, 1) => (Num::I32, true, Tk::None),
        (30, 2) | (32, 2) | (40, 2) | (42, 2) => (Num::I16, true, Tk::None),
        (30, 3) => (Num::I32, false, Tk::None),
        (30, 4) => (Num::I16, false, Tk::None),
        (30, 5) | (32, 5) | (40, 3) | (42, 5) => (Num::F32, true, Tk::None),
        (30, 6) | (32, 6) | (40, 4) | (42, 6) => (Num::F64, true, Tk::None),
        (32, 3) | (42, 3) => (Num::I32, true, Tk::Abs),
        (32, 4) | (42, 4) => (Num::I16, true, Tk::Abs),
        (32, 7) | (42, 7) => (Num::F32, true, Tk::Abs),
        (32, 8) | (42, 8) => (Num::F64, true, Tk::Abs),
        (110, _) | (111, _) => (Num::Bytes, false, Tk::None),
        _ => return None,
    })
}

pub const STATIC_GROUP: [u8; 8] = [1, 3, 10, 20, 21, 30, 40, 110];
pub const EVENT_GROUP: [u8; 8] = [2, 4, 11, 22, 23, 32, 42, 111];
const PTYPES: [PType; 8] = [
    PType::Binary,
    PType::DoubleBit,
    PType::BinaryOutputStatus,
    PType::Counter,
    PType::FrozenCounter,
    PType::Analog,
    PType::AnalogOutputStatus,
    PType::OctetString,
];

pub fn svars(t: usize) -> &'static [u8] {
    match t {
        0 | 1 | 2 => &[1, 2],
        3 => &[1, 2, 5, 6],
        4 => &[1, 2, 5, 6, 9, 10],
        5 => &[1, 2, 3, 4, 5, 6],
        6 => &[1, 2, 3, 4],
        _ => &[0],
    }
}
pub fn evars(t: usize) -> &'static [u8] {
    match t {
        0 | 1 => &[1, 2, 3],
        2 => &[1, 2],
        3 | 4 => &[1, 2, 5, 6],
        5 | 6 => &[1, 2, 3, 4, 5, 6, 7, 8],
        _ => &[0],
    }
}

pub fn add(db: &mut Database, t: usize, index: u16, sv: u8, ev: u8, class: Option<EventClass>) {
    match t {
        0 => {
            let s = if sv == 1 {
                StaticBinaryInputVariation::Group1Var1
            } else {
                StaticBinaryInputVariation::Group1Var2
            };
            let e = [
                EventBinaryInputVariation::Group2Var1,
                EventBinaryInputVariation::Group2Var2,
                EventBinaryInputVariation::Group2Var3,
            ][(ev - 1) as usize];
            db.add(index, class, BinaryInputConfig::new(s, e));
        }
        1 => {
            let s = if sv == 1 {
                StaticDoubleBitBinaryInputVariation::Group3Var1
            } else {
                StaticDoubleBitBinaryInputVariation::Group3Var2
            };
            let e = [
                EventDoubleBitBinaryInputVariation::Group4Var1,
                EventDoubleBitBinaryInputVariation::Group4Var2,
                EventDoubleBitBinaryInputVariation::Group4Var3,
            ][(ev - 1) as usize];
            db.add(index, class, DoubleBitBinaryInputConfig::new(s, e));
        }
        2 => {
            let s = if sv == 1 {
                StaticBinaryOutputStatusVariation::Group10Var1
            } else {
                StaticBinaryOutputStatusVariation::Group10Var2
            };
            let e = [
                EventBinaryOutputStatusVariation::Group11Var1,
                EventBinaryOutputStatusVariation::Group11Var2,
            ][(ev - 1) as usize];
            db.add(index, class, BinaryOutputStatusConfig::new(s, e));
        }
        3 => {
            let s = match sv {
                1 => StaticCounterVariation::Group20Var1,
                2 => StaticCounterVariation::Group20Var2,
                5 => StaticCounterVariation::Group20Var5,
                _ => StaticCounterVariation::Group20Var6,
            };
            let e = match ev {
                1 => EventCounterVariation::Group22Var1,
                2 => EventCounterVariation::Group22Var2,
                5 => EventCounterVariation::Group22Var5,
                _ => EventCounterVariation::Group22Var6,
            };
            db.add(index, class, CounterConfig::new(s, e, 0));
        }
        4 => {
            let s = match sv {
                1 => StaticFrozenCounterVariation::Group21Var1,
                2 => StaticFrozenCounterVariation::Group21Var2,
                5 => StaticFrozenCounterVariation::Group21Var5,
                6 => StaticFrozenCounterVariation::Group21Var6,
                9 => StaticFrozenCounterVariation::Group21Var9,
                _ => StaticFrozenCounterVariation::Group21Var10,
            };
            let e = match ev {
                1 => EventFrozenCounterVariation::Group23Var1,
                2 => EventFrozenCounterVariation::Group23Var2,
                5 => EventFrozenCounterVariation::Group23Var5,
                _ => EventFrozenCounterVariation::Group23Var6,
            };
            db.add(index, class, FrozenCounterConfig::new(s, e, 0));
        }
        5 => {
            let s = [
                StaticAnalogInputVariation::Group30Var1,
                StaticAnalogInputVariation::Group30Var2,
                StaticAnalogInputVariation::Group30Var3,
                StaticAnalogInputVariation::Group30Var4,
                StaticAnalogInputVariation::Group30Var5,
                StaticAnalogInputVariation::Group30Var6,
            ][(sv - 1) as usize];
            let e = [
                EventAnalogInputVariation::Group32Var1,
                EventAnalogInputVariation::Group32Var2,
                EventAnalogInputVariation::Group32Var3,
                EventAnalogInputVariation::Group32Var4,
                EventAnalogInputVariation::Group32Var5,
                EventAnalogInputVariation::Group32Var6,
                EventAnalogInputVariation::Group32Var7,
                EventAnalogInputVariation::Group32Var8,
            ][(ev - 1) as usize];
            db.add(index, class, AnalogInputConfig::new(s, e, 0.0));
        }
        6 => {
            let s = [
                StaticAnalogOutputStatusVariation::Group40Var1,
                StaticAnalogOutputStatusVariation::Group40Var2,
                StaticAnalogOutputStatusVariation::Group40Var3,
                StaticAnalogOutputStatusVariation::Group40Var4,
            ][(sv - 1) as usize];
            let e = [
                EventAnalogOutputStatusVariation::Group42Var1,
                EventAnalogOutputStatusVariation::Group42Var2,
                EventAnalogOutputStatusVariation::Group42Var3,
                EventAnalogOutputStatusVariation::Group42Var4,
                EventAnalogOutputStatusVariation::Group42Var5,
                EventAnalogOutputStatusVariation::Group42Var6,
                EventAnalogOutputStatusVariation::Group42Var7,
                EventAnalogOutputStatusVariation::Group42Var8,
            ][(ev - 1) as usize];
            db.add(index, class, AnalogOutputStatusConfig::new(s, e, 0.0));
        }
        _ => {
            db.add(index, class, OctetStringConfig);
        }
    }
}

/// a value as put into the database
#[derive(Clone, Debug, PartialEq)]
pub struct Src {
    pub t: usize,
    pub index: u16,
    /// bool / dbit / counter as integer, analog as f64 bits
    pub int: u32,
    pub real: f64,
    pub bytes: Vec<u8>,
    pub flags: u8,
    pub sync: bool,
    pub time: u64,
    /// the measurement is written without a time (`time: None`): what a time-bearing variation then reports as its time is
    /// not compared, everything else is
    pub no_time: bool,
}

fn analog_value(r: &mut Rng) -> f64 {
    match r.below(24) {
        0 => 0.0,
        1 => -0.0,
        2 => 1.0,
        3 => -1.0,
        4 => 32767.0,
        5 => 32768.0,
        6 => -32768.0,
        7 => -32769.0,
        8 => 32767.9,
        9 => -32768.9,
        10 => 2147483647.0,
        11 => 2147483648.0,
        12 => -2147483648.0,
        13 => -2147483649.0,
        14 => f32::MAX as f64,
        15 => (f32::MAX as f64) * 1.0000001,
        16 => -(f32::MAX as f64) * 1.0000001,
        17 => f64::MAX,
        18 => f64::MIN,
        19 => f64::NAN,
        20 => f64::INFINITY,
        21 => f64::NEG_INFINITY,
        22 => f64::from_bits(r.u64()),
        _ => (r.u64() as i64 as f64) / (1u64 << r.below(40)) as f64,
    }
}

fn counter_value(r: &mut Rng) -> u32 {
    match r.below(8) {
        0 => 0,
        1 => 65535,
        2 => 65536,
        3 => u32::MAX,
        4 => 0x8000_0000,
        5 => 0x0001_0001,
        _ => r.u64() as u32,
    }
}

/// a value with arbitrary content for point (t, index)
pub fn random_src(r: &mut Rng, t: usize, index: u16) -> Src {
    Src {
        t,
        index,
        int: match t {
            0 | 2 => r.below(2) as u32,
            1 => r.below(4) as u32,
            _ => counter_value(r),
        },
        real: analog_value(r),
        bytes: {
            let n = r.range(1, 12) as usize;
            r.bytes(n)
        },
        flags: match r.below(4) {
            0 => 0x01,
            1 => r.u8(),
            2 => 0x01 | (1 << r.below(8)),
            _ => r.u8() & 0x1F,
        },
        sync: r.bool(),
        time: r.u64() & MAX48,
        no_time: false,
    }
}

pub fn update(sim: &OutSim, s: &Src) {
    let f = Flags::new(s.flags);
    let tm = if s.sync {
        Time::synchronized(s.time)
    } else {
        Time::unsynchronized(s.time)
    };
    let opt = UpdateOptions::new(true, EventMode::Force);
    let i = s.index;
    if s.no_time {
        let d = [
            DoubleBit::Intermediate,
            DoubleBit::DeterminedOff,
            DoubleBit::DeterminedOn,
            DoubleBit::Indeterminate,
        ][s.int as usize & 3];
        sim.db(|db| match s.t {
            0 => db.update(i, &BinaryInput { value: s.int != 0, flags: f, time: None }, opt),
            1 => db.update(i, &DoubleBitBinaryInput { value: d, flags: f, time: None }, opt),
            2 => db.update(i, &BinaryOutputStatus { value: s.int != 0, flags: f, time: None }, opt),
            3 => db.update(i, &Counter { value: s.int, flags: f, time: None }, opt),
            4 => db.update(i, &FrozenCounter { value: s.int, flags: f, time: None }, opt),
            5 => db.update(i, &AnalogInput { value: s.real, flags: f, time: None }, opt),
            6 => db.update(i, &AnalogOutputStatus { value: s.real, flags: f, time: None }, opt),
            _ => db.update(i, &OctetString::new(&s.bytes).unwrap(), opt),
        });
        return;
    }
    sim.db(|db| match s.t {
        0 => db.update(i, &BinaryInput::new(s.int != 0, f, tm), opt),
        1 => db.update(
            i,
            &DoubleBitBinaryInput::new(
                [
                    DoubleBit::Intermediate,
                    DoubleBit::DeterminedOff,
                    DoubleBit::DeterminedOn,
                    DoubleBit::Indeterminate,
                ][s.int as usize & 3],
                f,
                tm,
            ),
            opt,
        ),
        2 => db.update(i, &BinaryOutputStatus::new(s.int != 0, f, tm), opt),
        3 => db.update(i, &Counter::new(s.int, f, tm), opt),
        4 => db.update(i, &FrozenCounter::new(s.int, f, tm), opt),
        5 => db.update(i, &AnalogInput::new(s.real, f, tm), opt),
        6 => db.update(i, &AnalogOutputStatus::new(s.real, f, tm), opt),
        _ => db.update(i, &OctetString::new(&s.bytes).unwrap(), opt),
    });
}

/// compare what the handler got with what the variation can carry of the source value
fn judge(rec: &Rec, s: &Src) -> Result<(), (String, String)> {
    let Some((num, has_flags, tk)) = desc(rec.group, rec.var) else {
        return Err((
            "unknown_variation".into(),
            format!(
                "g{}v{} is not a measurement variation of this type",
                rec.group, rec.var
            ),
        ));
    };
    let e = |rule: &str, why: String| Err((rule.to_string(), why));
    if rec.index != s.index {
        return e(
            "index",
            format!("index {} delivered, {} expected", rec.index, s.index),
        );
    }
    // flags as the database holds them (for binary types the value bits are part of the octet)
    let src_flags = match s.t {
        0 | 2 => (s.flags & 0x7F) | ((s.int as u8 & 1) << 7),
        1 => (s.flags & 0x3F) | ((s.int as u8 & 3) << 6),
        _ => s.flags,
    };
    let mut over_range = false;
    match (num, &rec.val) {
        (Num::Bit, RVal::Bool(b)) => {
            if (*b as u32) != (s.int & 1) {
                return e(
                    "value",
                    format!("state {b} delivered, {} written", s.int & 1),
                );
            }
            if !has_flags && (s.flags & 0x7F) != 0x01 {
                return e(
                    "packed_for_non_online",
                    format!(
                        "packed g{}v{} used although the flags are {:#04x}",
                        rec.group, rec.var, s.flags
                    ),
                );
            }
        }
        (Num::DBit, RVal::DBit(d)) => {
            if *d as u32 != (s.int & 3) {
                return e(
                    "value",
                    format!("double-bit state {d} delivered, {} written", s.int & 3),
                );
            }
            if !has_flags && (s.flags & 0x3F) != 0x01 {
                return e(
                    "packed_for_non_online",
                    format!(
                        "packed g{}v{} used although the flags are {:#04x}",
                        rec.group, rec.var, s.flags
                    ),
                );
            }
        }
        (Num::U32, RVal::U32(x)) => {
            if *x != s.int {
                return e("value", format!("counter {x} delivered, {} written", s.int));
            }
        }
        (Num::U16, RVal::U32(x)) => {
            if *x != (s.int & 0xFFFF) {
                return e(
                    "value",
                    format!(
                        "16-bit counter {x} delivered, {} written (low 16 bits {})",
                        s.int,
                        s.int & 0xFFFF
                    ),
                );
            }
        }
        (Num::I32, RVal::F64(x)) | (Num::I16, RVal::F64(x)) => {
            let (lo, hi) = if num == Num::I32 {
                (i32::MIN as f64, i32::MAX as f64)
            } else {
                (i16::MIN as f64, i16::MAX as f64)
            };
            let v = s.real;
            if v.is_nan() {
                over_range = true; // cannot be represented at all: any integer, but flagged
            } else if v < lo {
                over_range = true;
                if *x != lo {
                    return e(
                        "saturation",
                        format!(
                            "{v:e} delivered as {x} by g{}v{}: expected saturation at {lo}",
                            rec.group, rec.var
                        ),
                    );
                }
            } else if v > hi {
                over_range = true;
                if *x != hi {
                    return e(
                        "saturation",
                        format!(
                            "{v:e} delivered as {x} by g{}v{}: expected saturation at {hi}",
                            rec.group, rec.var
                        ),
                    );
                }
            } else if (*x - v).abs() >= 1.0 || (*x != 0.0 && v != 0.0 && x.signum() != v.signum()) {
                return e(
                    "value",
                    format!("{v:e} delivered as {x} by g{}v{}", rec.group, rec.var),
                );
            }
        }
        (Num::F32, RVal::F64(x)) => {
            let v = s.real;
            let m = f32::MAX as f64;
            if v.is_nan() {
                if !x.is_nan() {
                    return e(
                        "value",
                        format!("NaN delivered as {x} by g{}v{}", rec.group, rec.var),
                    );
                }
            } else if v > m {
                over_range = true;
                if *x != m && *x != f64::INFINITY {
                    return e(
                        "saturation",
                        format!("{v:e} delivered as {x:e} by g{}v{}", rec.group, rec.var),
                    );
                }
                if v.is_infinite() && *x == f64::INFINITY {
                    over_range = false; // infinity is representable
                }
            } else if v < -m {
                over_range = true;
                if *x != -m && *x != f64::NEG_INFINITY {
                    return e(
                        "saturation",
                        format!("{v:e} delivered as {x:e} by g{}v{}", rec.group, rec.var),
                    );
                }
                if v.is_infinite() && *x == f64::NEG_INFINITY {
                    over_range = false;
                }
            } else if *x != (v as f32) as f64
                || (x.is_sign_negative() != v.is_sign_negative() && *x != 0.0)
            {
                return e(
                    "value",
                    format!(
                        "{v:e} delivered as {x:e} by g{}v{}: nearest single is {:e}",
                        rec.group, rec.var, v as f32
                    ),
                );
            }
        }
        (Num::F64, RVal::F64(x)) => {
            if x.to_bits() != s.real.to_bits() && !(x.is_nan() && s.real.is_nan()) {
                return e(
                    "value",
                    format!(
                        "{:e} delivered as {x:e} by g{}v{}",
                        s.real, rec.group, rec.var
                    ),
                );
            }
        }
        (Num::Bytes, RVal::Bytes(b)) => {
            if *b != s.bytes {
                return e(
                    "value",
                    format!("octet string {b:?} delivered, {:?} written", s.bytes),
                );
            }
        }
        (n, v) => {
            return e(
                "value_type",
                format!("g{}v{} ({n:?}) delivered as {v:?}", rec.group, rec.var),
            )
        }
    }
    // flags
    if num != Num::Bytes {
        if has_flags {
            let want = if over_range {
                src_flags | OVER_RANGE
            } else {
                src_flags
            };
            if rec.flags != want {
                let rule = if over_range && rec.flags == src_flags {
                    "over_range_not_flagged"
                } else {
                    "flags"
                };
                return e(rule, format!("flags {:#04x} delivered by g{}v{}, expected {want:#04x} (written {:#04x}, value {:e}/{})", rec.flags, rec.group, rec.var, s.flags, s.real, s.int));
            }
        } else if rec.flags & 0x3F != 0x01 {
            return e(
                "flags_of_flagless",
                format!(
                    "flags {:#04x} delivered for flag-less g{}v{}: expected ONLINE",
                    rec.flags, rec.group, rec.var
                ),
            );
        }
    }
    // time
    match (tk, rec.time) {
        (Tk::None, None) => {}
        (Tk::None, Some(t)) => {
            return e(
                "time",
                format!(
                    "time {t:?} delivered by g{}v{} which carries none",
                    rec.group, rec.var
                ),
            )
        }
        (Tk::Abs, Some(_)) | (Tk::Rel, Some(_)) if s.no_time => {}
        (Tk::Abs, Some((_, ms))) => {
            if ms != s.time {
                return e(
                    "time",
                    format!(
                        "time {ms} delivered by g{}v{}, {} written",
                        rec.group, rec.var, s.time
                    ),
                );
            }
        }
        (Tk::Rel, Some((sync, ms))) => {
            if ms != s.time || sync != s.sync {
                return e(
                    "relative_time",
                    format!(
                        "time ({sync}, {ms}) reconstructed from g{}v{}, ({}, {}) written",
                        rec.group, rec.var, s.sync, s.time
                    ),
                );
            }
        }
        (_, None) => {
            return e(
                "time",
                format!(
                    "no time delivered by g{}v{}, {} written",
                    rec.group, rec.var, s.time
                ),
            )
        }
    }
    Ok(())
}

async fn scenario(a: &ShardArgs, idx: u64) {
    let mut r = a.rng(&format!("c10/{idx}"));
    let unsol = r.chance(1, 3);
    let mut oc = OutCfg::default();
    oc.unsolicited = unsol;
    oc.sol_tx = *r.pick(&[249usize, 400, 2048]);
    oc.unsol_tx = *r.pick(&[249usize, 2048]);
    oc.event_cfg = [300; 8];
    oc.class_zero_octets = true;
    oc.decode = r.usize_below(108);
    oc.confirm_timeout_ms = 2000;
    // layout
    let mut layout: Vec<(usize, u16, u8, u8, u8)> = vec![]; // type, index, static var, event var, class
    for t in 0..8 {
        let n = r.range(1, 3);
        let mut used: Vec<u16> = vec![];
        for _ in 0..n {
            let i = match r.below(5) {
                0 => 0,
                1 => 65535,
                2 => r.below(300) as u16,
                3 => 255 + r.below(3) as u16,
                _ => r.u16(),
            };
            if used.contains(&i) {
                continue;
            }
            used.push(i);
            layout.push((
                t,
                i,
                *r.pick(svars(t)),
                *r.pick(evars(t)),
                1 + r.below(3) as u8,
            ));
        }
    }
    let l2 = layout.clone();
    let o = OutSim::start_with(oc.clone(), |db| {
        for (t, i, sv, ev, c) in &l2 {
            add(
                db,
                *t,
                *i,
                *sv,
                *ev,
                Some(
                    [EventClass::Class1, EventClass::Class2, EventClass::Class3][(*c - 1) as usize],
                ),
            );
        }
    })
    .await;
    let mut mc = MasterCfg::default();
    mc.decode = r.usize_below(108);
    let mut ac = AssocCfg::quiet(OUT);
    ac.response_timeout_ms = 5000;
    if unsol {
        ac.enable_unsol = [true, true, true];
    }
    let m = MasterSim::start(mc, &[ac]).await;
    let mut pair = Pair::new(m, o, 0, 0);
    let mut hist: Vec<String> = vec![format!("unsol={unsol} tx={} layout={layout:?}", oc.sol_tx)];
    let mut violations: Vec<(String, String, String)> = vec![];
    pair.run_until(200, |_| false, |_, _| {}).await;
    let _ = pair.m.assocs[0].2.take();
    // pending events per (type, index), in order of update; latest static value
    let mut pending: std::collections::BTreeMap<(usize, u16), std::collections::VecDeque<Src>> =
        Default::default();
    let mut latest: std::collections::BTreeMap<(usize, u16), Src> = Default::default();
    // time line for relative-time events
    let mut t_line: u64 = match r.below(4) {
        0 => 0,
        1 => MAX48 - 400_000,
        _ => r.u64() & (MAX48 >> 1),
    };
    let mut sync = r.bool();
    let rounds = r.range(2, 5);
    for round in 0..rounds {
        // ---- a batch of updates
        let n_up = r.range(3, 14);
        for _ in 0..n_up {
            let (t, i, _, _, _) = *r.pick(&layout);
            // time: mostly along a line with the gaps that matter for 16-bit relative times, sometimes anything
            let time = if r.chance(1, 6) {
                r.u64() & MAX48
            } else {
                let d: i64 = *r.pick(&[
                    0i64, 0, 1, 2, 999, 65_534, 65_535, 65_536, 70_000, 131_071, -1, -2, -65_535,
                    -70_000,
                ]);
                t_line = (t_line as i64 + d).clamp(0, MAX48 as i64) as u64;
                t_line
            };
            if r.chance(1, 7) {
                sync = !sync;
            }
            let flags = match r.below(4) {
                0 => 0x01,
                1 => r.u8(),
                2 => 0x01 | (1 << r.below(8)),
                _ => r.u8() & 0x1F,
            };
            let s = Src {
                t,
                index: i,
                int: match t {
                    0 | 2 => r.below(2) as u32,
                    1 => r.below(4) as u32,
                    _ => counter_value(&mut r),
                },
                real: analog_value(&mut r),
                bytes: {
                    let n = r.range(1, 12) as usize;
                    r.bytes(n)
                },
                flags,
                sync,
                time,
                no_time: r.chance(1, 8),
            };
            if s.no_time {
                out::count("measurements_written_without_a_time", 1);
            }
            // sometimes only flags and time change (Database::update_flags): the value stays what it was
            let s = match latest.get(&(t, i)) {
                Some(prev) if t < 7 && r.chance(1, 6) => {
                    let s2 = Src {
                        flags: s.flags,
                        sync: s.sync,
                        time: s.time,
                        no_time: false,
                        ..prev.clone()
                    };
                    let ft = [
                        UpdateFlagsType::BinaryInput,
                        UpdateFlagsType::DoubleBitBinaryInput,
                        UpdateFlagsType::BinaryOutputStatus,
                        UpdateFlagsType::Counter,
                        UpdateFlagsType::FrozenCounter,
                        UpdateFlagsType::AnalogInput,
                        UpdateFlagsType::AnalogOutputStatus,
                    ][t];
                    let tm = if s2.sync {
                        Time::synchronized(s2.time)
                    } else {
                        Time::unsynchronized(s2.time)
                    };
                    let info = pair.o.db(|db| {
                        db.update_flags(
                            i,
                            ft,
                            Flags::new(s2.flags),
                            Some(tm),
                            UpdateOptions::new(true, EventMode::Force),
                        )
                    });
                    if !matches!(info, UpdateInfo::Created(_) | UpdateInfo::Overflow { .. }) {
                        violations.push(("update_flags".into(), format!("t{t}"), format!("update_flags on an existing point of type {t} index {i} returned {info:?}")));
                    }
                    out::count("update_flags_used", 1);
                    s2
                }
                _ => {
                    update(&pair.o, &s);
                    s
                }
            };
            pending.entry((t, i)).or_default().push_back(s.clone());
            latest.insert((t, i), s);
        }
        settle().await;
        pair.pump();
        // ---- fetch: reads are made one after the other so that every record can be attributed to its request
        // (what, request, explicitly requested event variation (type, var), explicitly requested static variation (type, var))
        let mut fetches: Vec<(
            String,
            Option<UserReq>,
            Option<(usize, u8)>,
            Option<(usize, u8)>,
        )> = vec![];
        if unsol {
            fetches.push(("unsolicited".into(), None, None, None));
        } else {
            // sometimes one type's events are fetched by type with an explicit variation (all of them or a limited count) first
            if r.chance(1, 2) {
                let t = r.usize_below(7);
                let v = if r.chance(1, 4) { 0 } else { *r.pick(evars(t)) };
                let kind = r.below(3) as u8;
                let n = *r.pick(&[1u16, 2, 5, 255, 256, 65535]);
                let rq = match kind {
                    0 => UserReq::ReadHeaders(vec![(0, EVENT_GROUP[t], v, 0, 0)]),
                    1 => UserReq::ReadHeaders(vec![(3, EVENT_GROUP[t], v, n.min(255), 0)]),
                    _ => UserReq::ReadHeaders(vec![(4, EVENT_GROUP[t], v, n, 0)]),
                };
                fetches.push((
                    format!("events g{}v{v} kind{kind}", EVENT_GROUP[t]),
                    Some(rq),
                    if v == 0 { None } else { Some((t, v)) },
                    None,
                ));
            }
            fetches.push((
                "events by class".into(),
                Some(UserReq::ReadClasses([false, true, true, true])),
                None,
                None,
            ));
        }
        match r.below(5) {
            0 => fetches.push((
                "class0".into(),
                Some(UserReq::ReadClasses([true, false, false, false])),
                None,
                None,
            )),
            1 | 2 | 3 => {
                let t = r.usize_below(7);
                let v = if r.chance(1, 4) { 0 } else { *r.pick(svars(t)) };
                let kind = r.below(3) as u8;
                let rq = match kind {
                    0 => UserReq::ReadHeaders(vec![(0, STATIC_GROUP[t], v, 0, 0)]),
                    1 => UserReq::ReadHeaders(vec![(1, STATIC_GROUP[t], v, 0, 255)]),
                    _ => UserReq::ReadHeaders(vec![(2, STATIC_GROUP[t], v, 0, 65535)]),
                };
                fetches.push((
                    format!("static g{}v{v} kind{kind}", STATIC_GROUP[t]),
                    Some(rq),
                    None,
                    if v == 0 { None } else { Some((t, v)) },
                ));
            }
            _ => {}
        }
        for (what, rq, want_ev, want_sv) in fetches {
            match rq {
                None => {
                    // the outstation reports by itself; wait for it
                    pair.run_until(5000, |_| false, |_, _| {}).await;
                }
                Some(rq) => {
                    let id = pair.m.submit(0, rq);
                    settle().await;
                    pair.pump();
                    let fin = pair
                        .run_until(
                            120_000,
                            |pr| pr.m.result_of(id).is_some() && pr.in_flight.is_empty(),
                            |_, _| {},
                        )
                        .await;
                    if !fin {
                        out::count("harness_read_not_finished", 1);
                    }
                    let res = pair.m.result_of(id).map(|x| x.3);
                    hist.push(format!("round {round}: read {what} -> {res:?}"));
                    if let Some(txt) = res {
                        if !txt.starts_with("Ok") {
                            violations.push((
                                "read_failed".into(),
                                what.split(' ').next().unwrap_or("").to_string(),
                                format!("read {what} failed: {txt}"),
                            ));
                        }
                    }
                }
            }
            // ---- judge what reached the handler
            let items = pair.m.assocs[0].2.take();
            for it in items {
                let Item::M(rec) = it else { continue };
                let Some(t) = PTYPES.iter().position(|p| *p == rec.ptype) else {
                    violations.push((
                        "unexpected_type".into(),
                        format!("{:?}", rec.ptype),
                        format!("handler received {rec:?}"),
                    ));
                    continue;
                };
                out::eval(1);
                let key = (t, rec.index);
                let which = if rec.is_event { "event" } else { "static" };
                if rec.is_event {
                    if rec.group != EVENT_GROUP[t] {
                        violations.push((
                            "group".into(),
                            format!("t{t}"),
                            format!("event of type {t} delivered as g{}v{}", rec.group, rec.var),
                        ));
                        continue;
                    }
                    let Some(src) = pending.get_mut(&key).and_then(|q| q.pop_front()) else {
                        violations.push(("phantom_event".into(), format!("t{t}"), format!("event {rec:?} for a point without pending updates (shifted to another index?)")));
                        continue;
                    };
                    // the variation asked for explicitly, else the configured event variation (octet strings: by length)
                    let ev = match want_ev {
                        Some((tt, v)) if tt == t => v,
                        _ => layout
                            .iter()
                            .find(|l| l.0 == t && l.1 == rec.index)
                            .map(|l| l.3)
                            .unwrap_or(0),
                    };
                    if t != 7 && rec.var != ev {
                        violations.push(("event_variation".into(), format!("g{}v{}", rec.group, rec.var), format!("event delivered as g{}v{} by read '{what}', expected variation {ev}", rec.group, rec.var)));
                    } else if want_ev.map(|x| x.0 == t).unwrap_or(false) {
                        out::count("explicit_event_variation_ok", 1);
                    }
                    match judge(&rec, &src) {
                        Ok(()) => {
                            out::count("event_values_ok", 1);
                            out::count(&format!("ok_g{}v{}", rec.group, rec.var), 1);
                            if rec.group == 2 && rec.var == 3 || rec.group == 4 && rec.var == 3 {
                                out::count("relative_time_reconstructed_ok", 1);
                            }
                        }
                        Err((rule, why)) => violations.push((
                            rule,
                            format!("{which}|g{}v{}", rec.group, rec.var),
                            format!("{why}; source {src:?}; delivered {rec:?}"),
                        )),
                    }
                } else {
                    if rec.group != STATIC_GROUP[t] {
                        violations.push((
                            "group".into(),
                            format!("t{t}"),
                            format!(
                                "static value of type {t} delivered as g{}v{}",
                                rec.group, rec.var
                            ),
                        ));
                        continue;
                    }
                    // variation: asked for explicitly, else configured; a packed format is promoted to the flagged one for points that are not plainly ONLINE
                    let sv = match want_sv {
                        Some((tt, v)) if tt == t => v,
                        _ => layout
                            .iter()
                            .find(|l| l.0 == t && l.1 == rec.index)
                            .map(|l| l.2)
                            .unwrap_or(0),
                    };
                    let promoted = t < 3 && sv == 1 && rec.var == 2;
                    if t != 7 && rec.var != sv && !promoted {
                        violations.push(("static_variation".into(), format!("g{}v{}", rec.group, rec.var), format!("static value delivered as g{}v{} by read '{what}', expected variation {sv}", rec.group, rec.var)));
                    } else if want_sv.map(|x| x.0 == t).unwrap_or(false) {
                        out::count("explicit_static_variation_ok", 1);
                    }
                    let Some(src) = latest.get(&key) else {
                        // never updated: initial value, nothing to compare
                        out::count("static_initial_value_skipped", 1);
                        continue;
                    };
                    match judge(&rec, src) {
                        Ok(()) => {
                            out::count("static_values_ok", 1);
                            out::count(&format!("ok_g{}v{}", rec.group, rec.var), 1);
                        }
                        Err((rule, why)) => violations.push((
                            rule,
                            format!("{which}|g{}v{}", rec.group, rec.var),
                            format!("{why}; source {src:?}; delivered {rec:?}"),
                        )),
                    }
                }
            }
        }
        // every forced event was delivered
        for (k, q) in pending.iter() {
            if !q.is_empty() {
                violations.push((
                    "event_lost".into(),
                    format!("t{}", k.0),
                    format!(
                        "{} update(s) of type {} index {} produced no delivered event",
                        q.len(),
                        k.0,
                        k.1
                    ),
                ));
            }
        }
        pending.clear();
        if !violations.is_empty() {
            break;
        }
    }
    // dedupe: one violation per (rule, sig)
    violations.sort();
    violations.dedup_by(|a, b| a.0 == b.0 && a.1 == b.1);
    for (rule, sig, why) in &violations {
        out::violation(
            P,
            &format!("C10.{rule}"),
            sig,
            J::obj(vec![
                ("why", J::s(why.clone())),
                ("history", J::arr(hist.iter().cloned())),
            ]),
            J::obj(vec![
                ("check", J::s("c10")),
                ("seed", J::U(a.seed)),
                ("shard", J::U(a.shard)),
                ("nshards", J::U(a.nshards)),
                ("scenario", J::U(idx)),
            ]),
        );
    }
    out::distinct(&format!(
        "unsol{}/tx{}/n{}",
        unsol as u8,
        oc.sol_tx,
        layout.len()
    ));
    for p in crate::verif::util::take_panics() {
        out::violation(
            P,
            "C10.panic",
            &crate::verif::util::norm_location(&p.location),
            J::obj(vec![
                (
                    "why",
                    J::s(format!("panic {} at {}", p.message, p.location)),
                ),
                ("history", J::arr(hist.iter().cloned())),
            ]),
            J::obj(vec![
                ("check", J::s("c10")),
                ("seed", J::U(a.seed)),
                ("shard", J::U(a.shard)),
                ("nshards", J::U(a.nshards)),
                ("scenario", J::U(idx)),
            ]),
        );
    }
    if a.replay.is_some() {
        for h in &hist {
            eprintln!("HIST {h}");
        }
    }
    if out::sample_count() < 2 {
        out::sample(J::obj(vec![("history", J::arr(hist.iter().cloned()))]));
    }
}

pub fn run(a: &ShardArgs) -> Result<(), String> {
    let only: Option<u64> = a
        .replay
        .as_ref()
        .and_then(|p| super::common::replay_scenario(p));
    let n = a.n(12000);
    for idx in 0..n {
        if idx % a.nshards != a.shard {
            continue;
        }
        if let Some(o) = only {
            if o != idx {
                continue;
            }
        }
        out::progress(&format!("scenario {idx}"));
        run_scenario(scenario(a, idx));
    }
    Ok(())
}
