//! C02 — end to end, the master's picture converges to the outstation's database.
//! Engine E3: public API only. A real TCP master and a real TCP outstation server on
//! loopback, on a multi-threaded tokio runtime in real time, joined by a byte-level proxy
//! that re-chunks the streams and cuts connections at random byte offsets while user
//! threads update the database and the master sends commands.
//! Oracles (after the stimulus stops): convergence, no fabricated value, no lost event.

use crate::app::control::*;
use crate::app::measurement::*;
use crate::app::*;
use crate::link::{EndpointAddress, LinkErrorMode};
use crate::master::*;
use crate::outstation::database::*;
use crate::outstation::*;
use crate::tcp::*;
use crate::verif::out::{self, J};
use crate::verif::rec::{Item, RVal, Rec, Recorder};
use crate::verif::refcodec::app::PType;
use crate::verif::rng::Rng;
use crate::verif::ShardArgs;
use std::collections::{BTreeMap, BTreeSet};
use std::sync::atomic::{AtomicBool, AtomicU64, Ordering};
use std::sync::{Arc, Mutex};
use std::time::{Duration, Instant};
use tokio::io::{AsyncReadExt, AsyncWriteExt};
use tokio::net::{TcpListener, TcpStream};

const P: &str = "C02";
const PTYPES: [PType; 8] = [
    PType::Binary,
    PType::DoubleBit,
    PType::BinaryOutputStatus,
    PType::Counter,
    PType::FrozenCounter,
    PType::Analog,
    PType::AnalogOutputStatus,
    PType::OctetString,
];
const NPOINTS: u16 = 3;

#[derive(Clone, Debug, PartialEq)]
struct Hist {
    num: f64,
    bytes: Vec<u8>,
    /// flag octet as the wire carries it (value bits folded in for binary types)
    flags: u8,
    time: u64,
    /// value of the ledger counter when this value was written
    c: u64,
    /// the library saw no change worth an event in this update (event detection left to it): the time stamp of this
    /// update is not reported to anybody
    unreported_time: bool,
}

#[derive(Default)]
struct Ledger {
    counter: u64,
    hist: BTreeMap<(usize, u16), Vec<Hist>>,
    /// event id -> (type, index, position in hist)
    events: BTreeMap<u64, (usize, u16, usize)>,
    discarded: BTreeSet<u64>,
    commands: u64,
    /// every command the outstation application executed: (type, index, value)
    executed: Vec<(usize, u16, f64)>,
    /// values of `counter` at which a database transaction ended: the only states a READ can observe
    txn_ends: BTreeSet<u64>,
    /// updates left to the library's own event detection
    detect_updates: u64,
    /// time stamps are unique but not monotonic (every third one lies about 40 s ahead of its neighbours)
    jitter_time: bool,
    /// analog inputs are reported in 16-bit variations (g30v2 / g32v4): what arrives is the value brought into the range of
    /// 16 bits, with OVER_RANGE when it was outside
    narrow_analog: bool,
    narrowed_out_of_range: u64,
}

type Shared = Arc<Mutex<Ledger>>;

/// write a fresh unique value for point (t, i) inside the caller's transaction; ledger and database change together
fn write_point(
    db: &mut Database,
    led: &mut Ledger,
    r: &mut Rng,
    t: usize,
    i: u16,
    forced: Option<f64>,
    static_only: bool,
) {
    led.counter += 1;
    let c = led.counter;
    let time = if led.jitter_time {
        1_000_000 + 2 * c + if c % 3 == 0 { 40_001 } else { 0 }
    } else {
        1_000_000 + c
    };
    let raw_flags: u8 = if r.chance(2, 3) {
        0x01
    } else {
        0x01 | (r.u8() & 0x1E)
    };
    // the flags an application hands over for the binary types may carry stale state bits (e.g. a gateway writing back the
    // flags octet it received): the state on the wire is the value's, never these bits
    let stale: u8 = if r.chance(1, 3) { r.u8() & 0xC0 } else { 0 };
    let tm = Time::synchronized(time);
    // one update in three leaves it to the library to decide whether the change is an event (values come back to earlier
    // ones for the binary types, so "same as the value last reported" and "same as the previous value" differ)
    let detect = !static_only && forced.is_none() && r.chance(1, 3);
    let opt = if static_only {
        UpdateOptions::no_event()
    } else if detect {
        led.detect_updates += 1;
        UpdateOptions::new(true, EventMode::Detect)
    } else {
        UpdateOptions::new(true, EventMode::Force)
    };
    let mut h = Hist {
        num: 0.0,
        bytes: vec![],
        flags: raw_flags,
        time,
        c,
        unreported_time: false,
    };
    let info = match t {
        0 => {
            let v = forced.map(|x| x != 0.0).unwrap_or(c % 2 == 0);
            h.num = v as u8 as f64;
            h.flags = (raw_flags & 0x7F) | ((v as u8) << 7);
            db.update2(i, &BinaryInput::new(v, Flags::new(raw_flags | (stale & 0x80)), tm), opt)
        }
        1 => {
            let v = (c % 4) as u8;
            h.num = v as f64;
            h.flags = (raw_flags & 0x3F) | (v << 6);
            let d = [
                DoubleBit::Intermediate,
                DoubleBit::DeterminedOff,
                DoubleBit::DeterminedOn,
                DoubleBit::Indeterminate,
            ][v as usize];
            db.update2(
                i,
                &DoubleBitBinaryInput::new(d, Flags::new(raw_flags | stale), tm),
                opt,
            )
        }
        2 => {
            let v = forced.map(|x| x != 0.0).unwrap_or(c % 2 == 1);
            h.num = v as u8 as f64;
            h.flags = (raw_flags & 0x7F) | ((v as u8) << 7);
            db.update2(
                i,
                &BinaryOutputStatus::new(v, Flags::new(raw_flags | (stale & 0x80)), tm),
                opt,
            )
        }
        3 => {
            h.num = c as u32 as f64;
            db.update2(i, &Counter::new(c as u32, Flags::new(raw_flags), tm), opt)
        }
        4 => {
            h.num = c as u32 as f64;
            db.update2(
                i,
                &FrozenCounter::new(c as u32, Flags::new(raw_flags), tm),
                opt,
            )
        }
        5 if led.narrow_analog => {
            // whole numbers inside the 16-bit range, and one in four outside it on either side
            let v: f64 = match r.below(8) {
                0 => -(40_000.0 + (c % 1000) as f64),
                1 => 40_000.0 + (c % 1000) as f64,
                _ => (c % 60_000) as f64 - 30_000.0,
            };
            h.num = v.clamp(-32_768.0, 32_767.0);
            if h.num != v {
                h.flags = raw_flags | 0x20;
                led.narrowed_out_of_range += 1;
            }
            db.update2(i, &AnalogInput::new(v, Flags::new(raw_flags), tm), opt)
        }
        5 => {
            h.num = c as f64 + 0.25;
            db.update2(i, &AnalogInput::new(h.num, Flags::new(raw_flags), tm), opt)
        }
        6 => {
            h.num = forced.unwrap_or(c as f64 + 0.5);
            db.update2(
                i,
                &AnalogOutputStatus::new(h.num, Flags::new(raw_flags), tm),
                opt,
            )
        }
        _ => {
            let mut b = c.to_le_bytes().to_vec();
            b.truncate(6);
            b.push(0xEE);
            h.bytes = b.clone();
            h.flags = 0;
            db.update2(i, &OctetString::new(&b).unwrap(), opt)
        }
    };
    if matches!(info, UpdateInfo::NoEvent) && detect {
        h.unreported_time = true;
    }
    let e = led.hist.entry((t, i)).or_default();
    e.push(h);
    let pos = e.len() - 1;
    match info {
        UpdateInfo::Created(id) => {
            led.events.insert(id, (t, i, pos));
        }
        UpdateInfo::Overflow { created, discarded } => {
            led.events.insert(created, (t, i, pos));
            led.discarded.insert(discarded);
        }
        _ => {}
    }
}

// ---- outstation side callbacks
struct App;
impl OutstationApplication for App {}
struct Info;
impl OutstationInformation for Info {}

/// commands change the matching output status point, as a real device would
struct Controls {
    led: Shared,
    rng: Rng,
}
impl ControlHandler for Controls {}
impl Controls {
    fn apply(
        &mut self,
        t: usize,
        index: u16,
        value: f64,
        db: &mut DatabaseHandle,
    ) -> CommandStatus {
        if index >= NPOINTS {
            return CommandStatus::NotSupported;
        }
        let led = self.led.clone();
        let rng = &mut self.rng;
        db.transaction(|db| {
            let mut g = led.lock().unwrap_or_else(|e| e.into_inner());
            g.commands += 1;
            g.executed.push((t, index, value));
            write_point(db, &mut g, rng, t, index, Some(value), false);
            let c = g.counter;
            g.txn_ends.insert(c);
        });
        CommandStatus::Success
    }
}
impl ControlSupport<Group12Var1> for Controls {
    fn select(&mut self, _c: Group12Var1, index: u16, _: &mut DatabaseHandle) -> CommandStatus {
        if index < NPOINTS {
            CommandStatus::Success
        } else {
            CommandStatus::NotSupported
        }
    }
    fn operate(
        &mut self,
        c: Group12Var1,
        index: u16,
        _t: OperateType,
        db: &mut DatabaseHandle,
    ) -> CommandStatus {
        let on = matches!(c.code.op_type, OpType::LatchOn | OpType::PulseOn);
        self.apply(2, index, on as u8 as f64, db)
    }
}
macro_rules! analog_support {
    ($t:ty, $conv:expr) => {
        impl ControlSupport<$t> for Controls {
            fn select(&mut self, _c: $t, index: u16, _: &mut DatabaseHandle) -> CommandStatus {
                if index < NPOINTS {
                    CommandStatus::Success
                } else {
                    CommandStatus::NotSupported
                }
            }
            fn operate(
                &mut self,
                c: $t,
                index: u16,
                _t: OperateType,
                db: &mut DatabaseHandle,
            ) -> CommandStatus {
                let f: fn($t) -> f64 = $conv;
                self.apply(6, index, f(c), db)
            }
        }
    };
}
analog_support!(Group41Var1, |c| c.value as f64);
analog_support!(Group41Var2, |c| c.value as f64);
analog_support!(Group41Var3, |c| c.value as f64);
analog_support!(Group41Var4, |c| c.value);

struct AssocH;
impl AssociationHandler for AssocH {}
struct AssocI;
impl AssociationInformation for AssocI {}

// ---- the proxy
#[derive(Default)]
struct ProxyCtl {
    /// cut the current connection when this many more bytes have been forwarded (either direction)
    cut_in: Option<u64>,
    chunk: u8,
    connections: u64,
    cuts: u64,
    bytes: u64,
    /// drop the current connection at once
    kill_now: bool,
    /// refuse / drop connections until this instant (an outage)
    blackout_until: Option<Instant>,
    /// nothing listens until this instant: connection attempts are refused by the operating system
    listener_down_until: Option<Instant>,
    refusal_periods: u64,
}

async fn pump(
    mut rd: tokio::net::tcp::OwnedReadHalf,
    mut wr: tokio::net::tcp::OwnedWriteHalf,
    ctl: Arc<Mutex<ProxyCtl>>,
    dead: Arc<AtomicBool>,
    mut rng: Rng,
) {
    let mut buf = vec![0u8; 4096];
    loop {
        if dead.load(Ordering::SeqCst) {
            break;
        }
        {
            let mut g = ctl.lock().unwrap();
            let blackout = g
                .blackout_until
                .map(|t| Instant::now() < t)
                .unwrap_or(false);
            if g.kill_now || blackout {
                g.kill_now = false;
                g.cuts += 1;
                dead.store(true, Ordering::SeqCst);
                return;
            }
        }
        let n = match tokio::time::timeout(Duration::from_millis(20), rd.read(&mut buf)).await {
            Err(_) => continue,
            Ok(Ok(0)) | Ok(Err(_)) => break,
            Ok(Ok(n)) => n,
        };
        let mut p = 0;
        while p < n {
            let mode = ctl.lock().unwrap().chunk;
            let mut k = match mode {
                0 => n - p,
                1 => 1,
                2 => 1 + rng.usize_below(7),
                _ => 1 + rng.usize_below(300),
            }
            .min(n - p);
            // a pending cut
            let mut cut = false;
            {
                let mut g = ctl.lock().unwrap();
                if let Some(c) = g.cut_in {
                    if c <= k as u64 {
                        k = c as usize;
                        cut = true;
                        g.cut_in = None;
                        g.cuts += 1;
                    } else {
                        g.cut_in = Some(c - k as u64);
                    }
                }
                g.bytes += k as u64;
            }
            if k > 0 && wr.write_all(&buf[p..p + k]).await.is_err() {
                dead.store(true, Ordering::SeqCst);
                return;
            }
            let _ = wr.flush().await;
            p += k;
            if cut {
                dead.store(true, Ordering::SeqCst);
                return;
            }
            if mode != 0 && rng.chance(1, 4) {
                tokio::time::sleep(Duration::from_micros(200 + rng.below(1500))).await;
            }
        }
    }
    dead.store(true, Ordering::SeqCst);
}

async fn proxy(
    listener: TcpListener,
    upstream: std::net::SocketAddr,
    ctl: Arc<Mutex<ProxyCtl>>,
    stop: Arc<AtomicBool>,
    seed: u64,
) {
    let mut n = 0u64;
    let port = listener.local_addr().map(|a| a.port()).unwrap_or(0);
    let mut listener = Some(listener);
    let mut placeholder: Option<tokio::net::TcpSocket> = None;
    loop {
        if stop.load(Ordering::SeqCst) {
            break;
        }
        // "server down": nothing listens on the port, connection attempts are refused. The port itself stays ours: a
        // bound socket that does not listen keeps it out of the kernel's automatic port selection, so that no other
        // process (another instance of this check, say) can start listening on it while the master keeps dialling it
        let down_until = ctl.lock().unwrap().listener_down_until;
        if down_until.map(|t| Instant::now() < t).unwrap_or(false) {
            if listener.take().is_some() {
                ctl.lock().unwrap().refusal_periods += 1;
            }
            if placeholder.is_none() {
                if let Ok(sock) = tokio::net::TcpSocket::new_v4() {
                    let _ = sock.set_reuseaddr(true);
                    if sock.bind(([127, 0, 0, 1], port).into()).is_ok() {
                        placeholder = Some(sock);
                    }
                }
            }
            tokio::time::sleep(Duration::from_millis(10)).await;
            continue;
        }
        if listener.is_none() {
            // listen again (possible while the placeholder is still bound: it never listened)
            let fresh = tokio::net::TcpSocket::new_v4().and_then(|sock| {
                sock.set_reuseaddr(true)?;
                sock.bind(([127, 0, 0, 1], port).into())?;
                sock.listen(16)
            });
            match fresh {
                Ok(l) => {
                    listener = Some(l);
                    placeholder = None;
                }
                Err(_) => {
                    tokio::time::sleep(Duration::from_millis(10)).await;
                    continue;
                }
            }
        }
        let acc = tokio::time::timeout(
            Duration::from_millis(50),
            listener.as_ref().unwrap().accept(),
        )
        .await;
        if stop.load(Ordering::SeqCst) {
            break;
        }
        let Ok(Ok((down, _))) = acc else { continue };
        if ctl
            .lock()
            .unwrap()
            .blackout_until
            .map(|t| Instant::now() < t)
            .unwrap_or(false)
        {
            drop(down);
            continue;
        }
        let Ok(up) = TcpStream::connect(upstream).await else {
            continue;
        };
        let _ = down.set_nodelay(true);
        let _ = up.set_nodelay(true);
        ctl.lock().unwrap().connections += 1;
        n += 1;
        let dead = Arc::new(AtomicBool::new(false));
        let (dr, dw) = down.into_split();
        let (ur, uw) = up.into_split();
        let a = tokio::spawn(pump(
            dr,
            uw,
            ctl.clone(),
            dead.clone(),
            Rng::new(seed ^ (n << 8) ^ 1),
        ));
        let b = tokio::spawn(pump(
            ur,
            dw,
            ctl.clone(),
            dead.clone(),
            Rng::new(seed ^ (n << 8) ^ 2),
        ));
        // one connection at a time is enough for one master
        let _ = a.await;
        let _ = b.await;
    }
}

fn rec_num(v: &RVal) -> Option<f64> {
    Some(match v {
        RVal::Bool(b) => *b as u8 as f64,
        RVal::DBit(d) => *d as f64,
        RVal::U32(x) => *x as f64,
        RVal::F64(x) => *x,
        RVal::U8(x) => *x as f64,
        _ => return None,
    })
}

fn matches_hist(rec: &Rec, h: &Hist, t: usize) -> bool {
    if t == 7 {
        return matches!(&rec.val, RVal::Bytes(b) if *b == h.bytes);
    }
    if rec_num(&rec.val) != Some(h.num) {
        return false;
    }
    if rec.flags != h.flags {
        return false;
    }
    match rec.time {
        Some((_, ms)) => ms == h.time,
        None => true,
    }
}

async fn scenario(a: &ShardArgs, idx: u64) {
    let mut r = a.rng(&format!("c02/{idx}"));
    let unsol = r.bool();
    let small = r.chance(1, 3);
    let mode = if r.bool() {
        LinkErrorMode::Close
    } else {
        LinkErrorMode::Discard
    };
    let evbuf: u16 = if r.chance(1, 3) { 4 } else { 250 };
    let periodic = !unsol || r.bool();
    // some updates change the static value without producing an event
    let static_only = r.bool();
    // binary and double-bit events in the relative-time variations, with time stamps that are not monotonic
    let relative_time = r.bool();
    let t_begin = Instant::now();
    let led: Shared = Arc::new(Mutex::new(Ledger::default()));
    led.lock().unwrap().jitter_time = relative_time;
    let narrow_analog = r.chance(1, 3);
    led.lock().unwrap().narrow_analog = narrow_analog;
    if narrow_analog {
        out::count("scenarios_with_16_bit_analog_variations", 1);
    }
    if relative_time {
        out::count("scenarios_with_relative_time_events", 1);
    }
    // ---- outstation
    let out_addr = EndpointAddress::try_new(1024).unwrap();
    let master_addr = EndpointAddress::try_new(1).unwrap();
    let mut oc = OutstationConfig::new(out_addr, master_addr, EventBufferConfig::all_types(evbuf));
    oc.features.unsolicited = if unsol {
        Feature::Enabled
    } else {
        Feature::Disabled
    };
    oc.confirm_timeout = Timeout::from_millis(500).unwrap();
    oc.unsolicited_retry_delay = Duration::from_millis(100);
    oc.class_zero.octet_string = true;
    if small {
        oc.solicited_buffer_size = BufferSize::min();
        oc.unsolicited_buffer_size = BufferSize::min();
    }
    oc.keep_alive_timeout = Some(Duration::from_millis(700));
    let mut server = Server::new_tcp_server(mode, "127.0.0.1:0".parse().unwrap());
    let outstation = match server.add_outstation(
        oc,
        Box::new(App),
        Box::new(Info),
        Box::new(Controls {
            led: led.clone(),
            rng: r.fork(),
        }),
        NullListener::create(),
        AddressFilter::Any,
    ) {
        Ok(x) => x,
        Err(e) => {
            out::note(format!("add_outstation failed: {e:?}"));
            out::count("harness_setup_failed", 1);
            return;
        }
    };
    {
        let mut rr = r.fork();
        let led = led.clone();
        outstation.transaction(|db| {
            for i in 0..NPOINTS {
                let cls = |k: u16| {
                    Some(
                        [EventClass::Class1, EventClass::Class2, EventClass::Class3]
                            [((i + k) % 3) as usize],
                    )
                };
                db.add(
                    i,
                    cls(0),
                    BinaryInputConfig::new(
                        StaticBinaryInputVariation::Group1Var2,
                        if relative_time {
                            EventBinaryInputVariation::Group2Var3
                        } else {
                            EventBinaryInputVariation::Group2Var2
                        },
                    ),
                );
                db.add(
                    i,
                    cls(1),
                    DoubleBitBinaryInputConfig::new(
                        StaticDoubleBitBinaryInputVariation::Group3Var2,
                        if relative_time {
                            EventDoubleBitBinaryInputVariation::Group4Var3
                        } else {
                            EventDoubleBitBinaryInputVariation::Group4Var2
                        },
                    ),
                );
                db.add(
                    i,
                    cls(2),
                    BinaryOutputStatusConfig::new(
                        StaticBinaryOutputStatusVariation::Group10Var2,
                        EventBinaryOutputStatusVariation::Group11Var2,
                    ),
                );
                db.add(
                    i,
                    cls(0),
                    CounterConfig::new(
                        StaticCounterVariation::Group20Var1,
                        EventCounterVariation::Group22Var5,
                        0,
                    ),
                );
                db.add(
                    i,
                    cls(1),
                    FrozenCounterConfig::new(
                        StaticFrozenCounterVariation::Group21Var5,
                        EventFrozenCounterVariation::Group23Var5,
                        0,
                    ),
                );
                db.add(
                    i,
                    cls(2),
                    if narrow_analog {
                        AnalogInputConfig::new(
                            StaticAnalogInputVariation::Group30Var2,
                            EventAnalogInputVariation::Group32Var4,
                            0.0,
                        )
                    } else {
                        AnalogInputConfig::new(
                            StaticAnalogInputVariation::Group30Var6,
                            EventAnalogInputVariation::Group32Var8,
                            0.0,
                        )
                    },
                );
                db.add(
                    i,
                    cls(0),
                    AnalogOutputStatusConfig::new(
                        StaticAnalogOutputStatusVariation::Group40Var4,
                        EventAnalogOutputStatusVariation::Group42Var8,
                        0.0,
                    ),
                );
                db.add(i, cls(1), OctetStringConfig);
            }
            let mut g = led.lock().unwrap();
            for t in 0..8 {
                for i in 0..NPOINTS {
                    write_point(db, &mut g, &mut rr, t, i, None, false);
                }
            }
            let c = g.counter;
            g.txn_ends.insert(c);
        });
    }
    let server_handle = match server.bind().await {
        Ok(h) => h,
        Err(e) => {
            out::note(format!("bind failed: {e:?}"));
            out::count("harness_setup_failed", 1);
            return;
        }
    };
    let out_port = server_handle.local_addr().map(|a| a.port()).unwrap_or(0);
    // ---- proxy
    let listener = match TcpListener::bind("127.0.0.1:0").await {
        Ok(l) => l,
        Err(_) => {
            out::count("harness_setup_failed", 1);
            return;
        }
    };
    let proxy_port = listener.local_addr().unwrap().port();
    let ctl = Arc::new(Mutex::new(ProxyCtl {
        chunk: r.below(4) as u8,
        ..Default::default()
    }));
    let stop = Arc::new(AtomicBool::new(false));
    let pj = tokio::spawn(proxy(
        listener,
        format!("127.0.0.1:{out_port}").parse().unwrap(),
        ctl.clone(),
        stop.clone(),
        r.u64(),
    ));
    // ---- master
    let mut mcfg = MasterChannelConfig::new(master_addr);
    if small {
        mcfg.tx_buffer_size = BufferSize::min();
    }
    let mut master = spawn_master_tcp_client(
        mode,
        mcfg,
        EndpointList::single(format!("127.0.0.1:{proxy_port}")),
        ConnectStrategy::new(
            Duration::from_millis(20),
            Duration::from_millis(100),
            Duration::from_millis(20),
        ),
        NullListener::create(),
    );
    let mut acfg = AssociationConfig::new(
        if unsol {
            EventClasses::all()
        } else {
            EventClasses::none()
        },
        if unsol {
            EventClasses::all()
        } else {
            EventClasses::none()
        },
        Classes::all(),
        EventClasses::none(),
    );
    acfg.response_timeout = Timeout::from_millis(600).unwrap();
    acfg.auto_tasks_retry_strategy =
        RetryStrategy::new(Duration::from_millis(50), Duration::from_millis(200));
    acfg.auto_integrity_scan_on_buffer_overflow = true;
    acfg.keep_alive_timeout = Some(Duration::from_millis(900));
    let rec = Recorder::new();
    let mut assoc = match master
        .add_association(
            out_addr,
            acfg,
            Box::new(rec.clone()),
            Box::new(AssocH),
            Box::new(AssocI),
        )
        .await
    {
        Ok(x) => x,
        Err(_) => {
            out::count("harness_setup_failed", 1);
            return;
        }
    };
    if periodic {
        let _ = assoc
            .add_poll(
                ReadRequest::class_scan(Classes::new(false, EventClasses::all())),
                Duration::from_millis(120),
            )
            .await;
        let _ = assoc
            .add_poll(
                ReadRequest::class_scan(Classes::all()),
                Duration::from_millis(700),
            )
            .await;
    }
    let _ = master.enable().await;
    // ---- stimulus: updater threads, commands, cuts
    let busy_ms = r.range(200, 700);
    let stop_updates = Arc::new(AtomicBool::new(false));
    let updates_done = Arc::new(AtomicU64::new(0));
    // while a multi-header READ is outstanding the updaters commit back to back (bounded), so that a selection that
    // is not one critical section would be caught between two of them
    let burst = Arc::new(AtomicBool::new(false));
    let mut threads = vec![];
    for k in 0..2u64 {
        let h = outstation.clone();
        let led = led.clone();
        let stopf = stop_updates.clone();
        let done = updates_done.clone();
        let burst = burst.clone();
        let mut rr = Rng::new(r.u64() ^ k);
        threads.push(std::thread::spawn(move || {
            let mut in_burst = 0u32;
            while !stopf.load(Ordering::SeqCst) {
                let n = 1 + rr.usize_below(4);
                h.transaction(|db| {
                    let mut g = led.lock().unwrap_or_else(|e| e.into_inner());
                    for _ in 0..n {
                        let t = rr.usize_below(8);
                        // output status points are driven by commands and by the device alike
                        let i = rr.below(NPOINTS as u64) as u16;
                        let quiet = static_only && rr.chance(1, 4);
                        write_point(db, &mut g, &mut rr, t, i, None, quiet);
                    }
                    let c = g.counter;
                    g.txn_ends.insert(c);
                });
                done.fetch_add(n as u64, Ordering::Relaxed);
                if burst.load(Ordering::Relaxed) && in_burst < 1500 {
                    in_burst += 1;
                    std::thread::yield_now();
                    continue;
                }
                if !burst.load(Ordering::Relaxed) {
                    in_burst = 0;
                }
                std::thread::sleep(Duration::from_micros(500 + rr.below(6000)));
            }
        }));
    }
    let t_stim = Instant::now();
    let chunk0 = ctl.lock().unwrap().chunk;
    let mut hist: Vec<String> = vec![format!("unsol={unsol} small={small} mode={mode:?} evbuf={evbuf} periodic={periodic} static_only={static_only} chunk={chunk0} busy={busy_ms}ms")];
    let mut cmd_results: Vec<String> = vec![];
    let mut cmd_serial = 0u64;
    let mut issued: Vec<(u16, f64, bool)> = vec![];
    while (t_stim.elapsed().as_millis() as u64) < busy_ms {
        match r.below(6) {
            0 => {
                let off = r.range(1, 400);
                ctl.lock().unwrap().cut_in = Some(off);
                hist.push(format!(
                    "+{}ms cut after {off} more bytes",
                    t_stim.elapsed().as_millis()
                ));
            }
            1 => {
                let i = r.below(NPOINTS as u64 + 1) as u16;
                let on = r.bool();
                let hdr = CommandBuilder::single_header_u16(
                    Group12Var1::from_op_type(if on {
                        OpType::LatchOn
                    } else {
                        OpType::LatchOff
                    }),
                    i,
                );
                let mode = if r.bool() {
                    CommandMode::SelectBeforeOperate
                } else {
                    CommandMode::DirectOperate
                };
                let res =
                    tokio::time::timeout(Duration::from_secs(5), assoc.operate(mode, hdr)).await;
                cmd_results.push(format!("{res:?}"));
                hist.push(format!(
                    "+{}ms CROB index {i} on={on} -> {res:?}",
                    t_stim.elapsed().as_millis()
                ));
            }
            2 => {
                let i = r.below(NPOINTS as u64) as u16;
                // a value no other command of this scenario uses: executions can be attributed
                cmd_serial += 1;
                let v = 5_000_000.0 + cmd_serial as f64;
                let hdr = CommandBuilder::single_header_u16(Group41Var4::new(v), i);
                let mode = if r.bool() {
                    CommandMode::SelectBeforeOperate
                } else {
                    CommandMode::DirectOperate
                };
                let res =
                    tokio::time::timeout(Duration::from_secs(5), assoc.operate(mode, hdr)).await;
                hist.push(format!(
                    "+{}ms analog output index {i} = {v} ({mode:?}) -> {res:?}",
                    t_stim.elapsed().as_millis()
                ));
                issued.push((i, v, matches!(res, Ok(Ok(())))));
            }
            3 => {
                ctl.lock().unwrap().chunk = r.below(4) as u8;
            }
            5 if r.chance(1, 4) => {
                let ms = r.range(100, 400);
                let mut g = ctl.lock().unwrap();
                g.listener_down_until = Some(Instant::now() + Duration::from_millis(ms));
                g.kill_now = true;
                drop(g);
                hist.push(format!(
                    "+{}ms server unreachable for {ms} ms (connections refused)",
                    t_stim.elapsed().as_millis()
                ));
            }
            4 if r.chance(1, 3) => {
                let ms = r.range(100, 350);
                ctl.lock().unwrap().blackout_until =
                    Some(Instant::now() + Duration::from_millis(ms));
                hist.push(format!(
                    "+{}ms outage of {ms} ms",
                    t_stim.elapsed().as_millis()
                ));
            }
            _ => {
                if r.chance(1, 2) {
                    // a READ with one static header per type: the selection of all of them is one instant (C11 torn_snapshot)
                    let hs: Vec<ReadHeader> = [
                        Variation::Group1Var0,
                        Variation::Group3Var0,
                        Variation::Group10Var0,
                        Variation::Group20Var0,
                        Variation::Group21Var0,
                        Variation::Group30Var0,
                        Variation::Group40Var0,
                    ]
                    .iter()
                    .map(|v| ReadHeader::all_objects(*v))
                    .collect();
                    burst.store(true, Ordering::Relaxed);
                    let res = tokio::time::timeout(
                        Duration::from_secs(5),
                        assoc.read(ReadRequest::multiple_headers(&hs)),
                    )
                    .await;
                    burst.store(false, Ordering::Relaxed);
                    if matches!(res, Ok(Ok(()))) {
                        out::count("multi_header_static_reads_ok", 1);
                    }
                    hist.push(format!(
                        "+{}ms READ of seven static groups -> {res:?}",
                        t_stim.elapsed().as_millis()
                    ));
                }
            }
        }
        tokio::time::sleep(Duration::from_millis(r.range(5, 60))).await;
    }
    stop_updates.store(true, Ordering::SeqCst);
    for t in threads {
        let _ = t.join();
    }
    {
        let mut g = ctl.lock().unwrap();
        g.cut_in = None;
        g.chunk = if r.bool() { 0 } else { 3 };
        // static-only changes reach a master without periodic polls through the integrity poll of the next connection:
        // the last interruption of the history
        if static_only && (!periodic || r.bool()) {
            g.kill_now = true;
        }
    }
    let (nconn, ncuts) = {
        let g = ctl.lock().unwrap();
        (g.connections, g.cuts)
    };
    hist.push(format!(
        "+{}ms stimulus stopped: {} updates, {nconn} connections, {ncuts} cuts",
        t_stim.elapsed().as_millis(),
        updates_done.load(Ordering::Relaxed)
    ));
    // ---- wait for convergence
    let mut log: Vec<Rec> = vec![];
    // static records grouped by the response series (FIR .. FIN, consecutive sequence numbers) that carried them
    let mut frag_statics: Vec<Vec<Rec>> = vec![];
    let mut open_frag: Option<Vec<Rec>> = None;
    let mut series: Vec<Rec> = vec![];
    let mut series_next: Option<u8> = None;
    let mut cur_seq = 0u8;
    let mut cur_ctl = (true, true, false);
    let deadline = Instant::now() + Duration::from_secs(40);
    let mut converged = false;
    let mut why_not = String::new();
    let t_stop = Instant::now();
    loop {
        for it in rec.take() {
            match it {
                Item::M(r) => {
                    if !r.is_event {
                        if let Some(f) = &mut open_frag {
                            f.push(r.clone());
                        }
                    }
                    log.push(r);
                }
                Item::Begin(_, sq) => {
                    open_frag = Some(vec![]);
                    cur_seq = sq;
                }
                Item::Ctl(fir, fin, uns) => cur_ctl = (fir, fin, uns),
                Item::End(..) => {
                    let f = open_frag.take().unwrap_or_default();
                    let (fir, fin, uns) = cur_ctl;
                    if uns {
                        continue;
                    }
                    // a fragment continues the series only with the expected sequence number and without FIR
                    if fir || series_next != Some(cur_seq) {
                        if series.len() >= 2 {
                            frag_statics.push(std::mem::take(&mut series));
                        }
                        series.clear();
                        if !fir {
                            // the head of this series was never delivered (e.g. the master joined late): judge it alone
                            series_next = None;
                        }
                    }
                    if series.len() + f.len() > 0 {
                        out::count(
                            if fir {
                                "snapshot_first_fragments"
                            } else {
                                "snapshot_later_fragments"
                            },
                            1,
                        );
                    }
                    series.extend(f);
                    if fin {
                        if series.len() >= 2 {
                            frag_statics.push(std::mem::take(&mut series));
                        }
                        series.clear();
                        series_next = None;
                    } else {
                        series_next = Some((cur_seq + 1) & 0x0F);
                    }
                }
                _ => {}
            }
        }
        // evaluate
        let g = led.lock().unwrap();
        let mut last: BTreeMap<(usize, u16), &Rec> = BTreeMap::new();
        for rc in &log {
            if let Some(t) = PTYPES.iter().position(|p| *p == rc.ptype) {
                last.insert((t, rc.index), rc);
            }
        }
        why_not.clear();
        for (k, hs) in g.hist.iter() {
            let cur = hs.last().unwrap();
            match last.get(k) {
                None => {
                    why_not = format!("point {k:?} never reported");
                    break;
                }
                Some(rc) => {
                    // value and flags must be the current ones; the time is the one of the last update that was reported
                    let same_but_for_time = cur.unreported_time && {
                        let mut probe = (*rc).clone();
                        probe.time = None;
                        matches_hist(&probe, cur, k.0)
                    };
                    if !matches_hist(rc, cur, k.0) && !same_but_for_time {
                        why_not = format!("point {k:?}: last reported {:?} flags {:#04x} time {:?}, current {cur:?}", rc.val, rc.flags, rc.time);
                        break;
                    }
                }
            }
        }
        if why_not.is_empty() {
            // every surviving event delivered as an event
            for (id, (t, i, pos)) in g.events.iter() {
                if g.discarded.contains(id) {
                    continue;
                }
                let h = &g.hist[&(*t, *i)][*pos];
                let seen = log.iter().any(|rc| {
                    rc.is_event
                        && rc.ptype == PTYPES[*t]
                        && rc.index == *i
                        && matches_hist(rc, h, *t)
                        && (*t == 7 || rc.time.map(|x| x.1) == Some(h.time))
                });
                if !seen {
                    why_not = format!(
                        "event {id} of point ({t}, {i}) value {h:?} not delivered as an event"
                    );
                    break;
                }
            }
        }
        drop(g);
        if why_not.is_empty() {
            converged = true;
            break;
        }
        if Instant::now() > deadline {
            break;
        }
        tokio::time::sleep(Duration::from_millis(40)).await;
    }
    let conv_ms = t_stop.elapsed().as_millis();
    hist.push(format!(
        "converged={converged} after {conv_ms} ms; {} records received; {why_not}",
        log.len()
    ));
    // ---- judge
    out::eval(1);
    let mut violations: Vec<(String, String, String)> = vec![];
    {
        let g = led.lock().unwrap();
        // nothing fabricated
        for rc in &log {
            let Some(t) = PTYPES.iter().position(|p| *p == rc.ptype) else {
                violations.push((
                    "fabricated".into(),
                    format!("{:?}", rc.ptype),
                    format!("record of a type that the outstation does not have: {rc:?}"),
                ));
                continue;
            };
            match g.hist.get(&(t, rc.index)) {
                None => violations.push((
                    "fabricated".into(),
                    format!("t{t}-unknown-point"),
                    format!("record for a point that does not exist: {rc:?}"),
                )),
                Some(hs) => {
                    if !hs.iter().any(|h| matches_hist(rc, h, t)) {
                        let elsewhere = g.hist.iter().any(|(k, hs)| {
                            *k != (t, rc.index) && hs.iter().any(|h| matches_hist(rc, h, k.0))
                        });
                        violations.push((
                            if elsewhere {
                                "cross_wired"
                            } else {
                                "fabricated"
                            }
                            .into(),
                            format!("t{t}|{}", if rc.is_event { "event" } else { "static" }),
                            format!(
                                "point ({t}, {}) never had the value that was reported: {rc:?}",
                                rc.index
                            ),
                        ));
                    } else {
                        out::count("records_match_history", 1);
                    }
                }
            }
        }
        // one instant: the static objects of one response fragment were all selected under one acquisition of the database
        // mutex, so some state between two transactions must show every one of them (C11 under real threads:
        // "the value it had when the request was processed")
        for f in &frag_statics {
            // candidate instants = transaction boundaries; narrow them point by point
            let mut feasible: Vec<u64> = g.txn_ends.iter().copied().collect();
            let mut culprit: Option<&Rec> = None;
            for rc in f {
                let Some(t) = PTYPES.iter().position(|p| *p == rc.ptype) else {
                    continue;
                };
                let Some(hs) = g.hist.get(&(t, rc.index)) else {
                    continue;
                };
                // intervals of the ledger counter during which the point showed this value
                let mut spans: Vec<(u64, u64)> = vec![];
                for (k, h) in hs.iter().enumerate() {
                    if matches_hist(rc, h, t) {
                        let from = h.c;
                        let to = hs.get(k + 1).map(|n| n.c).unwrap_or(u64::MAX);
                        spans.push((from, to));
                    }
                }
                if spans.is_empty() {
                    // judged by the provenance rule above
                    feasible.clear();
                    culprit = None;
                    break;
                }
                let before = feasible.len();
                feasible.retain(|b| spans.iter().any(|(lo, hi)| lo <= b && b < hi));
                if feasible.is_empty() && before > 0 {
                    culprit = Some(rc);
                    break;
                }
            }
            if let Some(rc) = culprit {
                out::violation(
                    "C11",
                    "C11.torn_snapshot",
                    &format!("{:?}", rc.ptype),
                    J::obj(vec![
                        ("why", J::s(format!("the static objects of one response series do not belong to any single state of the database between two transactions; the set became inconsistent at {rc:?}"))),
                        ("fragment", J::arr(f.iter().map(|r| format!("{:?}[{}]={:?} flags {:#04x}", r.ptype, r.index, r.val, r.flags)))),
                        ("history", J::arr(hist.iter().cloned())),
                    ]),
                    J::obj(vec![
                        ("check", J::s("c02")),
                        ("seed", J::U(a.seed)),
                        ("shard", J::U(a.shard)),
                        ("nshards", J::U(a.nshards)),
                        ("scenario", J::U(idx)),
                    ]),
                );
            } else if !feasible.is_empty() {
                out::count("snapshot_fragments_consistent", 1);
                out::count("snapshot_objects_checked", f.len() as u64);
                if feasible.len() == 1 {
                    out::count("snapshot_instant_unique", 1);
                }
            }
        }
        // commands: reported success means executed exactly once; nothing is ever executed twice
        for (i, v, ok) in &issued {
            let n = g
                .executed
                .iter()
                .filter(|e| e.0 == 6 && e.1 == *i && e.2 == *v)
                .count();
            if n > 1 {
                violations.push((
                    "command_executed_twice".into(),
                    "analog-output".into(),
                    format!("analog output {v} for index {i} was executed {n} times"),
                ));
            } else if *ok && n != 1 {
                violations.push(("command_success_without_execution".into(), "analog-output".into(), format!("operate() returned Ok for analog output {v} index {i} but the outstation executed it {n} times")));
            } else {
                out::count(
                    if *ok {
                        "commands_ok_executed_once"
                    } else {
                        "commands_failed_executed_at_most_once"
                    },
                    1,
                );
            }
        }
        if !converged {
            let what = if why_not.contains("not delivered as an event") {
                "event_lost"
            } else {
                "no_convergence"
            };
            violations.push((
                what.into(),
                format!("unsol{}|periodic{}", unsol as u8, periodic as u8),
                format!("40 s after the stimulus stopped: {why_not}"),
            ));
        } else {
            out::count("converged", 1);
            out::count(
                "events_delivered",
                (g.events.len() - g.discarded.len()) as u64,
            );
            out::count("events_overflow_discarded", g.discarded.len() as u64);
            out::count("commands_executed", g.commands);
            out::count("updates_with_event_detection", g.detect_updates);
            out::count("analog_values_outside_16_bits_written", g.narrowed_out_of_range);
            out::count("convergence_ms_total", conv_ms as u64);
        }
        let c = ctl.lock().unwrap();
        out::count("connections", c.connections);
        out::count("connection_cuts", c.cuts);
        out::count("bytes_proxied", c.bytes);
        out::count("connection_refusal_periods", c.refusal_periods);
        if c.cuts > 0 && converged {
            out::count("converged_after_cuts", 1);
        }
        if !g.discarded.is_empty() && converged {
            out::count("converged_after_overflow", 1);
        }
    }
    violations.sort();
    violations.dedup_by(|a, b| a.0 == b.0 && a.1 == b.1);
    for (rule, sig, why) in &violations {
        out::violation(
            P,
            &format!("C02.{rule}"),
            sig,
            J::obj(vec![
                ("why", J::s(why.clone())),
                ("history", J::arr(hist.iter().cloned())),
            ]),
            J::obj(vec![
                ("check", J::s("c02")),
                ("seed", J::U(a.seed)),
                ("shard", J::U(a.shard)),
                ("nshards", J::U(a.nshards)),
                ("scenario", J::U(idx)),
            ]),
        );
    }
    out::distinct(&format!(
        "unsol{}/small{}/{mode:?}/evbuf{evbuf}/periodic{}",
        unsol as u8, small as u8, periodic as u8
    ));
    if out::sample_count() < 2 {
        out::sample(J::obj(vec![("history", J::arr(hist.iter().cloned()))]));
    }
    if a.replay.is_some() {
        for h in &hist {
            eprintln!("HIST {h}");
        }
    }
    // ---- tear down
    stop.store(true, Ordering::SeqCst);
    drop(assoc);
    drop(master);
    drop(server_handle);
    drop(outstation);
    let _ = tokio::time::timeout(Duration::from_secs(2), pj).await;
    let _ = t_begin;
}

pub fn run(a: &ShardArgs) -> Result<(), String> {
    let only: Option<u64> = a
        .replay
        .as_ref()
        .and_then(|p| super::common::replay_scenario(p));
    let n = a.n(128);
    for idx in 0..n {
        if idx % a.nshards != a.shard {
            continue;
        }
        if let Some(o) = only {
            if o != idx {
                continue;
            }
        }
        out::progress(&format!("scenario {idx}"));
        let rt = tokio::runtime::Builder::new_multi_thread()
            .worker_threads(3)
            .enable_all()
            .build()
            .map_err(|e| format!("runtime: {e}"))?;
        rt.block_on(scenario(a, idx));
        rt.shutdown_timeout(Duration::from_secs(3));
        for p in crate::verif::util::take_panics() {
            out::violation(
                P,
                "C02.panic",
                &crate::verif::util::norm_location(&p.location),
                J::obj(vec![(
                    "why",
                    J::s(format!(
                        "panic {} at {} (thread {})",
                        p.message, p.location, p.thread
                    )),
                )]),
                J::obj(vec![
                    ("check", J::s("c02")),
                    ("seed", J::U(a.seed)),
                    ("shard", J::U(a.shard)),
                    ("nshards", J::U(a.nshards)),
                    ("scenario", J::U(idx)),
                ]),
            );
        }
    }
    Ok(())
}
