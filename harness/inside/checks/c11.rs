//! C11 — a READ is answered with a complete, consistent snapshot as an orderly series.
//! Engine E1; oracle: reference database mirror (snapshot taken when the request is sent).

use crate::app::measurement::*;
use crate::outstation::database::*;
use crate::verif::out::{self, J};
use crate::verif::refcodec::app as ra;
use crate::verif::refcodec::app::{Meas, PType, Val};
use crate::verif::rng::Rng;
use crate::verif::sim::outstation::*;
use crate::verif::sim::*;
use crate::verif::util::hex;
use crate::verif::ShardArgs;
use std::collections::BTreeMap;

const P: &str = "C11";

const SG: [u8; 8] = [1, 3, 10, 20, 21, 30, 40, 110];
const TYPES: [PType; 8] = [
    PType::Binary,
    PType::DoubleBit,
    PType::BinaryOutputStatus,
    PType::Counter,
    PType::FrozenCounter,
    PType::Analog,
    PType::AnalogOutputStatus,
    PType::OctetString,
];

#[derive(Clone, Debug, PartialEq)]
struct PV {
    num: f64,
    bytes: Vec<u8>,
    flags: u8,
    time: u64,
    /// configured default static variation
    svar: u8,
}

type Mirror = BTreeMap<(usize, u16), PV>;

fn svars(t: usize) -> &'static [u8] {
    match t {
        0 => &[1, 2],
        1 => &[1, 2],
        2 => &[1, 2],
        3 => &[1, 2, 5, 6],
        4 => &[1, 2, 5, 6, 9, 10],
        5 => &[1, 2, 3, 4, 5, 6],
        6 => &[1, 2, 3, 4],
        _ => &[0],
    }
}

fn add(db: &mut Database, t: usize, index: u16, svar: u8, class: Option<EventClass>) {
    match t {
        0 => {
            db.add(
                index,
                class,
                BinaryInputConfig::new(
                    if svar == 1 {
                        StaticBinaryInputVariation::Group1Var1
                    } else {
                        StaticBinaryInputVariation::Group1Var2
                    },
                    EventBinaryInputVariation::Group2Var2,
                ),
            );
        }
        1 => {
            db.add(
                index,
                class,
                DoubleBitBinaryInputConfig::new(
                    if svar == 1 {
                        StaticDoubleBitBinaryInputVariation::Group3Var1
                    } else {
                        StaticDoubleBitBinaryInputVariation::Group3Var2
                    },
                    EventDoubleBitBinaryInputVariation::Group4Var2,
                ),
            );
        }
        2 => {
            db.add(
                index,
                class,
                BinaryOutputStatusConfig::new(
                    if svar == 1 {
                        StaticBinaryOutputStatusVariation::Group10Var1
                    } else {
                        StaticBinaryOutputStatusVariation::Group10Var2
                    },
                    EventBinaryOutputStatusVariation::Group11Var2,
                ),
            );
        }
        3 => {
            let v = match svar {
                1 => StaticCounterVariation::Group20Var1,
                2 => StaticCounterVariation::Group20Var2,
                5 => StaticCounterVariation::Group20Var5,
                _ => StaticCounterVariation::Group20Var6,
            };
            db.add(
                index,
                class,
                CounterConfig::new(v, EventCounterVariation::Group22Var5, 0),
            );
        }
        4 => {
            let v = match svar {
                1 => StaticFrozenCounterVariation::Group21Var1,
                2 => StaticFrozenCounterVariation::Group21Var2,
                5 => StaticFrozenCounterVariation::Group21Var5,
                6 => StaticFrozenCounterVariation::Group21Var6,
                9 => StaticFrozenCounterVariation::Group21Var9,
                _ => StaticFrozenCounterVariation::Group21Var10,
            };
            db.add(
                index,
                class,
                FrozenCounterConfig::new(v, EventFrozenCounterVariation::Group23Var5, 0),
            );
        }
        5 => {
            let v = match svar {
                1 => StaticAnalogInputVariation::Group30Var1,
                2 => StaticAnalogInputVariation::Group30Var2,
                3 => StaticAnalogInputVariation::Group30Var3,
                4 => StaticAnalogInputVariation::Group30Var4,
                5 => StaticAnalogInputVariation::Group30Var5,
                _ => StaticAnalogInputVariation::Group30Var6,
            };
            db.add(
                index,
                class,
                AnalogInputConfig::new(v, EventAnalogInputVariation::Group32Var3, 0.0),
            );
        }
        6 => {
            let v = match svar {
                1 => StaticAnalogOutputStatusVariation::Group40Var1,
                2 => StaticAnalogOutputStatusVariation::Group40Var2,
                3 => StaticAnalogOutputStatusVariation::Group40Var3,
                _ => StaticAnalogOutputStatusVariation::Group40Var4,
            };
            db.add(
                index,
                class,
                AnalogOutputStatusConfig::new(
                    v,
                    EventAnalogOutputStatusVariation::Group42Var3,
                    0.0,
                ),
            );
        }
        _ => {
            db.add(index, class, OctetStringConfig);
        }
    }
}

/// take a point out of the database
pub fn remove(db: &mut Database, t: usize, index: u16) -> bool {
    match t {
        0 => Remove::<BinaryInput>::remove(db, index),
        1 => Remove::<DoubleBitBinaryInput>::remove(db, index),
        2 => Remove::<BinaryOutputStatus>::remove(db, index),
        3 => Remove::<Counter>::remove(db, index),
        4 => Remove::<FrozenCounter>::remove(db, index),
        5 => Remove::<AnalogInput>::remove(db, index),
        6 => Remove::<AnalogOutputStatus>::remove(db, index),
        _ => Remove::<OctetString>::remove(db, index),
    }
}

/// write a new unique value for a point; returns the mirror entry
fn update(
    sim: &OutSim,
    r: &mut Rng,
    t: usize,
    index: u16,
    counter: &mut u64,
    svar: u8,
    events: bool,
) -> PV {
    *counter += 1;
    let time = 5_000_000 + *counter;
    let flags: u8 = if r.chance(2, 3) {
        0x01
    } else {
        0x01 | (r.u8() & 0x1E)
    };
    let opt = if events {
        UpdateOptions::detect_event()
    } else {
        UpdateOptions::no_event()
    };
    let tm = Time::synchronized(time);
    let mut pv = PV {
        num: 0.0,
        bytes: vec![],
        flags,
        time,
        svar,
    };
    match t {
        0 => {
            let v = *counter % 2 == 0;
            pv.num = v as u8 as f64;
            sim.db(|db| db.update(index, &BinaryInput::new(v, Flags::new(flags), tm), opt));
        }
        1 => {
            let v = (*counter % 4) as u8;
            pv.num = v as f64;
            let d = [
                DoubleBit::Intermediate,
                DoubleBit::DeterminedOff,
                DoubleBit::DeterminedOn,
                DoubleBit::Indeterminate,
            ][v as usize];
            sim.db(|db| {
                db.update(
                    index,
                    &DoubleBitBinaryInput::new(d, Flags::new(flags), tm),
                    opt,
                )
            });
        }
        2 => {
            let v = *counter % 2 == 1;
            pv.num = v as u8 as f64;
            sim.db(|db| {
                db.update(
                    index,
                    &BinaryOutputStatus::new(v, Flags::new(flags), tm),
                    opt,
                )
            });
        }
        3 => {
            let v = (*counter % 60_000) as u32;
            pv.num = v as f64;
            sim.db(|db| db.update(index, &Counter::new(v, Flags::new(flags), tm), opt));
        }
        4 => {
            let v = (*counter % 60_000) as u32;
            pv.num = v as f64;
            sim.db(|db| db.update(index, &FrozenCounter::new(v, Flags::new(flags), tm), opt));
        }
        5 => {
            let v = (*counter % 30_000) as f64;
            pv.num = v;
            sim.db(|db| db.update(index, &AnalogInput::new(v, Flags::new(flags), tm), opt));
        }
        6 => {
            let v = (*counter % 30_000) as f64;
            pv.num = v;
            sim.db(|db| {
                db.update(
                    index,
                    &AnalogOutputStatus::new(v, Flags::new(flags), tm),
                    opt,
                )
            });
        }
        _ => {
            let n = r.range(1, 6) as usize;
            let mut b = r.bytes(n);
            b[0] = (*counter & 0xFF) as u8;
            pv.bytes = b.clone();
            pv.flags = 0;
            sim.db(|db| db.update(index, &OctetString::new(&b).unwrap(), opt));
        }
    }
    pv
}

#[derive(Clone, Debug)]
enum Hdr {
    Class0,
    /// type slot, requested variation (0 = default), optional range
    Typed(usize, u8, Option<(u16, u16)>),
}

/// does the wire object agree with the snapshot value?
fn agrees(m: &Meas, pv: &PV, t: usize, requested_var: u8) -> Result<(), String> {
    // variation: requested (or configured default) or its promotion from a packed format
    let want = if requested_var != 0 {
        requested_var
    } else {
        pv.svar
    };
    let packed = matches!(t, 0 | 1 | 2) && want == 1;
    let ok_var = if t == 7 {
        true
    } else if packed {
        if pv.flags == 0x01 {
            m.var == 1
        } else {
            m.var == 2
        }
    } else {
        m.var == want
    };
    if !ok_var {
        return Err(format!(
            "variation g{}v{} (requested {requested_var}, configured {}, flags {:#04x})",
            m.group, m.var, pv.svar, pv.flags
        ));
    }
    let v_ok = match &m.val {
        Val::Bool(b) => (*b as u8 as f64) == pv.num,
        Val::DBit(d) => *d as f64 == pv.num,
        Val::Bytes(b) => *b == pv.bytes,
        other => other.as_f64() == pv.num,
    };
    if !v_ok {
        return Err(format!("value {:?}, snapshot {}", m.val, pv.num));
    }
    if let Some(f) = m.flags {
        if f != pv.flags {
            return Err(format!("flags {f:#04x}, snapshot {:#04x}", pv.flags));
        }
    }
    if let Some(tm) = m.time {
        if tm != pv.time {
            return Err(format!("time {tm}, snapshot {}", pv.time));
        }
    }
    Ok(())
}

async fn scenario(a: &ShardArgs, idx: u64) {
    let mut r = a.rng(&format!("c11/{idx}"));
    let mut cfg = OutCfg::default();
    cfg.sol_tx = *r.pick(&[249usize, 260, 300, 400, 700, 2048]);
    cfg.decode = r.usize_below(108);
    cfg.discard = r.bool();
    cfg.confirm_timeout_ms = *r.pick(&[100u64, 1000]);
    cfg.class_zero_octets = r.bool();
    if r.chance(1, 3) {
        // some types are left out of class 0
        for t in 0..7 {
            cfg.class_zero[t] = r.chance(2, 3);
        }
    }
    // sometimes the outstation starts with its null unsolicited response outstanding: the first READs arrive during
    // that confirm wait and are deferred (no class is ever enabled, so nothing else is sent unsolicited)
    cfg.unsolicited = r.chance(1, 6);
    // READ requests with as many object headers as the configuration admits (64 unless configured)
    cfg.max_read_headers = if r.chance(1, 4) { Some(*r.pick(&[65u16, 80, 128, 255])) } else { None };
    let many_headers = r.chance(1, 6);
    let header_cap = cfg.max_read_headers.unwrap_or(64) as u64;
    let with_events = r.chance(1, 4);
    // database layout: sparse and dense index sets
    let mut layout: Vec<(usize, u16, u8)> = vec![];
    for t in 0..8 {
        let n = *r.pick(&[0usize, 1, 3, 9, 17, 40]);
        let mut idxs: Vec<u16> = vec![];
        let dense = r.bool();
        let mut next = r.below(4) as u16;
        for _ in 0..n {
            idxs.push(next);
            next += if dense { 1 } else { r.range(1, 6) as u16 };
        }
        if r.chance(1, 10) && !idxs.is_empty() {
            idxs.push(65535);
        }
        for i in idxs {
            layout.push((t, i, *r.pick(svars(t))));
        }
    }
    let layout2 = layout.clone();
    let mut layout = layout;
    // points come and go while a series is under way (one scenario in four)
    let dynamic = r.chance(1, 4);
    let mut sim = OutSim::start_with(cfg.clone(), |db| {
        for (t, i, sv) in &layout2 {
            add(
                db,
                *t,
                *i,
                *sv,
                if with_events {
                    Some(EventClass::Class1)
                } else {
                    None
                },
            );
        }
    })
    .await;
    let mut counter = (idx % 1000) * 100;
    let mut mirror: Mirror = BTreeMap::new();
    for (t, i, sv) in &layout {
        let pv = update(&sim, &mut r, *t, *i, &mut counter, *sv, false);
        mirror.insert((*t, *i), pv);
    }
    settle().await;
    // sequence number of the null unsolicited response that awaits its confirm, if any
    let mut null_unsol: Option<u8> = sim
        .collect()
        .iter()
        .filter_map(|x| x.fragment())
        .filter(|f| f.len() >= 2 && f[1] == ra::F_UNSOL_RESPONSE)
        .map(|f| f[0] & 0x0F)
        .last();
    let _ = sim.mock.take();
    let mut hist: Vec<String> = vec![];
    let viol = |rule: &str, sig: &str, why: String, hist: &Vec<String>| {
        out::violation(
            P,
            &format!("C11.{rule}"),
            sig,
            J::obj(vec![
                ("why", J::s(why)),
                ("config", cfg.to_json()),
                ("history", J::arr(hist.iter().rev().take(24).rev().cloned())),
            ]),
            J::obj(vec![
                ("check", J::s("c11")),
                ("seed", J::U(a.seed)),
                ("shard", J::U(a.shard)),
                ("nshards", J::U(a.nshards)),
                ("scenario", J::U(idx)),
            ]),
        );
    };
    let mut seq = r.below(16) as u8;
    let nreads = r.range(1, 4);
    for _ in 0..nreads {
        if sim.task_finished() {
            break;
        }
        // build the request
        seq = (seq + 1) & 15;
        let mut b = ra::B::request(ra::F_READ, seq);
        let mut hdrs: Vec<Hdr> = vec![];
        if with_events && r.bool() {
            b = b.all(60, 2);
        }
        let many = many_headers && r.chance(2, 3);
        let nh = if many { r.range(header_cap - 8, header_cap - 1) } else { r.range(1, 4) };
        for _ in 0..nh {
            match if many { 1 + r.below(8) } else { r.below(5) } {
                0 => {
                    b = b.all(60, 1);
                    hdrs.push(Hdr::Class0);
                }
                1 => {
                    let t = r.usize_below(8);
                    let v = if r.bool() || t == 7 {
                        0
                    } else {
                        *r.pick(svars(t))
                    };
                    b = b.all(SG[t], v);
                    hdrs.push(Hdr::Typed(t, v, None));
                }
                _ => {
                    let t = r.usize_below(8);
                    let v = if r.bool() || t == 7 {
                        0
                    } else {
                        *r.pick(svars(t))
                    };
                    let lo = r.range(0, 30) as u16;
                    let hi = lo + if many { r.range(0, 2) } else { r.range(0, 40) } as u16;
                    let (lo, hi) = if r.chance(1, 12) {
                        (65530, 65535)
                    } else {
                        (lo, hi)
                    };
                    if hi < 256 && r.bool() {
                        b = b.range8(SG[t], v, lo as u8, hi as u8, &[]);
                    } else {
                        b = b.range16(SG[t], v, lo, hi, &[]);
                    }
                    hdrs.push(Hdr::Typed(t, v, Some((lo, hi))));
                }
            }
        }
        let rd = b.done();
        let snapshot = mirror.clone();
        let mut removed_now: std::collections::BTreeSet<(usize, u16)> = Default::default();
        let mut added_now: std::collections::BTreeSet<(usize, u16)> = Default::default();
        hist.push(format!(
            "t={} -> READ seq={seq} {:?} {}",
            sim.now(),
            hdrs,
            hex(&rd)
        ));
        out::eval(1);
        let rx = if let Some(useq) = null_unsol.take() {
            // deferred: an earlier READ with other headers arrives first and is superseded by this one; the answer comes
            // once the unsolicited confirm wait is over, and it is the answer to the last READ only
            let mut early = vec![];
            if r.chance(2, 3) {
                let decoy = ra::B::request(ra::F_READ, (seq + 15) & 15)
                    .all(60, 1)
                    .all(30, 0)
                    .all(1, 0)
                    .done();
                hist.push(format!("t={} -> earlier READ {} (to be superseded while deferred)", sim.now(), hex(&decoy)));
                early.extend(sim.request(&decoy).await);
                out::count("deferred_read_superseded", 1);
            }
            early.extend(sim.request(&rd).await);
            if early.iter().any(|x| x.fragment().map(|f| f.len() >= 2 && f[1] == ra::F_RESPONSE).unwrap_or(false)) {
                viol(
                    "deferred_read_answered_early",
                    "unsol-wait",
                    "a READ received during the unsolicited confirm wait was answered before the wait ended".into(),
                    &hist,
                );
            }
            hist.push(format!("t={} -> unsolicited CONFIRM seq={useq}", sim.now()));
            out::count("reads_deferred_behind_null_unsolicited", 1);
            sim.request(&ra::B::confirm(useq, true).done()).await
        } else {
            sim.request(&rd).await
        };
        let mut frags: Vec<Vec<u8>> = vec![];
        let mut cur: Option<Vec<u8>> = None;
        for x in &rx {
            if let Some(f) = x.fragment() {
                if cur.is_none() {
                    cur = Some(f.to_vec());
                } else {
                    viol(
                        "series_not_gated",
                        "first",
                        "more than one fragment sent before any confirm".into(),
                        &hist,
                    );
                }
            }
        }
        let mut k = 0usize;
        let mut ended_by: &str = "complete";
        while let Some(f) = cur.take() {
            k += 1;
            let fr = match ra::Fragment::parse(&f) {
                Some(x) => x,
                None => break,
            };
            hist.push(format!(
                "t={} <- frag {k} ctrl={:02x} len={}",
                sim.now(),
                fr.ctrl,
                f.len()
            ));
            // structure
            if fr.seq() != (seq + (k as u8 - 1)) & 15 {
                viol(
                    "series_numbering",
                    "seq",
                    format!("fragment {k} has sequence {} (request {seq})", fr.seq()),
                    &hist,
                );
            }
            if fr.fir() != (k == 1) {
                viol(
                    "series_fir",
                    if k == 1 {
                        "first-without-fir"
                    } else {
                        "later-with-fir"
                    },
                    format!("fragment {k} FIR={}", fr.fir()),
                    &hist,
                );
            }
            if !fr.fin() && !fr.con() {
                viol(
                    "series_con",
                    "nonfinal-without-con",
                    format!("non-final fragment {k} does not request confirmation"),
                    &hist,
                );
            }
            frags.push(f.clone());
            if !fr.con() {
                if !fr.fin() {
                    ended_by = "stalled";
                }
                break;
            }
            // updates while the fragment awaits its confirm must not leak into later fragments
            if r.chance(1, 2) {
                let n = r.range(1, 6);
                for _ in 0..n {
                    let (t, i, sv) = *r.pick(&layout);
                    let pv = update(&sim, &mut r, t, i, &mut counter, sv, with_events);
                    mirror.insert((t, i), pv);
                }
                settle().await;
                if sim.collect().iter().any(|x| x.fragment().is_some()) {
                    viol(
                        "series_not_gated",
                        "update",
                        "fragment sent after an update without a confirm".into(),
                        &hist,
                    );
                }
                out::count("updates_between_fragments", 1);
            }
            // points removed from and added to the database while the fragment awaits its confirm: whether such a point still
            // shows up in the rest of the series is left open, every other point is reported as if nothing had happened
            if dynamic && r.chance(1, 2) {
                for _ in 0..r.range(1, 3) {
                    if r.bool() && layout.len() > 1 {
                        let k = r.usize_below(layout.len());
                        let (t, i, _) = layout.remove(k);
                        let gone = sim.db(|db| remove(db, t, i));
                        if !gone {
                            viol("remove_refused", &format!("t{t}"), format!("removing the existing point type {t} index {i} returned false"), &hist);
                        }
                        mirror.remove(&(t, i));
                        removed_now.insert((t, i));
                        hist.push(format!("t={} (point type {t} index {i} removed)", sim.now()));
                        out::count("points_removed_during_series", 1);
                    } else {
                        let t = r.usize_below(8);
                        let i = r.range(0, 45) as u16;
                        if mirror.contains_key(&(t, i)) {
                            continue;
                        }
                        let sv = *r.pick(svars(t));
                        let class = if with_events { Some(EventClass::Class1) } else { None };
                        sim.db(|db| add(db, t, i, sv, class));
                        let pv = update(&sim, &mut r, t, i, &mut counter, sv, false);
                        mirror.insert((t, i), pv);
                        layout.push((t, i, sv));
                        added_now.insert((t, i));
                        hist.push(format!("t={} (point type {t} index {i} added)", sim.now()));
                        out::count("points_added_during_series", 1);
                    }
                }
                settle().await;
                if sim.collect().iter().any(|x| x.fragment().is_some()) {
                    viol("series_not_gated", "add-remove", "fragment sent after a point was added or removed, without a confirm".into(), &hist);
                }
            }
            let act = r.weighted(&[70, 8, 8, 5, 5, 4]);
            match act {
                0 | 1 => {
                    if act == 1 {
                        // wrong confirm first: nothing may happen
                        let wrong =
                            ra::B::confirm((fr.seq() + r.range(1, 15) as u8) & 15, false).done();
                        let rx = sim.request(&wrong).await;
                        if rx.iter().any(|x| x.fragment().is_some()) {
                            viol(
                                "series_not_gated",
                                "wrong-confirm",
                                "next fragment sent after a confirm with the wrong sequence".into(),
                                &hist,
                            );
                        }
                        out::count("wrong_confirms", 1);
                    }
                    let rx = sim.request(&ra::B::confirm(fr.seq(), false).done()).await;
                    let next: Vec<Vec<u8>> = rx
                        .iter()
                        .filter_map(|x| x.fragment().map(|f| f.to_vec()))
                        .collect();
                    if fr.fin() {
                        if !next.is_empty() {
                            viol(
                                "series_continues",
                                "after-fin",
                                "fragment sent after the confirm of the final fragment".into(),
                                &hist,
                            );
                        }
                        break;
                    }
                    if next.len() != 1 {
                        viol(
                            "series_gating",
                            "after-confirm",
                            format!(
                                "{} fragments after the confirm of non-final fragment {k}",
                                next.len()
                            ),
                            &hist,
                        );
                        ended_by = "stalled";
                        break;
                    }
                    cur = Some(next[0].clone());
                }
                2 => {
                    sim.advance(cfg.confirm_timeout_ms).await;
                    if sim.collect().iter().any(|x| x.fragment().is_some()) {
                        viol(
                            "series_continues",
                            "after-timeout",
                            "fragment sent after the confirm timeout".into(),
                            &hist,
                        );
                    }
                    // a late confirm must not resume it
                    let rx = sim.request(&ra::B::confirm(fr.seq(), false).done()).await;
                    if rx.iter().any(|x| x.fragment().is_some()) {
                        viol(
                            "series_continues",
                            "late-confirm",
                            "fragment sent after a late confirm".into(),
                            &hist,
                        );
                    }
                    ended_by = "timeout";
                    out::count("series_ended_by_timeout", 1);
                    break;
                }
                3 => {
                    sim.reconnect_close().await;
                    ended_by = "reconnect-close";
                    out::count("series_ended_by_reconnect", 1);
                    break;
                }
                4 => {
                    sim.reconnect_preempt().await;
                    ended_by = "reconnect-preempt";
                    out::count("series_ended_by_reconnect", 1);
                    break;
                }
                _ => {
                    ended_by = "new-request";
                    out::count("series_ended_by_new_request", 1);
                    break; // the next READ aborts it
                }
            }
        }
        if frags.is_empty() {
            viol("no_response", "read", "READ got no response".into(), &hist);
            continue;
        }
        if ended_by != "complete" && ended_by != "stalled" {
            hist.push(format!(
                "(series ended by {ended_by} after {k} fragment(s))"
            ));
        }
        // content: concatenation of the static objects of all fragments
        let mut objs: Vec<Meas> = vec![];
        let mut decode_ok = true;
        for f in &frags {
            let fr = ra::Fragment::parse(f).unwrap();
            match ra::decode_response_measurements(&fr.objects) {
                Ok((m, _)) => objs.extend(m.into_iter().filter(|m| !m.is_event)),
                Err(e) => {
                    viol(
                        "undecodable",
                        "fragment",
                        format!("fragment does not decode: {e:?}"),
                        &hist,
                    );
                    decode_ok = false;
                }
            }
        }
        if !decode_ok {
            continue;
        }
        if !removed_now.is_empty() || !added_now.is_empty() {
            let touched = |m: &Meas| -> bool {
                let Some(t) = TYPES.iter().position(|x| *x == m.ptype) else {
                    return false;
                };
                let key = (t, m.index as u16);
                removed_now.contains(&key) || (added_now.contains(&key) && !snapshot.contains_key(&key))
            };
            let before = objs.len();
            objs.retain(|m| !touched(m));
            out::count("objects_of_added_or_removed_points_set_aside", (before - objs.len()) as u64);
            out::count("series_with_points_added_or_removed", 1);
        }
        // expected object list, header by header
        let complete = ended_by == "complete";
        let mut pos = 0usize;
        let mut ok = true;
        'headers: for h in &hdrs {
            let groups: Vec<(usize, u8, Vec<u16>)> = match h {
                Hdr::Class0 => (0..8)
                    .filter(|t| {
                        if *t == 7 {
                            cfg.class_zero_octets
                        } else {
                            cfg.class_zero[*t]
                        }
                    })
                    .map(|t| {
                        (
                            t,
                            0u8,
                            snapshot
                                .keys()
                                .filter(|k| k.0 == t && !removed_now.contains(k))
                                .map(|k| k.1)
                                .collect::<Vec<u16>>(),
                        )
                    })
                    .filter(|g| !g.2.is_empty())
                    .collect(),
                Hdr::Typed(t, v, range) => {
                    let idxs: Vec<u16> = snapshot
                        .keys()
                        .filter(|k| {
                            k.0 == *t
                                && !removed_now.contains(k)
                                && range.map(|(lo, hi)| k.1 >= lo && k.1 <= hi).unwrap_or(true)
                        })
                        .map(|k| k.1)
                        .collect();
                    if idxs.is_empty() {
                        vec![]
                    } else {
                        vec![(*t, *v, idxs)]
                    }
                }
            };
            // class 0: types may come in any order, each as one contiguous ascending run
            let mut remaining = groups;
            while !remaining.is_empty() {
                if pos >= objs.len() {
                    if complete {
                        viol(
                            "incomplete",
                            &format!("{h:?}").chars().take(12).collect::<String>(),
                            format!(
                                "series complete but points of {:?} are missing (got {} objects)",
                                remaining
                                    .iter()
                                    .map(|g| (g.0, g.2.len()))
                                    .collect::<Vec<_>>(),
                                objs.len()
                            ),
                            &hist,
                        );
                        ok = false;
                    }
                    break 'headers;
                }
                let t_here = TYPES.iter().position(|x| *x == objs[pos].ptype);
                let gi = remaining.iter().position(|g| Some(g.0) == t_here);
                let Some(gi) = gi else {
                    viol(
                        "unexpected_object",
                        "type",
                        format!(
                            "object {pos} is {:?}[{}], expected one of types {:?}",
                            objs[pos].ptype,
                            objs[pos].index,
                            remaining.iter().map(|g| g.0).collect::<Vec<_>>()
                        ),
                        &hist,
                    );
                    ok = false;
                    break 'headers;
                };
                let (t, v, idxs) = remaining.remove(gi);
                for want_i in idxs {
                    if pos >= objs.len() {
                        if complete {
                            viol(
                                "incomplete",
                                "points-missing",
                                format!(
                                    "series complete but type {t} index {want_i} was not reported"
                                ),
                                &hist,
                            );
                            ok = false;
                        }
                        break 'headers;
                    }
                    let m = &objs[pos];
                    if TYPES.iter().position(|x| *x == m.ptype) != Some(t)
                        || m.index != want_i as u32
                    {
                        let dup = objs[..pos]
                            .iter()
                            .any(|o| o.ptype == m.ptype && o.index == m.index);
                        viol(
                            if dup {
                                "point_reported_twice"
                            } else {
                                "wrong_point"
                            },
                            &format!("t{t}"),
                            format!(
                                "object {pos} is {:?}[{}], expected type {t} index {want_i}",
                                m.ptype, m.index
                            ),
                            &hist,
                        );
                        ok = false;
                        break 'headers;
                    }
                    let pv = &snapshot[&(t, want_i)];
                    if let Err(e) = agrees(m, pv, t, v) {
                        let leaked = mirror
                            .get(&(t, want_i))
                            .map(|now| now != pv && agrees(m, now, t, v).is_ok())
                            .unwrap_or(false);
                        viol(
                            if leaked {
                                "update_leaked"
                            } else {
                                "wrong_value"
                            },
                            &format!("t{t}|frag>1={}", frags.len() > 1),
                            format!("type {t} index {want_i}: {e}"),
                            &hist,
                        );
                        ok = false;
                        break 'headers;
                    }
                    pos += 1;
                    out::count("objects_checked", 1);
                }
            }
        }
        if ok && complete && pos != objs.len() {
            viol(
                "extra_objects",
                "tail",
                format!(
                    "{} objects beyond what the request selects (e.g. {:?}[{}])",
                    objs.len() - pos,
                    objs[pos].ptype,
                    objs[pos].index
                ),
                &hist,
            );
        } else if ok && complete {
            out::count("complete_series_ok", 1);
            if frags.len() > 1 {
                out::count("multi_fragment_series_ok", 1);
            }
            if many {
                out::count("reads_with_headers_up_to_the_limit_ok", 1);
                if hdrs.len() > 64 {
                    out::count("reads_with_more_than_64_headers_ok", 1);
                }
            }
        } else if ok {
            out::count("partial_series_prefix_ok", 1);
        }
        out::distinct(&format!(
            "frags{}/{}/tx{}/hdrs{}",
            frags.len().min(5),
            ended_by,
            cfg.sol_tx,
            hdrs.len()
        ));
    }
    for p in crate::verif::util::take_panics() {
        viol(
            "panic",
            &crate::verif::util::norm_location(&p.location),
            format!("panic {} at {}", p.message, p.location),
            &hist,
        );
    }
    if a.replay.is_some() {
        for h in &hist {
            eprintln!("HIST {h}");
        }
    }
    if out::sample_count() < 2 {
        out::sample(J::obj(vec![
            ("config", cfg.to_json()),
            ("history", J::arr(hist.iter().cloned())),
        ]));
    }
}

pub fn run(a: &ShardArgs) -> Result<(), String> {
    let only: Option<u64> = a
        .replay
        .as_ref()
        .and_then(|p| super::common::replay_scenario(p));
    let n = a.n(5000);
    for idx in 0..n {
        if idx % a.nshards != a.shard {
            continue;
        }
        if let Some(o) = only {
            if o != idx {
                continue;
            }
        }
        out::progress(&format!("scenario {idx}"));
        run_scenario(scenario(a, idx));
    }
    Ok(())
}
