//! C16 — commands succeed only if truly accepted; every request gets exactly one outcome.
//! Engine E1 (master under test).  Part A: enumerated catalogue of echo mutations.
//! Part B: enumerated failure points of every multi-step task.

use crate::verif::out::{self, J};
use crate::verif::refcodec::app as ra;
use crate::verif::rng::Rng;
use crate::verif::sim::master::*;
use crate::verif::sim::*;
use crate::verif::util::hex;
use crate::verif::ShardArgs;

const P: &str = "C16";
const OUT: u16 = 1024;

/// every single-change mutation of a control echo; returns (label, mutated object bytes)
pub fn echo_mutations(objs: &[u8]) -> Vec<(String, Vec<u8>)> {
    let w = ra::walk(ra::F_RESPONSE, objs, false);
    let mut out: Vec<(String, Vec<u8>)> = vec![];
    if w.error.is_some() {
        return out;
    }
    let hs = &w.headers;
    let enc = |hs: &[ra::Header]| -> Vec<u8> {
        let mut b = ra::B { bytes: vec![] };
        for h in hs {
            if h.qual == ra::Q_PREFIX8 {
                let items: Vec<(u8, Vec<u8>)> = h
                    .objs
                    .iter()
                    .map(|o| (o.index.unwrap_or(0) as u8, o.bytes.clone()))
                    .collect();
                b = b.prefixed8(h.group, h.var, &items);
            } else {
                let items: Vec<(u16, Vec<u8>)> = h
                    .objs
                    .iter()
                    .map(|o| (o.index.unwrap_or(0) as u16, o.bytes.clone()))
                    .collect();
                b = b.prefixed16(h.group, h.var, &items);
            }
        }
        b.bytes
    };
    for (hi, h) in hs.iter().enumerate() {
        for (oi, o) in h.objs.iter().enumerate() {
            // status codes
            // every defined code, the undefined ones next to them, each single bit, and octets with the top bit set
            for st in (1u8..=20).chain([32, 64, 126, 127, 128, 129, 130, 144, 146, 192, 254, 255]) {
                let mut m = hs.clone();
                let n = o.bytes.len();
                m[hi].objs[oi].bytes[n - 1] = st;
                out.push((format!("status{st}/h{hi}o{oi}"), enc(&m)));
            }
            // every bit of every value byte (control code, count, on / off time; analog value)
            for k in 0..o.bytes.len() - 1 {
                for bit in 0..8 {
                    let mut m = hs.clone();
                    m[hi].objs[oi].bytes[k] ^= 1 << bit;
                    out.push((format!("field-byte{k}-bit{bit}/h{hi}o{oi}"), enc(&m)));
                }
            }
            // index
            let mut m = hs.clone();
            m[hi].objs[oi].index = Some(o.index.unwrap_or(0) ^ 1);
            out.push((format!("index/h{hi}o{oi}"), enc(&m)));
            // drop this object
            let mut m = hs.clone();
            m[hi].objs.remove(oi);
            if m[hi].objs.is_empty() {
                m.remove(hi);
            }
            out.push((format!("drop-object/h{hi}o{oi}"), enc(&m)));
            // duplicate this object
            let mut m = hs.clone();
            let dup = m[hi].objs[oi].clone();
            m[hi].objs.insert(oi, dup);
            out.push((format!("extra-object/h{hi}o{oi}"), enc(&m)));
        }
        // swap two objects
        if h.objs.len() >= 2 && h.objs[0] != h.objs[1] {
            let mut m = hs.clone();
            m[hi].objs.swap(0, 1);
            out.push((format!("swap-objects/h{hi}"), enc(&m)));
        }
        // other prefix width
        let mut m = hs.clone();
        m[hi].qual = if h.qual == ra::Q_PREFIX8 {
            ra::Q_PREFIX16
        } else {
            ra::Q_PREFIX8
        };
        if !(m[hi].qual == ra::Q_PREFIX8 && h.objs.iter().any(|o| o.index.unwrap_or(0) > 255)) {
            out.push((format!("prefix-width/h{hi}"), enc(&m)));
        }
        // other variation of the same size family
        let mut m = hs.clone();
        let nv = match (h.group, h.var) {
            (41, 1) => Some(3),
            (41, 3) => Some(1),
            _ => None,
        };
        if let Some(nv) = nv {
            m[hi].var = nv;
            out.push((format!("variation/h{hi}"), enc(&m)));
        }
        // drop the header
        if hs.len() > 1 {
            let mut m = hs.clone();
            m.remove(hi);
            out.push((format!("drop-header/h{hi}"), enc(&m)));
        }
    }
    if hs.len() >= 2 {
        let mut m = hs.clone();
        m.swap(0, 1);
        if enc(&m) != enc(hs) {
            out.push(("swap-headers".into(), enc(&m)));
        }
    }
    out.push(("empty".into(), vec![]));
    let mut t = objs.to_vec();
    t.pop();
    out.push(("truncated".into(), t));
    let mut t = objs.to_vec();
    t.extend_from_slice(&[60, 1, 6]);
    out.push(("extra-header".into(), t));
    out
}

fn command_set(r: &mut Rng) -> Vec<(u8, u16, bool, u32)> {
    // consecutive objects of the same kind/width share a header; a kind change starts a new one
    let nh = r.range(1, 3);
    let mut v = vec![];
    let mut last_kind = 99u8;
    for _ in 0..nh {
        let mut kind = r.below(5) as u8;
        if kind == last_kind {
            kind = (kind + 1) % 5;
        }
        last_kind = kind;
        let wide = r.bool();
        for _ in 0..r.range(1, 3) {
            v.push((
                kind,
                if wide {
                    r.range(0, 60000) as u16
                } else {
                    r.range(0, 250) as u16
                },
                wide,
                // (zero among the values: for the floating-point variations the one value whose echo can differ in a
                // single bit and still compare equal as a number)
                if r.chance(1, 6) { 0 } else { r.u32() % 30000 },
            ));
        }
    }
    v
}

fn viol(a: &ShardArgs, idx: u64, rule: &str, sig: &str, why: String, hist: &[String]) {
    out::violation(
        P,
        &format!("C16.{rule}"),
        sig,
        J::obj(vec![
            ("why", J::s(why)),
            ("history", J::arr(hist.iter().cloned())),
        ]),
        J::obj(vec![
            ("check", J::s("c16")),
            ("seed", J::U(a.seed)),
            ("shard", J::U(a.shard)),
            ("nshards", J::U(a.nshards)),
            ("scenario", J::U(idx)),
        ]),
    );
}

/// Part A: one command set, both modes, the whole mutation catalogue
async fn echo_scenario(a: &ShardArgs, idx: u64) {
    let mut r = a.rng(&format!("c16a/{idx}"));
    let mut mc = MasterCfg::default();
    mc.decode = r.usize_below(108);
    let mut ac = AssocCfg::quiet(OUT);
    ac.response_timeout_ms = 100;
    let mut sim = MasterSim::start(mc, &[ac]).await;
    let _ = sim.collect();
    let cmds = command_set(&mut r);
    let mut hist: Vec<String> = vec![];
    // learn the request bytes with a faithful exchange first
    for sbo in [false, true] {
        // (mutation index, step) ; None = faithful
        let mut catalogue: Vec<Option<(usize, u8)>> = vec![None];
        // discover how many mutations there are from a first faithful run
        let mut n_mut = 0usize;
        let mut ci = 0usize;
        while ci < catalogue.len() {
            let case = catalogue[ci];
            ci += 1;
            if sim.task_finished() {
                return;
            }
            let id = sim.submit(0, UserReq::Command(sbo, cmds.clone()));
            settle().await;
            let reqs = requests(&sim.collect());
            if reqs.len() != 1 {
                viol(
                    a,
                    idx,
                    "harness_no_request",
                    "command",
                    format!("{} requests after submit", reqs.len()),
                    &hist,
                );
                return;
            }
            let rq = reqs[0].3.clone();
            let want_func = if sbo {
                ra::F_SELECT
            } else {
                ra::F_DIRECT_OPERATE
            };
            if rq[1] != want_func {
                viol(
                    a,
                    idx,
                    "wrong_function",
                    if sbo { "sbo" } else { "do" },
                    format!("first request has function {}", rq[1]),
                    &hist,
                );
            }
            let objs = rq[2..].to_vec();
            let muts = echo_mutations(&objs);
            if case.is_none() && n_mut == 0 {
                n_mut = muts.len();
                for mi in 0..n_mut {
                    catalogue.push(Some((mi, 0)));
                    if sbo {
                        catalogue.push(Some((mi, 1)));
                    }
                }
                // IIN2 rejections: each of the three request-error bits on its own, at either step
                for k in 0..3 {
                    catalogue.push(Some((usize::MAX - k, 0)));
                    if sbo {
                        catalogue.push(Some((usize::MAX - k, 1)));
                    }
                }
            }
            hist.clear();
            hist.push(format!(
                "{} {} {}",
                if sbo { "SBO" } else { "DO" },
                hex(&rq),
                format!("{case:?}")
            ));
            out::eval(1);
            let mut seq = rq[0] & 15;
            let mut expect_ok = true;
            let mut label = "faithful".to_string();
            // step 0
            let (body0, iin2_0) = match case {
                Some((mi, 0)) if mi >= usize::MAX - 2 => {
                    expect_ok = false;
                    let bit = [ra::IIN2_PARAM_ERROR, ra::IIN2_OBJECT_UNKNOWN, ra::IIN2_NO_FUNC][usize::MAX - mi];
                    label = format!("iin2-{bit:02x}/step0");
                    (objs.clone(), bit)
                }
                Some((mi, 0)) => {
                    expect_ok = false;
                    label = format!("{}/step0", muts[mi].0);
                    (muts[mi].1.clone(), 0)
                }
                _ => (objs.clone(), 0),
            };
            sim.send_from(
                OUT,
                // (one reply in three asks to be confirmed: that changes nothing about what it says)
                &ra::B::response(ra::FIR | ra::FIN | if r.chance(1, 3) { out::count("echo_replies_asking_for_confirmation", 1); ra::CON } else { 0 } | seq, false, 0, iin2_0)
                    .raw(&body0)
                    .done(),
            );
            settle().await;
            let next = requests(&sim.collect());
            if sbo {
                let operate: Vec<&Vec<u8>> = next
                    .iter()
                    .map(|x| &x.3)
                    .filter(|f| f.len() >= 2 && f[1] == ra::F_OPERATE)
                    .collect();
                if matches!(case, Some((_, 0))) {
                    if !operate.is_empty() {
                        viol(
                            a,
                            idx,
                            "operate_after_bad_select_echo",
                            &label.split('/').next().unwrap_or("").to_string(),
                            format!(
                                "OPERATE sent although the SELECT echo was not faithful ({label})"
                            ),
                            &hist,
                        );
                    } else {
                        out::count("operate_withheld_ok", 1);
                    }
                } else {
                    if operate.len() != 1 {
                        viol(
                            a,
                            idx,
                            "no_operate_after_select",
                            "sbo",
                            format!(
                                "{} OPERATE requests after a faithful SELECT echo",
                                operate.len()
                            ),
                            &hist,
                        );
                    } else {
                        let op = operate[0];
                        if op[0] & 15 != (seq + 1) & 15 {
                            viol(
                                a,
                                idx,
                                "operate_sequence",
                                "sbo",
                                format!("OPERATE sequence {} after SELECT {}", op[0] & 15, seq),
                                &hist,
                            );
                        }
                        if op[2..] != objs[..] {
                            viol(
                                a,
                                idx,
                                "operate_objects_differ",
                                "sbo",
                                "OPERATE objects differ from the SELECT objects".into(),
                                &hist,
                            );
                        } else {
                            out::count("operate_matches_select_ok", 1);
                        }
                        seq = op[0] & 15;
                        // step 1
                        let (body1, iin2_1) = match case {
                            Some((mi, 1)) if mi >= usize::MAX - 2 => {
                                expect_ok = false;
                                let bit = [ra::IIN2_PARAM_ERROR, ra::IIN2_OBJECT_UNKNOWN, ra::IIN2_NO_FUNC][usize::MAX - mi];
                                label = format!("iin2-{bit:02x}/step1");
                                (objs.clone(), bit)
                            }
                            Some((mi, 1)) => {
                                expect_ok = false;
                                label = format!("{}/step1", muts[mi].0);
                                (muts[mi].1.clone(), 0)
                            }
                            _ => (objs.clone(), 0),
                        };
                        sim.send_from(
                            OUT,
                            &ra::B::response(ra::FIR | ra::FIN | if r.chance(1, 3) { ra::CON } else { 0 } | seq, false, 0, iin2_1)
                                .raw(&body1)
                                .done(),
                        );
                        settle().await;
                        let _ = sim.collect();
                    }
                }
            }
            if sim.result_of(id).is_none() {
                sim.advance(105).await;
                let _ = sim.collect();
            }
            let res = sim.result_of(id);
            out::distinct(&format!(
                "A/{}/{}",
                if sbo { "sbo" } else { "do" },
                label
                    .split('/')
                    .map(|x| x.trim_end_matches(char::is_numeric))
                    .collect::<Vec<_>>()
                    .join("/")
            ));
            match res {
                None => viol(
                    a,
                    idx,
                    "no_outcome",
                    "command",
                    "command did not complete".into(),
                    &hist,
                ),
                Some((_, _, _, text)) => {
                    let ok = text.starts_with("Ok");
                    if ok && !expect_ok {
                        viol(a, idx, "success_on_unfaithful_echo", &format!("{}|{}", if sbo { "sbo" } else { "do" }, label.split('/').next().unwrap_or("").trim_end_matches(char::is_numeric)), format!("operate() returned Ok although the reply was not the faithful echo: {label}"), &hist);
                    } else if !ok && expect_ok {
                        viol(
                            a,
                            idx,
                            "failure_on_faithful_echo",
                            if sbo { "sbo" } else { "do" },
                            format!("operate() returned {text} for a faithful echo"),
                            &hist,
                        );
                    } else if ok {
                        out::count("faithful_echo_ok", 1);
                    } else {
                        out::count("mutated_echo_rejected", 1);
                    }
                }
            }
            if sim.results_count(id) > 1 {
                viol(
                    a,
                    idx,
                    "two_outcomes",
                    "command",
                    "a request completed twice".into(),
                    &hist,
                );
            }
        }
        out::count("catalogue_runs", 1);
        out::count("catalogue_mutations", n_mut as u64);
    }
    if out::sample_count() < 2 {
        out::sample(J::obj(vec![
            ("commands", J::s(format!("{cmds:?}"))),
            ("last", J::arr(hist.iter().cloned())),
        ]));
    }
}

/// number of protocol steps of a request and the faithful reply for step k
fn steps_of(req: &UserReq) -> usize {
    match req {
        UserReq::Command(true, _) => 2,
        UserReq::TimeSync(0) | UserReq::TimeSync(1) => 2,
        // open, first block, last block, close (the reader's terminal callback precedes the CLOSE)
        UserReq::ReadFile(_) | UserReq::ReadDirectory => 4,
        // authenticate first
        UserReq::ReadFileAuth(_) => 5,
        _ => 1,
    }
}

/// the step, if any, that follows the request's terminal callback (the CLOSE after a complete file transfer)
fn trailing_step(req: &UserReq) -> Option<usize> {
    match req {
        UserReq::ReadFile(_) | UserReq::ReadDirectory => Some(3),
        UserReq::ReadFileAuth(_) => Some(4),
        _ => None,
    }
}

/// two directory entries as g70v7 descriptors, back to back
fn directory_bytes() -> Vec<u8> {
    let mut all = vec![];
    for (name, size) in [(&b"first.txt"[..], 1234u32), (&b"second"[..], 99)] {
        all.extend_from_slice(&20u16.to_le_bytes());
        all.extend_from_slice(&(name.len() as u16).to_le_bytes());
        all.extend_from_slice(&1u16.to_le_bytes());
        all.extend_from_slice(&size.to_le_bytes());
        all.extend_from_slice(&ra::time48(1_600_000_000_000));
        all.extend_from_slice(&0x1FFu16.to_le_bytes());
        all.extend_from_slice(&0u16.to_le_bytes());
        all.extend_from_slice(name);
    }
    all
}

fn faithful_reply(rq: &[u8], dir: bool) -> Vec<u8> {
    let seq = rq[0] & 15;
    let le32 = |b: &[u8]| u32::from_le_bytes([b[0], b[1], b[2], b[3]]);
    let free = |v: u8, obj: Vec<u8>| {
        let mut b = vec![70, v, 0x5B, 1];
        b.extend_from_slice(&(obj.len() as u16).to_le_bytes());
        b.extend(obj);
        b
    };
    let status = |handle: u32, size: u32, max_block: u16| {
        let mut o = vec![];
        o.extend_from_slice(&handle.to_le_bytes());
        o.extend_from_slice(&size.to_le_bytes());
        o.extend_from_slice(&max_block.to_le_bytes());
        o.extend_from_slice(&0u16.to_le_bytes());
        o.push(0); // success
        o
    };
    let body: Vec<u8> = match rq[1] {
        // file transfer: OPEN, READ of g70v5 blocks (two blocks, the second one is the last), CLOSE, GET_FILE_INFO
        25 => free(4, status(0x0102_0304, 10, 64)),
        26 => free(4, status(0x0102_0304, 0, 0)),
        ra::F_READ if rq.len() >= 16 && rq[2] == 70 && rq[3] == 5 => {
            let handle = le32(&rq[8..12]);
            let block = le32(&rq[12..16]) & 0x7FFF_FFFF;
            let mut o = vec![];
            o.extend_from_slice(&handle.to_le_bytes());
            o.extend_from_slice(
                &(if block >= 1 {
                    block | 0x8000_0000
                } else {
                    block
                })
                .to_le_bytes(),
            );
            if dir {
                // the listing is cut in the middle of the first descriptor
                let all = directory_bytes();
                if block == 0 {
                    o.extend_from_slice(&all[..13]);
                } else {
                    o.extend_from_slice(&all[13..]);
                }
            } else {
                o.extend_from_slice(&[b'a' + block as u8; 5]);
            }
            free(5, o)
        }
        // AUTHENTICATE_FILE: the key is granted
        29 => {
            let mut o = vec![];
            o.extend_from_slice(&12u16.to_le_bytes());
            o.extend_from_slice(&0u16.to_le_bytes());
            o.extend_from_slice(&12u16.to_le_bytes());
            o.extend_from_slice(&0u16.to_le_bytes());
            o.extend_from_slice(&0x0000_0007u32.to_le_bytes());
            free(2, o)
        }
        // WRITE of a file block: g70v6 with the handle and block number of the request
        ra::F_WRITE if rq.len() >= 16 && rq[2] == 70 && rq[3] == 5 => {
            let mut o = vec![];
            o.extend_from_slice(&rq[8..16]);
            o.push(0);
            free(6, o)
        }
        28 => {
            let name = b"file.txt";
            let mut o = vec![];
            o.extend_from_slice(&20u16.to_le_bytes());
            o.extend_from_slice(&(name.len() as u16).to_le_bytes());
            o.extend_from_slice(&1u16.to_le_bytes());
            o.extend_from_slice(&1234u32.to_le_bytes());
            o.extend_from_slice(&ra::time48(1_600_000_000_000));
            o.extend_from_slice(&0x1FFu16.to_le_bytes());
            o.extend_from_slice(&0u16.to_le_bytes());
            o.extend_from_slice(name);
            free(7, o)
        }
        ra::F_READ => {
            ra::B { bytes: vec![] }
                .range8(30, 1, 0, 0, &[1, 5, 0, 0, 0])
                .bytes
        }
        ra::F_SELECT | ra::F_OPERATE | ra::F_DIRECT_OPERATE => rq[2..].to_vec(),
        ra::F_DELAY_MEASURE => ra::B { bytes: vec![] }.count8(52, 2, 1, &[0, 0]).bytes,
        ra::F_COLD_RESTART | ra::F_WARM_RESTART => {
            ra::B { bytes: vec![] }.count8(52, 2, 1, &[10, 0]).bytes
        }
        _ => vec![],
    };
    ra::B::response(ra::FIR | ra::FIN | seq, false, 0, 0)
        .raw(&body)
        .done()
}

#[derive(Clone, Copy, Debug, PartialEq)]
enum Fail {
    None,
    ReplyLost,
    LinkError,
    Disable,
    RemoveAssociation,
    /// the association is removed while the reply is in flight; the reply then arrives
    RemoveAssociationThenReply,
    /// keep the channel busy with unrelated user messages and unsolicited traffic while the reply is lost
    ReplyLostWithChatter,
    /// (file operations) the reply arrives but is not an acceptance: see `spoil_file_reply`
    BadReply(u8),
    /// the master task goes away (its runtime task is cancelled, as at runtime shutdown) with the request outstanding
    MasterGone,
}

const BAD_REPLIES: u8 = 8;

/// turn the faithful reply to a file request into one that does not grant it; None when the mutation
/// does not apply to this reply
fn spoil_file_reply(reply: &[u8], rq: &[u8], m: u8) -> Option<(Vec<u8>, &'static str)> {
    // [ctrl, 0x81, iin1, iin2, 70, v, 0x5B, 1, len, len, object...]
    if reply.len() < 10 || reply[4] != 70 {
        return None;
    }
    let v = reply[5];
    let mut b = reply.to_vec();
    match m {
        0 => {
            match v {
                4 if b.len() > 22 => b[22] = 5,
                6 if b.len() > 18 => b[18] = 16,
                2 if b.len() >= 22 => b[18..22].copy_from_slice(&[0, 0, 0, 0]),
                _ => return None,
            }
            Some((b, "status"))
        }
        1 => {
            b[5] = if v == 4 { 6 } else { 4 };
            Some((b, "variation"))
        }
        2 => {
            b.truncate(b.len() - 2);
            Some((b, "truncated"))
        }
        3 => {
            b.truncate(4);
            // one of the three request-error bits, chosen by the request's sequence number
            b[3] = [0x01u8, 0x02, 0x04][(rq[0] & 0x0F) as usize % 3];
            Some((b, "iin2-no-func"))
        }
        4 => {
            b.truncate(4);
            Some((b, "empty"))
        }
        5 => {
            let body = b[4..].to_vec();
            b.extend(body);
            Some((b, "two-headers"))
        }
        6 => {
            if rq[1] != 26 {
                return None;
            }
            b[10] ^= 1;
            Some((b, "wrong-handle"))
        }
        _ => {
            if v != 5 {
                return None;
            }
            b[14] = b[14].wrapping_add(1);
            Some((b, "wrong-block"))
        }
    }
}

/// Part B: every request kind x every step x every failure
async fn failure_scenario(
    a: &ShardArgs,
    idx: u64,
    req: UserReq,
    kind: &str,
    step: usize,
    fail: Fail,
) {
    let mut r = a.rng(&format!("c16b/{idx}"));
    let mut mc = MasterCfg::default();
    mc.decode = r.usize_below(108);
    let mut ac = AssocCfg::quiet(OUT);
    let t_r = *r.pick(&[100u64, 1000]);
    ac.response_timeout_ms = t_r;
    let mut sim = MasterSim::start(mc, &[ac]).await;
    let _ = sim.collect();
    let mut hist = vec![format!("{kind} step {step} failure {fail:?} timeout {t_r}")];
    let id = sim.submit(0, req.clone());
    settle().await;
    let t_start = sim.now();
    let nsteps = steps_of(&req);
    let dir = matches!(req, UserReq::ReadDirectory);
    let mut last_request: Option<Vec<u8>> = None;
    let mut spoiled: Option<&'static str> = None;
    let mut k = 0usize;
    loop {
        let rx = sim.collect();
        let reqs = requests(&rx);
        let link_req = rx
            .iter()
            .any(|x| matches!(x, Rx::Link { frame, .. } if frame.ctrl & 0x4F == rl_req_status()));
        if sim.result_of(id).is_some()
            && !(trailing_step(&req) == Some(k) && trailing_step(&req) == Some(step))
        {
            break;
        }
        if reqs.is_empty() && !link_req {
            viol(
                a,
                idx,
                "harness_no_request",
                kind,
                format!("no request on the wire at step {k}"),
                &hist,
            );
            return;
        }
        if k == step && fail != Fail::None {
            last_request = reqs.first().map(|x| x.3.clone());
            if let (Fail::BadReply(m), Some(rq)) = (fail, last_request.as_ref()) {
                match spoil_file_reply(&faithful_reply(rq, dir), rq, m) {
                    Some((bytes, what)) => {
                        hist.push(format!(
                            "t={} -> {} ; reply spoiled ({what}): {}",
                            sim.now(),
                            hex(&rq[..rq.len().min(24)]),
                            hex(&bytes[..bytes.len().min(40)])
                        ));
                        spoiled = Some(what);
                        sim.send_from(OUT, &bytes);
                        settle().await;
                    }
                    None => {
                        // the mutation has no meaning for this step's reply
                        return;
                    }
                }
            }
            break;
        }
        // faithful reply
        if link_req {
            sim.send_link(OUT, 0x0B);
        } else {
            let rq = &reqs[0].3;
            hist.push(format!(
                "t={} -> {} ; faithful reply",
                sim.now(),
                hex(&rq[..rq.len().min(24)])
            ));
            sim.send_from(OUT, &faithful_reply(rq, dir));
        }
        settle().await;
        k += 1;
        if k >= nsteps {
            let _ = sim.collect();
            break;
        }
    }
    out::eval(1);
    out::distinct(&format!("B/{kind}/step{step}/{fail:?}"));
    if let Some(what) = spoiled {
        out::count(&format!("file_reply_spoiled_{}", what.replace('-', "_")), 1);
    }
    let t_fail = sim.now();
    let mut bound = t_r + 1;
    match fail {
        Fail::None => {}
        Fail::ReplyLost => {
            sim.advance(t_r).await;
        }
        Fail::BadReply(_) => {
            // a reply that cannot be understood may be ignored until the timeout; one that refuses ends the task at once
            sim.advance(t_r).await;
        }
        Fail::ReplyLostWithChatter => {
            // something happens on the channel more often than the response timeout
            let n = 8;
            for j in 0..n {
                sim.advance(t_r * 6 / 10).await;
                match j % 3 {
                    0 => {
                        let _ = sim
                            .channel
                            .set_decode_level(crate::decode::DecodeLevel::nothing())
                            .await;
                    }
                    1 => {
                        sim.send_from(
                            OUT,
                            &ra::B::response(
                                ra::FIR | ra::FIN | ra::UNS | ra::CON | (j as u8),
                                true,
                                0,
                                0,
                            )
                            .done(),
                        );
                    }
                    _ => {
                        // a stale response
                        sim.send_from(
                            OUT,
                            &ra::B::response(ra::FIR | ra::FIN | 9, false, 0, 0).done(),
                        );
                    }
                }
                settle().await;
                if sim.result_of(id).is_some() {
                    break;
                }
            }
            bound = t_r + 1;
        }
        Fail::LinkError => {
            sim.disconnect().await;
            bound = 1;
        }
        Fail::Disable => {
            let _ = sim.channel.disable().await;
            settle().await;
            bound = 1;
        }
        Fail::MasterGone => {
            sim.join.abort();
            settle().await;
            bound = 1;
        }
        Fail::RemoveAssociationThenReply => {
            let _ = sim
                .channel
                .remove_association(crate::link::EndpointAddress::try_new(OUT).unwrap())
                .await;
            settle().await;
            if let Some(rq) = last_request.as_ref() {
                sim.send_from(OUT, &faithful_reply(rq, dir));
                settle().await;
            }
            sim.advance(t_r).await;
            bound = t_r + 1;
        }
        Fail::RemoveAssociation => {
            let _ = sim
                .channel
                .remove_association(crate::link::EndpointAddress::try_new(OUT).unwrap())
                .await;
            settle().await;
            // the outstanding step still runs to its timeout at worst
            sim.advance(t_r).await;
            bound = t_r + 1;
        }
    }
    let _ = sim.collect();
    let res = sim.result_of(id);
    hist.push(format!(
        "t={} result {:?}",
        sim.now(),
        res.as_ref().map(|x| x.3.clone())
    ));
    match res {
        None => viol(
            a,
            idx,
            "no_outcome",
            &format!("{kind}|step{step}|{fail:?}"),
            format!(
                "request unresolved {} ms after the failure (bound {bound})",
                sim.now() - t_fail
            ),
            &hist,
        ),
        Some((_, t_done, _, text)) => {
            // which outcome each failure produces (evidence)
            out::distinct(&format!(
                "outcome/{kind}/{fail:?}/{}",
                text.chars()
                    .filter(|c| c.is_alphabetic() || *c == '(')
                    .take(48)
                    .collect::<String>()
            ));
            if trailing_step(&req) == Some(step) {
                // the file was delivered completely before the CLOSE went out: whatever happens to the CLOSE, the one
                // terminal callback was `completed`
                if !text.starts_with("Ok") {
                    viol(
                        a,
                        idx,
                        "file_completed_then_failed",
                        kind,
                        format!("all blocks were delivered but the terminal callback is {text}"),
                        &hist,
                    );
                } else {
                    out::count("file_close_failure_after_completion_ok", 1);
                }
            } else if fail == Fail::None {
                if !text.starts_with("Ok") {
                    viol(
                        a,
                        idx,
                        "faithful_exchange_failed",
                        kind,
                        format!("all steps answered faithfully but the result is {text}"),
                        &hist,
                    );
                } else {
                    out::count("faithful_exchange_ok", 1);
                    out::count(&format!("faithful_ok_{}", kind.replace('-', "_")), 1);
                }
            } else {
                if text.starts_with("Ok") {
                    viol(
                        a,
                        idx,
                        "success_despite_failure",
                        &format!("{kind}|{fail:?}"),
                        format!(
                            "request reported {text} although step {step} failed with {fail:?}"
                        ),
                        &hist,
                    );
                }
                if t_done > t_fail + bound {
                    viol(a, idx, "outcome_too_late", &format!("{kind}|{fail:?}"), format!("request resolved {} ms after the failure point (bound {bound} ms): {text}", t_done - t_fail), &hist);
                } else {
                    out::count("failure_reported_in_time", 1);
                    out::count(&format!("failure_reported_{}", kind.replace('-', "_")), 1);
                }
            }
        }
    }
    if sim.results_count(id) > 1 {
        viol(
            a,
            idx,
            "two_outcomes",
            kind,
            "a request completed twice".into(),
            &hist,
        );
    }
    let _ = t_start;
    for p in crate::verif::util::take_panics() {
        viol(
            a,
            idx,
            "panic",
            &crate::verif::util::norm_location(&p.location),
            format!("panic {} at {}", p.message, p.location),
            &hist,
        );
    }
    if a.replay.is_some() {
        for l in crate::verif::trace::tail(60) {
            eprintln!("TRACE {l}");
        }
        for h in &hist {
            eprintln!("HIST {h}");
        }
    }
}

fn rl_req_status() -> u8 {
    crate::verif::refcodec::link::F_REQUEST_LINK_STATUS
}

/// queue full / no connection
async fn queue_scenario(a: &ShardArgs, idx: u64) {
    let mut r = a.rng(&format!("c16q/{idx}"));
    let mc = MasterCfg::default();
    let mut ac = AssocCfg::quiet(OUT);
    ac.response_timeout_ms = 100;
    ac.max_queued = r.range(1, 4) as usize;
    let maxq = ac.max_queued;
    let mut sim = MasterSim::start(mc, &[ac]).await;
    let _ = sim.collect();
    let hist = vec![format!("max_queued {maxq}")];
    // one outstanding + fill the queue + extras
    let mut ids = vec![];
    for _ in 0..(maxq + 3) {
        ids.push(sim.submit(0, UserReq::ReadClasses([true, false, false, false])));
        settle().await;
    }
    out::eval(1);
    // the extras must fail at once
    let immediate: Vec<String> = ids
        .iter()
        .filter_map(|i| sim.result_of(*i))
        .map(|x| x.3)
        .collect();
    if immediate.len() != 2 || !immediate.iter().all(|t| t.contains("TooManyRequests")) {
        viol(a, idx, "queue_full", "extras", format!("with max_queued_user_requests={maxq}, one outstanding and {} more submitted: immediate results {immediate:?}", maxq + 2), &hist);
    } else {
        out::count("queue_full_rejected_ok", 1);
    }
    // nobody answers: each queued request times out in turn
    sim.advance(100 * (maxq as u64 + 2) + 10).await;
    let unresolved = ids.iter().filter(|i| sim.result_of(**i).is_none()).count();
    if unresolved > 0 {
        viol(
            a,
            idx,
            "no_outcome",
            "queued",
            format!("{unresolved} queued requests unresolved after all timeouts"),
            &hist,
        );
    } else {
        out::count("queued_all_resolved_ok", 1);
    }
    // no connection
    sim.disconnect().await;
    let id = sim.submit(0, UserReq::ColdRestart);
    settle().await;
    match sim.result_of(id) {
        Some((_, _, _, t)) if t.contains("NoConnection") => {
            out::count("no_connection_rejected_ok", 1)
        }
        other => viol(
            a,
            idx,
            "no_connection",
            "submit",
            format!("request submitted while disconnected: {other:?}"),
            &hist,
        ),
    }
    out::distinct(&format!("Q/maxq{maxq}"));
    // ---- one request outstanding and several queued behind it when the session ends: every one of them gets its outcome
    let mut ac = AssocCfg::quiet(OUT);
    ac.response_timeout_ms = 100;
    ac.max_queued = r.range(2, 5) as usize;
    let maxq = ac.max_queued;
    let mut sim = MasterSim::start(MasterCfg::default(), &[ac]).await;
    let _ = sim.collect();
    let nreq = r.range(2, maxq as u64 + 1) as usize;
    let mut ids = vec![];
    for k in 0..nreq {
        let rq = match r.below(4) {
            0 => UserReq::ReadClasses([true, false, false, false]),
            1 => UserReq::Command(false, vec![(0, k as u16, false, 1)]),
            2 => UserReq::ColdRestart,
            _ => UserReq::TimeSync(2),
        };
        ids.push(sim.submit(0, rq));
        settle().await;
    }
    let how = match r.below(3) {
        0 => {
            let _ = sim.channel.disable().await;
            "disable"
        }
        1 => {
            sim.disconnect().await;
            "disconnect"
        }
        _ => {
            sim.reconnect().await;
            "reconnect"
        }
    };
    settle().await;
    let hist = vec![format!("max_queued {maxq}, {nreq} requests submitted, then {how}")];
    out::eval(1);
    sim.advance(100 * (nreq as u64 + 2) + 10).await;
    let unresolved = ids.iter().filter(|i| sim.result_of(**i).is_none()).count();
    if unresolved > 0 {
        viol(a, idx, "no_outcome", &format!("queued-at-{how}"), format!("{unresolved} of {nreq} requests (one outstanding, the others queued) have no outcome {} ms after the {how}", 100 * (nreq as u64 + 2) + 10), &hist);
    } else {
        out::count("queued_resolved_after_session_end_ok", 1);
        out::count(&format!("queued_resolved_after_{how}_ok"), 1);
    }
    out::distinct(&format!("Q2/n{nreq}/{how}"));
}

pub fn run(a: &ShardArgs) -> Result<(), String> {
    let only: Option<u64> = a
        .replay
        .as_ref()
        .and_then(|p| super::common::replay_scenario(p));
    // Part A
    let na = a.n(96);
    // Part B: enumeration
    let kinds: Vec<(UserReq, &str)> = vec![
        (UserReq::ReadClasses([true, true, false, false]), "read"),
        (
            UserReq::Command(false, vec![(0, 3, false, 7)]),
            "direct-operate",
        ),
        (
            UserReq::Command(true, vec![(2, 300, true, 9), (2, 301, true, 10)]),
            "select-operate",
        ),
        (UserReq::TimeSync(0), "time-lan"),
        (UserReq::TimeSync(1), "time-nonlan"),
        (UserReq::TimeSync(2), "time-direct"),
        (UserReq::ColdRestart, "cold-restart"),
        (UserReq::WarmRestart, "warm-restart"),
        (UserReq::WriteDeadBands(vec![(1, 5)]), "dead-bands"),
        (UserReq::LinkStatus, "link-status"),
        (UserReq::ReadFile(64), "read-file"),
        (UserReq::GetFileInfo, "get-file-info"),
        (UserReq::ReadFileAuth(64), "read-file-auth"),
        (UserReq::ReadDirectory, "read-directory"),
        (UserReq::FileAuth, "file-auth"),
        (UserReq::FileOpen, "file-open"),
        (UserReq::FileWriteBlock(0, false, 40), "file-write-block"),
        (UserReq::FileWriteBlock(3, true, 7), "file-write-last-block"),
        (UserReq::FileClose, "file-close"),
        (
            UserReq::EmptyResponse(ra::F_RECORD_CURRENT_TIME),
            "empty-response",
        ),
    ];
    let fails = [
        Fail::None,
        Fail::ReplyLost,
        Fail::ReplyLostWithChatter,
        Fail::LinkError,
        Fail::Disable,
        Fail::RemoveAssociation,
        Fail::RemoveAssociationThenReply,
        Fail::MasterGone,
    ];
    let mut b_cases: Vec<(UserReq, &str, usize, Fail)> = vec![];
    for (rq, kind) in &kinds {
        for step in 0..steps_of(rq) {
            if kind.contains("file") || kind.contains("directory") {
                for m in 0..BAD_REPLIES {
                    b_cases.push((rq.clone(), kind, step, Fail::BadReply(m)));
                }
            }
            for f in fails {
                if f == Fail::None && step > 0 {
                    continue;
                }
                b_cases.push((rq.clone(), kind, step, f));
            }
        }
    }
    let reps = a.n(3);
    let nb = b_cases.len() as u64 * reps;
    let nq = a.n(32);
    for idx in 0..(na + nb + nq) {
        if idx % a.nshards != a.shard {
            continue;
        }
        if let Some(o) = only {
            if o != idx {
                continue;
            }
        }
        out::progress(&format!("scenario {idx}"));
        if idx < na {
            run_scenario(echo_scenario(a, idx));
        } else if idx < na + nb {
            let (rq, kind, step, f) = b_cases[((idx - na) % b_cases.len() as u64) as usize].clone();
            run_scenario(failure_scenario(a, idx, rq, kind, step, f));
            out::count("failure_points_enumerated", 1);
        } else {
            run_scenario(queue_scenario(a, idx));
        }
    }
    Ok(())
}
