//! C17 — master start-up and restart handling runs in order and gates unsolicited data.
//! Engine E1 (master under test); rules M1-M4 over the request log in virtual time.

use crate::verif::out::{self, J};
use crate::verif::rec::Item;
use crate::verif::refcodec::app as ra;
use crate::verif::refcodec::link as rl;
use crate::verif::rng::Rng;
use crate::verif::sim::master::*;
use crate::verif::sim::*;
use crate::verif::util::hex;
use crate::verif::ShardArgs;

const P: &str = "C17";
const OUT: u16 = 1024;

#[derive(Clone, Debug, PartialEq)]
enum Kind {
    Disable,
    Integrity,
    Enable,
    ClearRestart,
    TimeSync(u8),
    Poll,
    EventScan,
    LinkStatus,
    Other(u8),
}

fn classify(rq: &[u8]) -> Kind {
    match rq[1] {
        ra::F_DISABLE_UNSOL => Kind::Disable,
        ra::F_ENABLE_UNSOL => Kind::Enable,
        ra::F_READ => {
            // the poll added by the harness reads g30v0 only; everything else is the integrity scan
            if rq[2..] == [30, 0, 6] {
                Kind::Poll
            } else if rq[2..].chunks(3).any(|h| h == [60, 1, 6]) {
                Kind::Integrity
            } else {
                Kind::EventScan
            }
        }
        ra::F_WRITE if rq.len() > 2 && rq[2] == 80 => Kind::ClearRestart,
        ra::F_WRITE => Kind::TimeSync(2),
        ra::F_DELAY_MEASURE => Kind::TimeSync(1),
        ra::F_RECORD_CURRENT_TIME => Kind::TimeSync(0),
        f => Kind::Other(f),
    }
}

#[derive(Clone, Debug)]
struct Req {
    t: u64,
    kind: Kind,
    epoch: u32,
    /// virtual time at which the attempt failed (time-out expiry or bad reply), None if it succeeded
    failed_at: Option<u64>,
}

/// reference model of what the master still owes on this connection (from the property statement)
#[derive(Clone, Debug)]
struct Model {
    cfg_dis: bool,
    cfg_int: bool,
    cfg_ts: bool,
    cfg_en: bool,
    cr: bool,
    dis: bool,
    int: bool,
    ts: bool,
    en: bool,
    /// integrity poll completed since the connection was made / the last restart indication
    gate_done: bool,
    restart_seen: bool,
}

impl Model {
    fn new(ac: &AssocCfg) -> Model {
        let (d, i, e) = (
            ac.disable_unsol.iter().any(|x| *x),
            ac.startup_integrity.iter().any(|x| *x),
            ac.enable_unsol.iter().any(|x| *x),
        );
        Model {
            cfg_dis: d,
            cfg_int: i,
            cfg_ts: ac.auto_time_sync.is_some(),
            cfg_en: e,
            cr: false,
            dis: d,
            int: i,
            ts: false,
            en: e,
            gate_done: false,
            restart_seen: false,
        }
    }
    fn reconnect(&mut self) {
        self.cr = false;
        self.dis = self.cfg_dis;
        self.int = self.cfg_int;
        self.ts = false;
        self.en = self.cfg_en;
        self.gate_done = false;
        self.restart_seen = false;
    }
    /// the step that has to come next, if any
    fn expected(&self) -> Option<&'static str> {
        if self.cr {
            Some("ClearRestart")
        } else if self.dis {
            Some("Disable")
        } else if self.int {
            Some("Integrity")
        } else if self.ts {
            Some("TimeSync")
        } else if self.en {
            Some("Enable")
        } else {
            None
        }
    }
    fn gate_open(&self) -> bool {
        !self.cfg_int || self.gate_done
    }
    /// indications of any accepted response (solicited reply to `kind`, or unsolicited when None)
    fn on_iin(&mut self, kind: Option<&Kind>, iin1: u8, iin2: u8, overflow_rearms: bool) {
        if iin1 & ra::IIN1_RESTART != 0 && !self.cr {
            self.cr = true;
            self.restart_seen = true;
            // the exchange that carried the indication was itself served by the restarted outstation
            if kind != Some(&Kind::Integrity) {
                self.int = self.cfg_int;
                self.gate_done = false;
            }
            if kind != Some(&Kind::Enable) {
                self.en = self.cfg_en;
            }
        }
        if iin1 & ra::IIN1_NEED_TIME != 0 && self.cfg_ts {
            self.ts = true;
        }
        if iin2 & ra::IIN2_OVERFLOW != 0 && overflow_rearms {
            self.int = self.cfg_int;
        }
    }
    fn on_success(&mut self, kind: &Kind, iin1: u8) {
        match kind {
            Kind::Disable => self.dis = false,
            Kind::Integrity => {
                self.int = false;
                self.gate_done = true;
            }
            Kind::Enable => self.en = false,
            Kind::ClearRestart => self.cr = iin1 & ra::IIN1_RESTART != 0,
            Kind::TimeSync(2) => self.ts = false,
            _ => {}
        }
    }
}

fn kind_name(k: &Kind) -> &'static str {
    match k {
        Kind::Disable => "Disable",
        Kind::Integrity => "Integrity",
        Kind::Enable => "Enable",
        Kind::ClearRestart => "ClearRestart",
        Kind::TimeSync(_) => "TimeSync",
        Kind::Poll => "Poll",
        Kind::EventScan => "EventScan",
        Kind::LinkStatus => "LinkStatus",
        Kind::Other(_) => "Other",
    }
}

#[derive(Clone, Copy, Debug, PartialEq)]
enum FailMode {
    Silent,
    BadReply,
    /// the restart bit stays set in the reply to the clear-restart write
    Stubborn,
    /// answered with an IIN2 error bit (function not supported / parameter error)
    Rejected,
    /// the reply to the time WRITE still reports NEED_TIME
    StillNeedsTime,
}

async fn scenario(a: &ShardArgs, idx: u64) {
    let mut r = a.rng(&format!("c17/{idx}"));
    let mut mc = MasterCfg::default();
    mc.decode = r.usize_below(108);
    let mut ac = AssocCfg::quiet(OUT);
    ac.response_timeout_ms = *r.pick(&[100u64, 500]);
    let t_r = ac.response_timeout_ms;
    // any non-empty set of classes (a single class included), or none
    let mut class_set = |r: &mut crate::verif::rng::Rng| -> [bool; 3] {
        let m = r.range(1, 7);
        [m & 1 != 0, m & 2 != 0, m & 4 != 0]
    };
    ac.disable_unsol = if r.chance(3, 4) { class_set(&mut r) } else { [false; 3] };
    ac.enable_unsol = if r.chance(3, 4) { class_set(&mut r) } else { [false; 3] };
    ac.startup_integrity = if r.chance(4, 5) {
        [true, r.bool(), r.bool(), r.bool()]
    } else {
        [false; 4]
    };
    ac.auto_time_sync = *r.pick(&[None, None, Some(0u8), Some(1), Some(2)]);
    ac.retry_min_ms = *r.pick(&[100u64, 1000]);
    ac.retry_max_ms = ac.retry_min_ms * *r.pick(&[1u64, 3, 5, 8, 10]);
    ac.keep_alive_ms = if r.chance(1, 4) {
        Some(*r.pick(&[700u64, 3000]))
    } else {
        None
    };
    ac.integrity_on_overflow = r.bool();
    ac.event_scan = if r.chance(1, 3) { class_set(&mut r) } else { [false; 3] };
    let has_poll = r.chance(1, 2);
    let mut sim = MasterSim::start(mc, &[ac.clone()]).await;
    if has_poll {
        let mut h = sim.assocs[0].1.clone();
        let var = crate::app::Variation::Group30Var0;
        let _ = h
            .add_poll(
                crate::master::ReadRequest::all_objects(var),
                std::time::Duration::from_millis(1000),
            )
            .await;
        settle().await;
    }
    let mut hist: Vec<String> = vec![format!("{ac:?} poll={has_poll}")];
    let mut log: Vec<Req> = vec![];
    let mut model = Model::new(&ac);
    // ---- script
    let first_ts = match ac.auto_time_sync {
        Some(0) => Kind::TimeSync(0),
        Some(1) => Kind::TimeSync(1),
        _ => Kind::TimeSync(2),
    };
    let fail: Option<(Kind, FailMode)> = match r.below(18) {
        14 if ac.auto_time_sync.is_some() => Some((first_ts.clone(), FailMode::BadReply)),
        15 if ac.auto_time_sync.is_some() => Some((Kind::TimeSync(2), FailMode::BadReply)),
        16 if ac.auto_time_sync.is_some() => Some((first_ts.clone(), FailMode::Rejected)),
        17 if ac.auto_time_sync.is_some() => Some((Kind::TimeSync(2), FailMode::StillNeedsTime)),
        10 => Some((Kind::Disable, FailMode::Rejected)),
        11 => Some((Kind::Enable, FailMode::Rejected)),
        12 => Some((Kind::Integrity, FailMode::Rejected)),
        13 => Some((Kind::ClearRestart, FailMode::Rejected)),
        0 => Some((Kind::Disable, FailMode::Silent)),
        1 => Some((Kind::Integrity, FailMode::Silent)),
        2 => Some((Kind::Enable, FailMode::Silent)),
        3 => Some((Kind::ClearRestart, FailMode::Silent)),
        4 => Some((Kind::ClearRestart, FailMode::Stubborn)),
        5 => Some((Kind::Integrity, FailMode::BadReply)),
        6 if ac.auto_time_sync.is_some() => Some((first_ts.clone(), FailMode::Silent)),
        _ => None,
    };
    let mut fail_left: u32 = if fail.is_some() {
        r.range(1, 7) as u32
    } else {
        0
    };
    let fail_total = fail_left;
    let mut restart_bit = r.chance(1, 2) || matches!(fail, Some((Kind::ClearRestart, _))); // the outstation reports IIN1.7 until it is cleared
    let restart_later_at: Option<usize> = if r.chance(1, 3) {
        Some(r.range(2, 8) as usize)
    } else {
        None
    };
    let mut need_time = ac.auto_time_sync.is_some()
        && (r.chance(1, 2) || matches!(fail, Some((Kind::TimeSync(_), _))));
    let need_time_later_at: Option<usize> = if ac.auto_time_sync.is_some() && r.chance(1, 4) {
        Some(r.range(2, 8) as usize)
    } else {
        None
    };
    let overflow_at: Option<usize> = if r.chance(1, 5) {
        Some(r.range(1, 8) as usize)
    } else {
        None
    };
    let class_bits_at: Option<usize> = if r.chance(1, 4) {
        Some(r.range(0, 8) as usize)
    } else {
        None
    };
    let reconnect_at: Option<usize> = if r.chance(1, 4) {
        Some(r.range(1, 6) as usize)
    } else {
        None
    };
    let mut unsol_at: Vec<usize> = vec![];
    for _ in 0..r.below(4) {
        unsol_at.push(r.range(0, 8) as usize);
    }
    let mut unsol_seq = r.below(16) as u8;
    let mut answered_count = 0usize;
    let mut reconnected = false;
    let mut last_activity = 0u64;
    let mut queue: std::collections::VecDeque<(u64, Option<Vec<u8>>, Option<&'static str>, bool)> =
        Default::default();
    let mut unsol_confirms: Vec<u8> = vec![];
    let idle_limit = t_r + ac.retry_max_ms + 1200;
    let mut violations: Vec<(String, String, String)> = vec![];
    let mut pending_fail_check: Option<(usize, u64)> = None; // (index in log of the silent attempt, expiry)
    macro_rules! pull {
        () => {
            for x in sim.collect() {
                match x {
                    Rx::Fragment { t_ms, bytes, .. } => {
                        if bytes.len() == 2 && bytes[1] == ra::F_CONFIRM {
                            if bytes[0] & ra::UNS != 0 {
                                unsol_confirms.push(bytes[0] & 15);
                            }
                        } else {
                            queue.push_back((
                                t_ms,
                                Some(bytes),
                                model.expected(),
                                model.restart_seen,
                            ));
                        }
                    }
                    Rx::Link { t_ms, frame, .. }
                        if frame.ctrl & 0x4F == rl::F_REQUEST_LINK_STATUS =>
                    {
                        queue.push_back((t_ms, None, model.expected(), model.restart_seen))
                    }
                    Rx::Link { .. } => {}
                    Rx::Garbage { why, bytes, .. } => violations.push((
                        "wire".into(),
                        "garbage".into(),
                        format!("master wrote garbage: {why} {}", hex(&bytes)),
                    )),
                }
            }
        };
    }
    macro_rules! inject_unsol {
        ($place:expr) => {{
            let with_data = r.chance(2, 3);
            unsol_seq = (unsol_seq + 1) & 15;
            let body = if with_data { ra::B { bytes: vec![] }.prefixed8(32, 1, &[(2, vec![1, unsol_seq, 0, 0, 0])]).bytes } else { vec![] };
            if r.chance(1, 6) {
                restart_bit = true; // the outstation restarted
            }
            let iin1u = if restart_bit { ra::IIN1_RESTART } else { 0 };
            let iin2u = if r.chance(1, 5) { ra::IIN2_OVERFLOW } else { 0 };
            pull!();
            model.on_iin(None, iin1u, iin2u, ac.integrity_on_overflow);
            let gate_open = model.gate_open();
            let _ = sim.assocs[0].2.take();
            unsol_confirms.clear();
            sim.send_from(OUT, &ra::B::response(ra::FIR | ra::FIN | ra::UNS | ra::CON | unsol_seq, true, iin1u, iin2u).raw(&body).done());
            settle().await;
            pull!();
            let confirmed = unsol_confirms.contains(&unsol_seq);
            let delivered = sim.assocs[0].2.take().iter().filter(|i| matches!(i, Item::M(_))).count();
            hist.push(format!("t={} <- unsolicited ({}) seq={unsol_seq} iin={iin1u:02x}{iin2u:02x} data={with_data} gate_open={gate_open} -> confirmed={confirmed} delivered={delivered}", sim.now(), $place));
            out::count(&format!("unsolicited_{}", $place), 1);
            if with_data && !gate_open {
                if confirmed || delivered > 0 {
                    violations.push(("M3_gated_unsolicited".into(), if confirmed { "confirmed" } else { "delivered" }.into(), format!("data-bearing unsolicited response before the integrity poll completed: confirmed={confirmed} delivered={delivered}")));
                } else {
                    out::count("M3_gated_ok", 1);
                    if model.restart_seen {
                        out::count("M3_gated_after_restart_ok", 1);
                    }
                }
            } else if !with_data {
                if !confirmed {
                    violations.push(("M3_null_not_confirmed".into(), "null".into(), "empty unsolicited response not confirmed".into()));
                } else {
                    out::count("M3_null_confirmed_ok", 1);
                }
            } else if !confirmed || delivered == 0 {
                violations.push(("M3_open_gate".into(), "not-delivered".into(), format!("unsolicited data after the integrity poll: confirmed={confirmed} delivered={delivered}")));
            } else {
                out::count("M3_delivered_after_integrity_ok", 1);
            }
        }};
    }
    let mut finished = false;
    while log.len() < 70 {
        pull!();
        if model.expected().is_none() && answered_count >= 13 && fail_left == 0 && queue.is_empty()
        {
            finished = true;
            break;
        }
        let Some((t, frag, expected, after_restart)) = queue.pop_front() else {
            if sim.now() - last_activity > idle_limit || sim.now() > 120_000 {
                break;
            }
            sim.advance(5).await;
            continue;
        };
        last_activity = t;
        let kind = match &frag {
            None => Kind::LinkStatus,
            Some(rq) => classify(rq),
        };
        // ---- the ordering rule: while a start-up / restart step is owed, the next request is that step
        if let Some(exp) = expected {
            let cont = matches!(kind, Kind::TimeSync(_))
                && matches!(log.last().map(|l| &l.kind), Some(Kind::TimeSync(_)));
            if kind_name(&kind) != exp && !cont {
                let rule = if after_restart {
                    "M2_restart_sequence"
                } else {
                    "M1_order"
                };
                violations.push((rule.into(), format!("{}-while-{}-owed", kind_name(&kind), exp), format!("t={t}: master sent {kind:?} while the next owed step is {exp} (model {model:?})")));
            } else {
                out::count(
                    if after_restart {
                        "M2_step_in_order_ok"
                    } else {
                        "M1_step_in_order_ok"
                    },
                    1,
                );
            }
        } else if matches!(kind, Kind::Poll | Kind::LinkStatus | Kind::EventScan) {
            out::count("poll_after_startup_ok", 1);
        } else {
            violations.push(("M1_unexpected_request".into(), kind_name(&kind).into(), format!("t={t}: master sent {kind:?} although no start-up step is owed (model {model:?})")));
        }
        let Some(rq) = frag else {
            log.push(Req {
                t,
                kind: Kind::LinkStatus,
                epoch: sim.epoch,
                failed_at: None,
            });
            hist.push(format!("t={t} -> LINK STATUS REQUEST"));
            sim.send_link(OUT, rl::F_LINK_STATUS);
            settle().await;
            continue;
        };
        let seq = rq[0] & 15;
        if let Some((fk, mode)) = &fail {
            if *fk == kind && fail_left > 0 && *mode == FailMode::Silent {
                fail_left -= 1;
                log.push(Req {
                    t,
                    kind: kind.clone(),
                    epoch: sim.epoch,
                    failed_at: Some(t + t_r),
                });
                hist.push(format!("t={t} -> {kind:?} seq={seq} (not answered)"));
                match r.below(5) {
                    0 => inject_unsol!("awaiting_reply"),
                    1 => {
                        // into the back-off period, unless something else is sent first
                        let until = sim.now() + t_r + ac.retry_min_ms / 2;
                        while sim.now() < until && queue.is_empty() {
                            sim.advance(5).await;
                            pull!();
                        }
                        if queue.is_empty() {
                            inject_unsol!("back_off");
                        }
                    }
                    2 => {
                        inject_unsol!("awaiting_reply");
                        inject_unsol!("awaiting_reply");
                    }
                    _ => {}
                }
                continue;
            }
        }
        if restart_later_at == Some(answered_count) {
            restart_bit = true;
        }
        if need_time_later_at == Some(answered_count) {
            need_time = true;
        }
        let mut failing_reply = false;
        if kind == Kind::ClearRestart {
            if matches!(fail, Some((Kind::ClearRestart, FailMode::Stubborn))) && fail_left > 0 {
                fail_left -= 1;
                failing_reply = true;
            } else {
                restart_bit = false;
            }
        }
        let write_fails = matches!(kind, Kind::TimeSync(2))
            && fail_left > 0
            && matches!(&fail, Some((Kind::TimeSync(2), _)));
        if matches!(kind, Kind::TimeSync(2)) && !write_fails {
            need_time = false;
        }
        if write_fails && matches!(&fail, Some((_, FailMode::StillNeedsTime))) {
            fail_left -= 1;
            failing_reply = true;
            need_time = true;
        }
        let class_bits = if class_bits_at
            .map(|p| answered_count >= p && answered_count < p + 2)
            .unwrap_or(false)
        {
            ra::IIN1_CLASS1
        } else {
            0
        };
        let iin1 = (if restart_bit { ra::IIN1_RESTART } else { 0 })
            | (if need_time { ra::IIN1_NEED_TIME } else { 0 })
            | class_bits;
        let iin2 = if overflow_at == Some(answered_count) {
            ra::IIN2_OVERFLOW
        } else {
            0
        };
        let mut body: Vec<u8> = match kind {
            Kind::Integrity | Kind::Poll | Kind::EventScan => {
                ra::B { bytes: vec![] }
                    .range8(30, 1, 0, 0, &[1, 9, 0, 0, 0])
                    .bytes
            }
            Kind::TimeSync(1) => ra::B { bytes: vec![] }.count8(52, 2, 1, &[0, 0]).bytes,
            _ => vec![],
        };
        if let Some((fk, FailMode::BadReply)) = &fail {
            if *fk == kind && fail_left > 0 {
                fail_left -= 1;
                failing_reply = true;
                body = match kind {
                    // a delay measurement is one g52v2 object, no more and no less, and not longer than the round trip
                    Kind::TimeSync(1) => match r.below(6) {
                        0 => ra::B { bytes: vec![] }.count8(52, 1, 1, &[0, 0]).bytes,
                        1 => ra::B { bytes: vec![] }.count8(52, 2, 2, &[0, 0, 0, 0]).bytes,
                        2 => vec![],
                        3 => ra::B { bytes: vec![] }.count8(52, 2, 1, &[0, 0]).count8(52, 2, 1, &[0, 0]).bytes,
                        4 => ra::B { bytes: vec![] }.count8(52, 2, 1, &[0x60, 0xEA]).bytes,
                        _ => vec![52, 2, 7],
                    },
                    // the other steps are answered without objects
                    Kind::TimeSync(_) => match r.below(3) {
                        0 => ra::B { bytes: vec![] }.count8(52, 2, 1, &[0, 0]).bytes,
                        1 => ra::B { bytes: vec![] }.range8(30, 1, 0, 0, &[1, 9, 0, 0, 0]).bytes,
                        _ => vec![50, 1, 7],
                    },
                    _ => vec![30, 1, 0, 0], // range header without its stop octet
                };
                out::count(&format!("bad_reply_to_{}", kind_name(&kind)), 1);
            }
        }
        let mut iin2 = iin2;
        let mut rejected = false;
        if let Some((fk, FailMode::Rejected)) = &fail {
            if *fk == kind && fail_left > 0 {
                fail_left -= 1;
                rejected = true;
                iin2 |= *r.pick(&[
                    ra::IIN2_NO_FUNC,
                    ra::IIN2_PARAM_ERROR,
                    ra::IIN2_OBJECT_UNKNOWN,
                ]);
                body = vec![];
                // a rejected READ is a failed integrity poll (retried with back-off); a rejected DISABLE / ENABLE / clear-restart
                // is a final answer for this library (it warns and moves on) - the property constrains the delays of retries, not their existence
                failing_reply = kind == Kind::Integrity || matches!(kind, Kind::TimeSync(_));
                if kind == Kind::ClearRestart {
                    // the write was refused: the bit is still set
                    restart_bit = true;
                }
            }
        }
        let iin1 = (if restart_bit { ra::IIN1_RESTART } else { 0 }) | (iin1 & !ra::IIN1_RESTART);
        let now = sim.now();
        sim.send_from(
            OUT,
            &ra::B::response(ra::FIR | ra::FIN | seq, false, iin1, iin2)
                .raw(&body)
                .done(),
        );
        if rejected {
            out::count("rejected_by_iin2_replies", 1);
        }
        hist.push(format!(
            "t={t} -> {kind:?} seq={seq} ; t={now} reply iin={iin1:02x}{iin2:02x}{}",
            if failing_reply {
                " (failing reply)"
            } else {
                ""
            }
        ));
        log.push(Req {
            t,
            kind: kind.clone(),
            epoch: sim.epoch,
            failed_at: if failing_reply { Some(now) } else { None },
        });
        answered_count += 1;
        model.on_iin(Some(&kind), iin1, iin2, ac.integrity_on_overflow);
        if !failing_reply || kind == Kind::ClearRestart {
            model.on_success(&kind, iin1);
        }
        settle().await;
        // ---- unsolicited injection after this exchange
        for _ in 0..unsol_at.iter().filter(|p| **p == answered_count).count() {
            inject_unsol!("idle");
        }
        if Some(answered_count) == reconnect_at && !reconnected {
            reconnected = true;
            pull!();
            queue.clear();
            hist.push(format!("t={} reconnect", sim.now()));
            sim.reconnect().await;
            model.reconnect();
            last_activity = sim.now();
        }
    }
    let _ = pending_fail_check.take();
    // ---- completeness: after a long quiet period nothing may be owed
    if (finished || log.len() < 70) && fail_left == 0 {
        if let Some(exp) = model.expected() {
            violations.push(("M1_missing_step".into(), exp.into(), format!("no request for {idle_limit} ms but the step {exp} is still owed (model {model:?})")));
        } else {
            out::count("M1_full_startup_seen", 1);
        }
    }
    // ---- M4: back-off of the scripted failing task: d_1 = min, d_{k+1} = min(2 d_k, max), next attempt exactly d_k after the failure
    if let Some((fk, mode)) = &fail {
        let mut epochs: Vec<u32> = log.iter().map(|x| x.epoch).collect();
        epochs.dedup();
        // a failed step of a time synchronisation is retried from the first step of the procedure
        let rk = if matches!(fk, Kind::TimeSync(_)) { first_ts.clone() } else { fk.clone() };
        for ep in epochs {
            let entries: Vec<usize> = log
                .iter()
                .enumerate()
                .filter(|(_, x)| x.epoch == ep)
                .map(|(i, _)| i)
                .collect();
            let mut d = ac.retry_min_ms;
            for (pos, &i) in entries.iter().enumerate() {
                let x = &log[i];
                if x.kind != *fk {
                    continue;
                }
                let Some(fa) = x.failed_at else {
                    d = ac.retry_min_ms;
                    continue;
                };
                let Some(&j) = entries[pos + 1..].iter().find(|j| log[**j].kind == rk) else {
                    continue;
                };
                let y = &log[j];
                let clean = j == i + 1;
                let want = fa + d;
                if y.t < want {
                    violations.push(("M4_backoff".into(), "early".into(), format!("{fk:?} ({mode:?}): retry at t={} but the previous attempt failed at t={fa} and the delay is {d} (min {} max {})", y.t, ac.retry_min_ms, ac.retry_max_ms)));
                } else if clean && y.t > want {
                    violations.push(("M4_backoff".into(), "late".into(), format!("{fk:?} ({mode:?}): retry at t={} but the previous attempt failed at t={fa} and the delay is {d} (min {} max {})", y.t, ac.retry_min_ms, ac.retry_max_ms)));
                } else if clean {
                    out::count("M4_backoff_ok", 1);
                    out::count(&format!("M4_backoff_ok_{mode:?}"), 1);
                    if matches!(fk, Kind::TimeSync(_)) {
                        out::count(&format!("M4_backoff_ok_time_sync_{mode:?}"), 1);
                    }
                    if d == ac.retry_max_ms && ac.retry_max_ms > ac.retry_min_ms {
                        out::count("M4_backoff_at_max_ok", 1);
                    }
                }
                d = (d * 2).min(ac.retry_max_ms);
            }
        }
    }
    out::eval(1);
    out::count("requests_observed", log.len() as u64);
    for (rule, sig, why) in &violations {
        out::violation(
            P,
            &format!("C17.{rule}"),
            sig,
            J::obj(vec![
                ("why", J::s(why.clone())),
                ("history", J::arr(hist.iter().cloned())),
            ]),
            J::obj(vec![
                ("check", J::s("c17")),
                ("seed", J::U(a.seed)),
                ("shard", J::U(a.shard)),
                ("nshards", J::U(a.nshards)),
                ("scenario", J::U(idx)),
            ]),
        );
    }
    out::distinct(&format!(
        "dis{}int{}en{}ts{:?}/fail{:?}x{}/restart{:?}/recon{:?}/poll{}",
        model.cfg_dis as u8,
        model.cfg_int as u8,
        model.cfg_en as u8,
        ac.auto_time_sync,
        fail,
        fail_total.min(3),
        restart_later_at.map(|x| x.min(3)),
        reconnect_at.map(|x| x.min(3)),
        has_poll
    ));
    for p in crate::verif::util::take_panics() {
        out::violation(
            P,
            "C17.panic",
            &crate::verif::util::norm_location(&p.location),
            J::obj(vec![
                (
                    "why",
                    J::s(format!("panic {} at {}", p.message, p.location)),
                ),
                ("history", J::arr(hist.iter().cloned())),
            ]),
            J::obj(vec![
                ("check", J::s("c17")),
                ("seed", J::U(a.seed)),
                ("shard", J::U(a.shard)),
                ("nshards", J::U(a.nshards)),
                ("scenario", J::U(idx)),
            ]),
        );
    }
    if a.replay.is_some() {
        for h in &hist {
            eprintln!("HIST {h}");
        }
    }
    if out::sample_count() < 2 {
        out::sample(J::obj(vec![("history", J::arr(hist.iter().cloned()))]));
    }
}

pub fn run(a: &ShardArgs) -> Result<(), String> {
    let only: Option<u64> = a
        .replay
        .as_ref()
        .and_then(|p| super::common::replay_scenario(p));
    let n = a.n(16000);
    for idx in 0..n {
        if idx % a.nshards != a.shard {
            continue;
        }
        if let Some(o) = only {
            if o != idx {
                continue;
            }
        }
        out::progress(&format!("scenario {idx}"));
        run_scenario(scenario(a, idx));
    }
    Ok(())
}
