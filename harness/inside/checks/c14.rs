//! C14 — unsolicited reporting obeys the start-up, enable, retry and deferral rules.
//! Engine E1; temporal rules U1-U8 over a virtual-time-stamped wire log.

use crate::app::measurement::*;
use crate::outstation::database::*;
use crate::verif::out::{self, J};
use crate::verif::refcodec::app as ra;
use crate::verif::rng::Rng;
use crate::verif::sim::outstation::*;
use crate::verif::sim::*;
use crate::verif::util::hex;
use crate::verif::ShardArgs;

const P: &str = "C14";

#[derive(Clone, Debug)]
struct Tx {
    ord: u64,
    t: u64,
    seq: u8,
    null: bool,
    bytes: Vec<u8>,
    /// event classes of the objects carried (from the harness' point table)
    classes: Vec<u8>,
    epoch: u32,
}

#[derive(Clone, Debug, PartialEq)]
enum MK {
    /// harness sent the unsolicited confirm for seq
    Confirm(u8),
    Disable([bool; 3]),
    Enable([bool; 3]),
    Reconnect,
    /// sequence, number of static objects the request selects
    Read(u8, usize),
    OtherRequest(u8),
    Update(u8),
}

#[derive(Clone, Debug, PartialEq)]
struct Mark {
    ord: u64,
    t: u64,
    k: MK,
}

fn out_i_is_some(txs: &[Tx], o: u64) -> bool {
    txs.iter().any(|x| x.ord < o)
}

async fn scenario(a: &ShardArgs, idx: u64) {
    let mut r = a.rng(&format!("c14/{idx}"));
    let mut cfg = OutCfg::default();
    cfg.unsolicited = true;
    cfg.confirm_timeout_ms = *r.pick(&[50u64, 100, 1000]);
    // (the library's validated time-outs stop at one hour; this delay is a plain duration and may be longer)
    cfg.max_unsol_retries = *r.pick(&[None, Some(0usize), Some(1), Some(3)]);
    cfg.unsol_retry_delay_ms = if cfg.max_unsol_retries.is_some() && r.chance(1, 4) {
        // hours: only with a finite number of retries (an endless series would be retransmitted all the way through)
        *r.pick(&[3_600_000u64, 3_600_001, 7_200_000, 86_400_000])
    } else {
        *r.pick(&[0u64, 30, 500, 5000])
    };
    // READ requests with up to this many object headers are served in full, deferred or not
    cfg.max_read_headers = if r.chance(1, 3) { Some(*r.pick(&[65u16, 80, 128])) } else { None };
    let header_cap = cfg.max_read_headers.unwrap_or(64) as u64;
    cfg.decode = r.usize_below(108);
    cfg.unsol_tx = *r.pick(&[249usize, 2048]);
    cfg.discard = r.bool();
    let t_c = cfg.confirm_timeout_ms;
    let d_r = cfg.unsol_retry_delay_ms;
    // points: analog index i has class (i % 3) + 1
    let mut sim = OutSim::start_with(cfg.clone(), |db| {
        for i in 0..9u16 {
            let c = [EventClass::Class1, EventClass::Class2, EventClass::Class3][(i % 3) as usize];
            db.add(
                i,
                Some(c),
                AnalogInputConfig::new(
                    StaticAnalogInputVariation::Group30Var1,
                    EventAnalogInputVariation::Group32Var3,
                    0.0,
                ),
            );
        }
    })
    .await;
    let mut txs: Vec<Tx> = vec![];
    let mut marks: Vec<Mark> = vec![];
    let mut hist: Vec<String> = vec![];
    let mut seq: u8 = r.below(16) as u8;
    let mut vcount = 0u64;
    let mut sol_log: Vec<(u64, u64, u8, usize)> = vec![]; // ord, t, seq, static objects carried
    let mut sol_con: Vec<(u64, u64)> = vec![]; // ord, t of solicited responses that request confirmation

    // collect helper (inline closure cannot borrow sim mutably together with others; use a macro)
    macro_rules! collect {
        () => {{
            for x in sim.collect() {
                if let Rx::Fragment {
                    ord, t_ms, bytes, ..
                } = x
                {
                    if bytes.len() >= 4 && bytes[1] == ra::F_UNSOL_RESPONSE {
                        let mut classes = vec![];
                        if let Ok((ms, _)) = ra::decode_response_measurements(&bytes[4..]) {
                            for m in ms {
                                classes.push((m.index % 3) as u8 + 1);
                            }
                        }
                        hist.push(format!(
                            "t={t_ms} <- unsol seq={} {} classes={classes:?}",
                            bytes[0] & 15,
                            if bytes.len() == 4 { "null" } else { "data" }
                        ));
                        txs.push(Tx {
                            ord,
                            t: t_ms,
                            seq: bytes[0] & 15,
                            null: bytes.len() == 4,
                            bytes,
                            classes,
                            epoch: sim.epoch,
                        });
                    } else if bytes.len() >= 4 {
                        hist.push(format!(
                            "t={t_ms} <- sol seq={} iin={:02x}{:02x}",
                            bytes[0] & 15,
                            bytes[2],
                            bytes[3]
                        ));
                        let nstatic = ra::decode_response_measurements(&bytes[4..])
                            .map(|(m, _)| m.iter().filter(|x| !x.is_event).count())
                            .unwrap_or(999);
                        sol_log.push((ord, t_ms, bytes[0] & 15, nstatic));
                        if bytes[0] & ra::CON != 0 {
                            sol_con.push((ord, t_ms));
                        }
                    }
                }
            }
        }};
    }
    collect!();
    let steps = r.range(4, 22);
    for _ in 0..steps {
        if sim.task_finished() {
            break;
        }
        let now = sim.now();
        match r.weighted(&[26, 14, 6, 10, 8, 6, 10, 8, 4, 4]) {
            0 => {
                // advance exactly to the next interesting instant or by a small amount
                let dt = match r.below(5) {
                    0 => t_c,
                    1 => t_c.saturating_sub(1).max(1),
                    2 => 1,
                    3 => {
                        if d_r > 10_000 {
                            // hours go by only while nothing is being retransmitted: after a data series has used up its retries
                            let failed = match (txs.last(), cfg.max_unsol_retries) {
                                (Some(l), Some(m)) if !l.null => {
                                    let n = txs
                                        .iter()
                                        .rev()
                                        .take_while(|x| x.seq == l.seq && !x.null)
                                        .count();
                                    n >= m + 1 && now >= l.t + t_c
                                }
                                _ => false,
                            };
                            if failed {
                                out::count("long_retry_delay_waited", 1);
                                d_r
                            } else {
                                5000
                            }
                        } else {
                            d_r.max(1)
                        }
                    }
                    _ => r.range(1, t_c * 2),
                };
                sim.advance(dt).await;
                hist.push(format!("t={} (advanced {dt})", sim.now()));
            }
            1 => {
                // confirm the most recent unsolicited response (right)
                if let Some(last) = txs.last() {
                    let s = last.seq;
                    hist.push(format!("t={now} -> unsol CONFIRM seq={s}"));
                    marks.push(Mark {
                        ord: crate::verif::io::bump(),
                        t: now,
                        k: MK::Confirm(s),
                    });
                    sim.send(&ra::B::confirm(s, true).done());
                    settle().await;
                }
            }
            2 => {
                // wrong confirms
                if let Some(last) = txs.last() {
                    let c = if r.bool() {
                        ra::B::confirm((last.seq + r.range(1, 15) as u8) & 15, true).done()
                    } else {
                        ra::B::confirm(last.seq, false).done()
                    };
                    hist.push(format!("t={now} -> wrong CONFIRM {}", hex(&c)));
                    sim.send(&c);
                    settle().await;
                }
            }
            3 => {
                // update: new event
                let i = r.below(9) as u16;
                vcount += 1;
                let v = vcount as f64;
                marks.push(Mark {
                    ord: crate::verif::io::bump(),
                    t: now,
                    k: MK::Update((i % 3) as u8 + 1),
                });
                sim.db(|db| {
                    db.update(
                        i,
                        &AnalogInput::new(v, Flags::ONLINE, Time::synchronized(1000 + vcount)),
                        UpdateOptions::detect_event(),
                    )
                });
                hist.push(format!("t={now} update index {i} (class {})", i % 3 + 1));
                settle().await;
            }
            4 | 5 => {
                let enable = r.chance(3, 4);
                seq = (seq + 1) & 15;
                let mut set = [false; 3];
                let mut b = ra::B::request(
                    if enable {
                        ra::F_ENABLE_UNSOL
                    } else {
                        ra::F_DISABLE_UNSOL
                    },
                    seq,
                );
                for k in 0..3 {
                    if r.bool() {
                        set[k] = true;
                        b = b.all(60, k as u8 + 2);
                    }
                }
                hist.push(format!(
                    "t={now} -> {} {set:?} seq={seq}",
                    if enable { "ENABLE" } else { "DISABLE" }
                ));
                let o = crate::verif::io::bump();
                marks.push(Mark {
                    ord: o,
                    t: now,
                    k: if enable {
                        MK::Enable(set)
                    } else {
                        MK::Disable(set)
                    },
                });
                marks.push(Mark {
                    ord: o,
                    t: now,
                    k: MK::OtherRequest(seq),
                });
                sim.send(&b.done());
                settle().await;
            }
            6 => {
                seq = (seq + 1) & 15;
                let (rq, nstat, what) = match r.below(4) {
                    3 => {
                        // as many one-point headers as the configuration admits (or a few less)
                        let n = r.range(header_cap - 5, header_cap) as usize;
                        let mut b = ra::B::request(ra::F_READ, seq);
                        for k in 0..n {
                            let i = ((k * 4) % 9) as u8;
                            b = b.range8(30, 0, i, i, &[]);
                        }
                        out::count("U7_reads_with_headers_up_to_the_limit", 1);
                        (b.done(), n, "g30v0 one point per header, many headers")
                    }
                    0 => (
                        ra::B::request(ra::F_READ, seq).all(60, 1).done(),
                        9usize,
                        "class 0",
                    ),
                    1 => (
                        ra::B::request(ra::F_READ, seq)
                            .range8(30, 0, 0, 1, &[])
                            .done(),
                        2,
                        "g30v0 [0,1]",
                    ),
                    _ => (
                        ra::B::request(ra::F_READ, seq).all(60, 2).done(),
                        0,
                        "class 1",
                    ),
                };
                hist.push(format!("t={now} -> READ {what} seq={seq}"));
                marks.push(Mark {
                    ord: crate::verif::io::bump(),
                    t: now,
                    k: MK::Read(seq, nstat),
                });
                sim.send(&rq);
                settle().await;
            }
            7 => {
                seq = (seq + 1) & 15;
                hist.push(format!("t={now} -> DELAY_MEASURE seq={seq}"));
                marks.push(Mark {
                    ord: crate::verif::io::bump(),
                    t: now,
                    k: MK::OtherRequest(seq),
                });
                sim.send(&ra::B::request(ra::F_DELAY_MEASURE, seq).done());
                settle().await;
            }
            8 => {
                hist.push(format!("t={now} reconnect close"));
                collect!();
                marks.push(Mark {
                    ord: crate::verif::io::bump(),
                    t: now,
                    k: MK::Reconnect,
                });
                sim.reconnect_close().await;
            }
            _ => {
                hist.push(format!("t={now} reconnect preempt"));
                collect!();
                marks.push(Mark {
                    ord: crate::verif::io::bump(),
                    t: now,
                    k: MK::Reconnect,
                });
                sim.reconnect_preempt().await;
            }
        }
        collect!();
    }
    // let everything outstanding play out
    sim.advance(t_c * 2 + 5).await;
    collect!();

    // ------------------------------------------------------------------ rules
    // all before/after relations use the global order stamps, not the (coarser) virtual time
    let viol = |rule: &str, sig: &str, why: String| {
        out::violation(
            P,
            &format!("C14.{rule}"),
            sig,
            J::obj(vec![
                ("why", J::s(why)),
                ("config", cfg.to_json()),
                ("history", J::arr(hist.iter().cloned())),
            ]),
            J::obj(vec![
                ("check", J::s("c14")),
                ("seed", J::U(a.seed)),
                ("shard", J::U(a.shard)),
                ("nshards", J::U(a.nshards)),
                ("scenario", J::U(idx)),
            ]),
        );
    };
    out::eval(1);
    // a request takes effect when it is PROCESSED, which can be later than when it was sent (a request that
    // aborts a solicited confirm wait is retained and handled after the unsolicited check): use the order
    // stamp of its response as the effective one for ENABLE/DISABLE
    let mut marks = marks;
    for i in 0..marks.len() {
        if matches!(marks[i].k, MK::Enable(_) | MK::Disable(_)) {
            // the companion OtherRequest mark carries the sequence number
            if let Some(MK::OtherRequest(sq)) = marks.get(i + 1).map(|m| m.k.clone()) {
                if let Some(resp) = sol_log
                    .iter()
                    .find(|(o, ts, ss, _)| *ss == sq && *o > marks[i].ord && *ts == marks[i].t)
                {
                    marks[i].ord = resp.0;
                }
            }
        }
    }
    let marks = marks;
    let between = |lo: u64, hi: u64, f: &dyn Fn(&MK) -> bool| {
        marks.iter().any(|m| m.ord > lo && m.ord < hi && f(&m.k))
    };
    let reconnect_between = |lo: u64, hi: u64| between(lo, hi, &|k| *k == MK::Reconnect);
    let disable_between = |lo: u64, hi: u64| between(lo, hi, &|k| matches!(k, MK::Disable(_)));
    // the unsolicited response `tx` (index i) was confirmed while it was outstanding: a matching confirm sent
    // after it, before the next unsolicited transmission, within the confirm timeout, on the same connection
    let confirm_of = |i: usize| -> Option<&Mark> {
        let tx = &txs[i];
        let hi = txs.get(i + 1).map(|n| n.ord).unwrap_or(u64::MAX);
        marks.iter().find(|m| {
            m.ord > tx.ord
                && m.ord < hi
                && m.k == MK::Confirm(tx.seq)
                && m.t < tx.t + t_c
                && !reconnect_between(tx.ord, m.ord)
                && !disable_between(tx.ord, m.ord)
        })
    };

    // U1: until a null response has been confirmed only nulls, each with a fresh sequence
    let mut null_confirmed_ord: Option<u64> = None;
    for (i, tx) in txs.iter().enumerate() {
        if null_confirmed_ord.is_some() {
            break;
        }
        if !tx.null {
            viol("U1_data_before_null_confirmed", "data", format!("data-bearing unsolicited response seq={} at t={} before any null response was confirmed", tx.seq, tx.t));
            break;
        }
        if i > 0 && tx.seq != (txs[i - 1].seq + 1) & 15 {
            viol(
                "U1_null_sequence",
                "seq",
                format!(
                    "null unsolicited at t={} has sequence {} after {}",
                    tx.t,
                    tx.seq,
                    txs[i - 1].seq
                ),
            );
        } else if i > 0 {
            out::count("U1_fresh_null_sequence_ok", 1);
        }
        if let Some(m) = confirm_of(i) {
            null_confirmed_ord = Some(m.ord);
        }
    }
    if null_confirmed_ord.is_some() {
        out::count("null_confirmed_scenarios", 1);
    }
    // enabled classes just before order stamp `o`
    let enabled_before = |o: u64| -> [bool; 3] {
        let mut e = [false; 3];
        for m in marks.iter().filter(|m| m.ord < o) {
            match &m.k {
                MK::Enable(set) => (0..3).for_each(|k| e[k] |= set[k]),
                MK::Disable(set) => (0..3).for_each(|k| e[k] &= !set[k]),
                _ => {}
            }
        }
        e
    };
    // U2 / U6 (a response is built after the requests that precede it in order were processed, except that a
    // request retained while a series was being aborted may be processed just after: allow the enable that
    // immediately precedes... no: enables only ADD classes, so judging with everything before `ord` is exact
    // for U2; for U6 a DISABLE sent before the transmission but processed after it is excused)
    for tx in txs.iter().filter(|t| !t.null) {
        let e = enabled_before(tx.ord);
        for c in &tx.classes {
            let k = *c as usize - 1;
            if !e[k] {
                // was it enabled at any earlier point and the only disables since then are in the same instant?
                let disabled_same_instant = marks.iter().any(|m| {
                    m.ord < tx.ord && m.t == tx.t && matches!(&m.k, MK::Disable(set) if set[k])
                });
                let ever_enabled = marks
                    .iter()
                    .any(|m| m.ord < tx.ord && matches!(&m.k, MK::Enable(set) if set[k]));
                if disabled_same_instant && ever_enabled {
                    out::count("U6_same_instant_excused", 1);
                    continue;
                }
                viol(if ever_enabled { "U6_after_disable" } else { "U2_class_not_enabled" }, &format!("class{c}"), format!("unsolicited response at t={} carries a class {c} event although that class is not enabled", tx.t));
                break;
            }
        }
        out::count("U2_data_responses_checked", 1);
    }
    // U3 / U4 / U5 over consecutive transmissions
    let mut same_seq_count = 1usize;
    for i in 1..txs.len() {
        let (pa, pb) = (&txs[i - 1], &txs[i]);
        let recon = pa.epoch != pb.epoch || reconnect_between(pa.ord, pb.ord);
        if pb.seq == pa.seq && !recon && pb.bytes == pa.bytes {
            // retry
            same_seq_count += 1;
            if pa.null {
                viol(
                    "U1_null_retried",
                    "null",
                    format!(
                        "null unsolicited response seq={} re-sent with the same sequence",
                        pa.seq
                    ),
                );
            }
            if let Some(maxr) = cfg.max_unsol_retries {
                if same_seq_count > 1 + maxr {
                    viol("U4_too_many_retries", &format!("max{maxr}"), format!("{} transmissions of unsolicited seq={} with max_unsolicited_retries={maxr}", same_seq_count, pa.seq));
                }
            }
            if pb.t != pa.t + t_c {
                viol(
                    "U4_retry_timing",
                    "timing",
                    format!(
                        "retry at t={} but previous transmission at t={} and confirm timeout {t_c}",
                        pb.t, pa.t
                    ),
                );
            } else {
                out::count("U4_retry_ok", 1);
            }
            // a deferred read (the last request received during the wait is a READ) stops retries
            let last_req = marks
                .iter()
                .filter(|m| {
                    m.ord > pa.ord
                        && m.ord < pb.ord
                        && matches!(m.k, MK::Read(_, _) | MK::OtherRequest(_))
                })
                .last();
            if let Some(Mark {
                k: MK::Read(_, _), ..
            }) = last_req
            {
                viol(
                    "U7_retry_with_read_pending",
                    "retry",
                    format!(
                        "unsolicited retry at t={} although a READ was deferred",
                        pb.t
                    ),
                );
            }
            continue;
        }
        if pb.seq == pa.seq && !recon {
            viol(
                "U4_retry_not_identical",
                "bytes",
                format!(
                    "unsolicited response re-sent with sequence {} but different content at t={}",
                    pa.seq, pb.t
                ),
            );
            continue;
        }
        // a new series
        same_seq_count = 1;
        if pb.seq != (pa.seq + 1) & 15 {
            viol(
                "U_sequence",
                if recon {
                    "new-series-after-reconnect"
                } else {
                    "new-series"
                },
                format!(
                    "new unsolicited series has sequence {} after {}",
                    pb.seq, pa.seq
                ),
            );
        }
        if recon {
            out::count("new_series_after_reconnect", 1);
            continue;
        }
        if confirm_of(i - 1).is_some() {
            out::count("new_series_after_confirm", 1);
            continue;
        }
        if disable_between(pa.ord, pb.ord) {
            // DISABLE_UNSOLICITED cancels the series in progress (null series restart at once)
            out::count("new_series_after_disable", 1);
            continue;
        }
        // otherwise the previous one must have timed out first
        if pb.t < pa.t + t_c {
            viol("U3_two_outstanding", if pa.null { "null" } else { "data" }, format!("new unsolicited seq={} at t={} while seq={} (sent t={}) was neither confirmed nor timed out", pb.seq, pb.t, pa.seq, pa.t));
            continue;
        }
        if !pa.null {
            // U5: a failed data series is followed by the retry delay (measured from the give-up instant)
            let give_up = pa.t + t_c;
            if pb.t < give_up + d_r {
                viol("U5_retry_delay", "early", format!("new series at t={} but the previous series failed at t={give_up} and the retry delay is {d_r}", pb.t));
            } else {
                out::count("U5_retry_delay_ok", 1);
            }
        } else if pb.null && pb.t == pa.t + t_c {
            // (a later start is legitimate: the session may be busy, e.g. waiting for a solicited confirm)
            out::count("U1_null_regenerated_at_timeout", 1);
        }
    }
    // which unsolicited response (index) is outstanding just before order stamp `o`?
    let outstanding_before = |o: u64, t: u64| -> Option<usize> {
        let i = txs.iter().rposition(|x| x.ord < o)?;
        let x = &txs[i];
        if confirm_of(i).map(|m| m.ord < o).unwrap_or(false) {
            return None;
        }
        if reconnect_between(x.ord, o) || disable_between(x.ord, o) {
            return None;
        }
        if x.t + t_c <= t {
            return None; // timed out (a retry would be a later transmission)
        }
        Some(i)
    };
    // U7
    for m in &marks {
        match &m.k {
            MK::OtherRequest(s) => {
                let n = sol_log
                    .iter()
                    .filter(|(o, ts, ss, _)| ss == s && *o > m.ord && *ts == m.t)
                    .count();
                if n == 0 && !between(m.ord, u64::MAX, &|k| *k == MK::Reconnect && false) {
                    // unless the connection was replaced in the same instant right after
                    let killed = marks
                        .iter()
                        .any(|x| x.ord > m.ord && x.t == m.t && x.k == MK::Reconnect);
                    if !killed {
                        viol("U7_non_read_not_immediate", "non-read", format!("non-READ request seq={s} sent at t={} was not answered at that instant", m.t));
                    }
                } else {
                    out::count("U7_non_read_immediate_ok", 1);
                }
            }
            MK::Read(s, nstat) => {
                let out_i = outstanding_before(m.ord, m.t);
                // superseded: another request or a reconnect before it could be served
                // sequence numbers wrap after 16 requests: a response belongs to this READ only up to the next request that reuses its number
                let reuse = marks
                    .iter()
                    .filter(|k| {
                        k.ord > m.ord
                            && matches!(&k.k, MK::Read(s2, _) | MK::OtherRequest(s2) if s2 == s)
                    })
                    .map(|k| k.ord)
                    .min()
                    .unwrap_or(u64::MAX);
                let answers: Vec<(u64, u64)> = sol_log
                    .iter()
                    .filter(|(o, ts, ss, _)| {
                        ss == s && *o > m.ord && *o < reuse && *ts <= m.t + t_c
                    })
                    .map(|x| (x.0, x.1))
                    .collect();
                // content: the (first fragment of the) answer carries what THIS request selects
                if let Some(ans) = sol_log
                    .iter()
                    .find(|(o, ts, ss, _)| ss == s && *o > m.ord && *o < reuse && *ts <= m.t + t_c)
                {
                    if ans.3 != *nstat {
                        viol("U7_read_content", if out_i_is_some(&txs, m.ord) { "deferred" } else { "idle" }, format!("READ seq={s} at t={} selects {nstat} static objects but its response carries {}", m.t, ans.3));
                    } else {
                        out::count("U7_read_content_ok", 1);
                    }
                }
                let first_answer_ord = answers.first().map(|x| x.0).unwrap_or(u64::MAX);
                let superseded = marks.iter().any(|x| {
                    x.ord > m.ord
                        && x.ord < first_answer_ord
                        && x.t <= m.t + t_c
                        && matches!(x.k, MK::Read(_, _) | MK::OtherRequest(_) | MK::Reconnect)
                });
                match out_i {
                    Some(i) => {
                        // answered only after the series ended: after a confirm of it, a timeout, or a DISABLE
                        let x = &txs[i];
                        let ended_ord = marks
                            .iter()
                            .filter(|k| {
                                k.ord > m.ord
                                    && (k.k == MK::Confirm(x.seq) || matches!(k.k, MK::Disable(_)))
                            })
                            .map(|k| k.ord)
                            .next()
                            .unwrap_or(u64::MAX);
                        if let Some((ao, at)) = answers.first() {
                            if *ao < ended_ord && *at < x.t + t_c {
                                viol("U7_read_answered_during_wait", "during", format!("READ seq={s} sent at t={} during an unsolicited confirm wait was answered at t={at}, before the series ended", m.t));
                            } else if answers.len() > 1 {
                                viol(
                                    "U7_deferred_read_answered_twice",
                                    "twice",
                                    format!(
                                        "READ seq={s} deferred at t={} answered {} times",
                                        m.t,
                                        answers.len()
                                    ),
                                );
                            } else {
                                out::count("U7_deferred_read_served_ok", 1);
                            }
                        } else if !superseded {
                            viol("U7_deferred_read_dropped", "dropped", format!("READ seq={s} deferred at t={} was never answered (within one confirm timeout)", m.t));
                        } else {
                            out::count("U7_deferred_read_superseded", 1);
                        }
                    }
                    None => {
                        if answers.is_empty() && !superseded {
                            viol("U7_read_not_answered", "idle", format!("READ seq={s} sent at t={} with no unsolicited response outstanding was not answered", m.t));
                        } else {
                            out::count("U7_read_idle_ok", 1);
                        }
                    }
                }
            }
            _ => {}
        }
    }
    // U8: bounded progress after an update in the ready state
    if let Some(no) = null_confirmed_ord {
        for (mi, m) in marks.iter().enumerate() {
            if let MK::Update(c) = &m.k {
                if m.ord < no {
                    continue;
                }
                if !enabled_before(m.ord)[*c as usize - 1] {
                    continue;
                }
                // ready: the last transmission was confirmed (or there was none since), no failed series recently
                let last = txs.iter().rposition(|x| x.ord < m.ord);
                let ready = match last {
                    None => true,
                    Some(i) => {
                        confirm_of(i).map(|k| k.ord < m.ord).unwrap_or(false)
                            && !reconnect_between(txs[i].ord, m.ord)
                    }
                };
                // the session may be waiting for the confirmation of a solicited response
                let in_sol_wait = sol_con.iter().any(|(o, t)| *o < m.ord && *t + t_c > m.t);
                if !ready || in_sol_wait {
                    continue;
                }
                // nothing else in the same instant that could occupy the session (requests, reconnects)
                let quiet = !marks.iter().enumerate().any(|(j, x)| {
                    j != mi && x.t == m.t && !matches!(x.k, MK::Update(_) | MK::Confirm(_))
                });
                if !quiet {
                    continue;
                }
                let next_ord = marks.get(mi + 1).map(|x| x.ord).unwrap_or(u64::MAX);
                if txs.iter().any(|x| x.ord > m.ord && x.t == m.t && !x.null) {
                    out::count("U8_prompt_unsolicited_ok", 1);
                } else {
                    let _ = next_ord;
                    viol("U8_no_progress", &format!("class{c}"), format!("update of an enabled class {c} point at t={} in the ready state produced no unsolicited response at that instant", m.t));
                }
            }
        }
    }
    let null_confirmed_t = null_confirmed_ord;
    out::distinct(&format!(
        "retries{:?}/T{t_c}/D{d_r}/txs{}/nullconf{}",
        cfg.max_unsol_retries,
        txs.len().min(8),
        null_confirmed_t.is_some()
    ));
    for p in crate::verif::util::take_panics() {
        viol(
            "panic",
            &crate::verif::util::norm_location(&p.location),
            format!("panic {} at {}", p.message, p.location),
        );
    }
    if a.replay.is_some() {
        for h in &hist {
            eprintln!("HIST {h}");
        }
    }
    if out::sample_count() < 2 && txs.len() > 3 {
        out::sample(J::obj(vec![
            ("config", cfg.to_json()),
            ("history", J::arr(hist.iter().cloned())),
        ]));
    }
}

pub fn run(a: &ShardArgs) -> Result<(), String> {
    let only: Option<u64> = a
        .replay
        .as_ref()
        .and_then(|p| super::common::replay_scenario(p));
    let n = a.n(8000);
    for idx in 0..n {
        if idx % a.nshards != a.shard {
            continue;
        }
        if let Some(o) = only {
            if o != idx {
                continue;
            }
        }
        out::progress(&format!("scenario {idx}"));
        run_scenario(scenario(a, idx));
    }
    Ok(())
}
