//! C01, master role: hostile bytes / fragments injected into a live master session in
//! every protocol state, then liveness probes in virtual time while the peer keeps chattering.

use crate::verif::checks::c01::hostile_fragment;
use crate::verif::checks::common::*;
use crate::verif::out::{self, J};
use crate::verif::refcodec::app as ra;
use crate::verif::refcodec::link as rl;
use crate::verif::refcodec::transport as rt;
use crate::verif::rng::Rng;
use crate::verif::sim::master::*;
use crate::verif::sim::*;
use crate::verif::util::{hex, norm_location, take_panics};
use crate::verif::ShardArgs;

const P: &str = "C01";
const OUT: u16 = 1024;
pub const MASTER_SCENARIO_BASE: u64 = 1_000_000;

fn replay_j(a: &ShardArgs, idx: u64) -> J {
    J::obj(vec![
        ("check", J::s("c01")),
        ("seed", J::U(a.seed)),
        ("shard", J::U(a.shard)),
        ("nshards", J::U(a.nshards)),
        ("scenario", J::U(MASTER_SCENARIO_BASE + idx)),
    ])
}

fn panics(a: &ShardArgs, idx: u64, hist: &[String]) -> bool {
    let ps = take_panics();
    let mut any = false;
    for p in ps {
        if p.message.starts_with("verif: spin") {
            out::violation(
                P,
                "C01.spin",
                "master",
                J::obj(vec![
                    ("why", J::s(p.message.clone())),
                    ("history", J::arr(hist.iter().rev().take(16).rev().cloned())),
                ]),
                replay_j(a, idx),
            );
        } else {
            out::violation(
                P,
                "C01.panic",
                &norm_location(&p.location),
                J::obj(vec![
                    ("message", J::s(p.message.clone())),
                    ("location", J::s(p.location.clone())),
                    ("context", J::s("master session")),
                    ("history", J::arr(hist.iter().rev().take(16).rev().cloned())),
                ]),
                replay_j(a, idx),
            );
        }
        any = true;
    }
    any
}

/// a response-shaped hostile fragment; `seq` is the sequence number of the request that is outstanding (if any)
fn hostile_response(r: &mut Rng, max: usize, seq: Option<u8>) -> Vec<u8> {
    if r.chance(1, 8) {
        // file objects: any variation, count and length octets right or wrong, random inner bytes
        let inner = r.range(0, 40) as usize;
        let mut f = vec![
            0xC0 | seq.unwrap_or(0),
            ra::F_RESPONSE,
            0,
            0,
            70,
            *r.pick(&[2u8, 3, 4, 5, 6, 7, 8, 1, 9]),
            0x5B,
            *r.pick(&[1u8, 1, 1, 0, 2]),
        ];
        let declared = match r.below(4) {
            0 => r.u16(),
            1 => inner as u16 + 1,
            _ => inner as u16,
        };
        f.extend_from_slice(&declared.to_le_bytes());
        f.extend(r.bytes(inner));
        if r.chance(1, 3) {
            // a plausible start of a status / transport object
            let n = f.len().min(10 + 9);
            for (i, b) in [0x0Du8, 0x0C, 0x0B, 0x0A, 0, 0, 0, 0x80].iter().enumerate() {
                if 10 + i < n {
                    f[10 + i] = *b;
                }
            }
        }
        f.truncate(max.max(4));
        return f;
    }
    let mut f = hostile_fragment(r, max);
    for _ in 0..6 {
        if f.len() >= 2 && (f[1] == ra::F_RESPONSE || f[1] == ra::F_UNSOL_RESPONSE) {
            break;
        }
        f = hostile_fragment(r, max);
    }
    if let Some(s) = seq {
        if r.chance(2, 3) && !f.is_empty() {
            f[0] = (f[0] & 0xF0) | (s & 15);
        }
    }
    f
}

async fn scenario(a: &ShardArgs, idx: u64) {
    let mut r = a.rng(&format!("c01/master/{idx}"));
    let mut mc = MasterCfg::default();
    mc.tx = *r.pick(&[249usize, 292, 2048]);
    mc.rx = *r.pick(&[2048usize, 4096]);
    mc.decode = r.usize_below(108);
    mc.discard = r.bool();
    let t_r = *r.pick(&[100u64, 1000]);
    let full = r.bool();
    let mut ac = if full {
        AssocCfg::default_like(OUT)
    } else {
        AssocCfg::quiet(OUT)
    };
    ac.response_timeout_ms = t_r;
    ac.retry_min_ms = 200;
    ac.retry_max_ms = 400;
    ac.keep_alive_ms = if r.chance(1, 3) { Some(700) } else { None };
    if full {
        ac.auto_time_sync = *r.pick(&[None, Some(0u8), Some(1), Some(2)]);
        ac.event_scan = [r.bool(), r.bool(), r.bool()];
    }
    let mut sim = MasterSim::start(mc.clone(), &[ac.clone()]).await;
    let mut hist: Vec<String> = vec![format!("{mc:?} {ac:?}")];
    let viol = |rule: &str, sig: &str, why: String, hist: &Vec<String>| {
        out::violation(
            P,
            &format!("C01.{rule}"),
            sig,
            J::obj(vec![
                ("why", J::s(why)),
                ("history", J::arr(hist.iter().rev().take(20).rev().cloned())),
            ]),
            replay_j(a, idx),
        );
    };
    // ---- answer faithfully for a while to reach a state
    let mut last_seq: Option<u8> = None;
    let serve =
        |sim: &mut MasterSim, last_seq: &mut Option<u8>, answer: bool, multi: bool| -> usize {
            let mut n = 0;
            for x in sim.collect() {
                match x {
                    Rx::Fragment { bytes, .. }
                        if !(bytes.len() == 2 && bytes[1] == ra::F_CONFIRM) =>
                    {
                        n += 1;
                        let seq = bytes[0] & 15;
                        *last_seq = Some(seq);
                        if answer {
                            let rsp = match bytes[1] {
                                ra::F_READ if multi => {
                                    ra::B::response(ra::FIR | ra::CON | seq, false, 0, 0)
                                        .range8(30, 1, 0, 0, &[1, 7, 0, 0, 0])
                                        .done()
                                }
                                ra::F_READ => ra::B::response(ra::FIR | ra::FIN | seq, false, 0, 0)
                                    .range8(30, 1, 0, 0, &[1, 7, 0, 0, 0])
                                    .done(),
                                ra::F_DELAY_MEASURE => {
                                    ra::B::response(ra::FIR | ra::FIN | seq, false, 0, 0)
                                        .count8(52, 2, 1, &[0, 0])
                                        .done()
                                }
                                ra::F_SELECT | ra::F_OPERATE | ra::F_DIRECT_OPERATE => {
                                    ra::B::response(ra::FIR | ra::FIN | seq, false, 0, 0)
                                        .raw(&bytes[2..])
                                        .done()
                                }
                                _ => ra::B::response(ra::FIR | ra::FIN | seq, false, 0, 0).done(),
                            };
                            sim.send_from(OUT, &rsp);
                        }
                    }
                    Rx::Link { frame, .. } if frame.ctrl & 0x4F == rl::F_REQUEST_LINK_STATUS => {
                        n += 1;
                        if answer {
                            sim.send_link(OUT, rl::F_LINK_STATUS);
                        }
                    }
                    _ => {}
                }
            }
            n
        };
    let state = match r.below(7) {
        0 => {
            // start-up completed, idle
            for _ in 0..12 {
                if serve(&mut sim, &mut last_seq, true, false) == 0 {
                    break;
                }
                settle().await;
            }
            last_seq = None;
            "idle"
        }
        1 => {
            // first automatic / keep-alive request outstanding
            let n = r.below(3);
            for _ in 0..n {
                serve(&mut sim, &mut last_seq, true, false);
                settle().await;
            }
            serve(&mut sim, &mut last_seq, false, false);
            "auto-task-awaiting-reply"
        }
        2 => {
            for _ in 0..12 {
                if serve(&mut sim, &mut last_seq, true, false) == 0 {
                    break;
                }
                settle().await;
            }
            sim.submit(0, UserReq::ReadClasses([true, true, true, true]));
            settle().await;
            serve(&mut sim, &mut last_seq, false, false);
            "user-read-awaiting-reply"
        }
        3 => {
            for _ in 0..12 {
                if serve(&mut sim, &mut last_seq, true, false) == 0 {
                    break;
                }
                settle().await;
            }
            sim.submit(0, UserReq::ReadClasses([true, true, true, true]));
            settle().await;
            // first fragment of a series answered (FIR, not FIN, CON): the master is in the middle of a multi-fragment response
            serve(&mut sim, &mut last_seq, true, true);
            settle().await;
            let _ = sim.collect();
            last_seq = last_seq.map(|s| (s + 1) & 15);
            "mid-multi-fragment-response"
        }
        4 => {
            for _ in 0..12 {
                if serve(&mut sim, &mut last_seq, true, false) == 0 {
                    break;
                }
                settle().await;
            }
            let objs = vec![(
                r.below(5) as u8,
                r.below(20) as u16,
                r.bool(),
                r.below(1000) as u32,
            )];
            sim.submit(0, UserReq::Command(true, objs));
            settle().await;
            if r.bool() {
                // SELECT answered: OPERATE outstanding
                serve(&mut sim, &mut last_seq, true, false);
                settle().await;
            }
            serve(&mut sim, &mut last_seq, false, false);
            "command-awaiting-reply"
        }
        6 => {
            for _ in 0..12 {
                if serve(&mut sim, &mut last_seq, true, false) == 0 {
                    break;
                }
                settle().await;
            }
            // a file transfer: OPEN outstanding, or OPEN answered and the first block outstanding
            sim.submit(
                0,
                if r.bool() {
                    UserReq::ReadFile(64)
                } else {
                    UserReq::GetFileInfo
                },
            );
            settle().await;
            if r.bool() {
                for x in sim.collect() {
                    if let Rx::Fragment { bytes, .. } = x {
                        if bytes.len() > 2 && bytes[1] == 25 {
                            let mut o = vec![];
                            o.extend_from_slice(&0x0A0B0C0Du32.to_le_bytes());
                            o.extend_from_slice(&1000u32.to_le_bytes());
                            o.extend_from_slice(&64u16.to_le_bytes());
                            o.extend_from_slice(&0u16.to_le_bytes());
                            o.push(0);
                            let mut b = vec![70, 4, 0x5B, 1];
                            b.extend_from_slice(&(o.len() as u16).to_le_bytes());
                            b.extend(o);
                            sim.send_from(
                                OUT,
                                &ra::B::response(ra::FIR | ra::FIN | (bytes[0] & 15), false, 0, 0)
                                    .raw(&b)
                                    .done(),
                            );
                            settle().await;
                        }
                    }
                }
            }
            serve(&mut sim, &mut last_seq, false, false);
            "file-step-awaiting-reply"
        }
        _ => {
            for _ in 0..12 {
                if serve(&mut sim, &mut last_seq, true, false) == 0 {
                    break;
                }
                settle().await;
            }
            sim.submit(
                0,
                r.pick(&[
                    UserReq::TimeSync(0),
                    UserReq::TimeSync(1),
                    UserReq::LinkStatus,
                    UserReq::ColdRestart,
                    UserReq::WriteDeadBands(vec![(1, 2)]),
                ])
                .clone(),
            );
            settle().await;
            serve(&mut sim, &mut last_seq, false, false);
            "non-read-task-awaiting-reply"
        }
    };
    hist.push(format!("state {state} (outstanding seq {last_seq:?})"));
    let n_items = r.range(1, 6);
    for _ in 0..n_items {
        if sim.task_finished() {
            break;
        }
        let kind = r.below(10);
        let label;
        let mut framing_error = false;
        if kind < 3 {
            let mut bytes = vec![];
            match r.below(4) {
                0 => {
                    let n = r.range(1, 600) as usize;
                    bytes = r.bytes(n);
                }
                1 => {
                    let body = hostile_response(&mut r, 200, last_seq);
                    let mut seg = vec![0xC0 | (r.u8() & 0x3F)];
                    seg.extend(body);
                    let mut fr =
                        rl::Frame::new(0x44, mc.master_addr, OUT, &seg[..seg.len().min(250)])
                            .encode();
                    let k = r.usize_below(fr.len());
                    fr[k] ^= 1 << r.below(8);
                    bytes = fr;
                }
                2 => {
                    for _ in 0..r.range(1, 6) {
                        let len = *r.pick(&[0usize, 1, 5, 250]);
                        bytes.extend(
                            rl::Frame::new(
                                r.u8(),
                                *r.pick(&[mc.master_addr, 0xFFFF, 0xFFFC, 3]),
                                *r.pick(&[OUT, 0xFFFF, 0xFFFC, 7]),
                                &r.bytes(len),
                            )
                            .encode(),
                        );
                    }
                }
                _ => {
                    let nseg = r.range(1, 12);
                    for _ in 0..nseg {
                        let mut seg = vec![rt::header(r.chance(1, 3), r.chance(1, 3), r.u8())];
                        let n = *r.pick(&[0usize, 1, 249]);
                        seg.extend(r.bytes(n));
                        bytes.extend(rl::Frame::new(0x44, mc.master_addr, OUT, &seg).encode());
                    }
                }
            }
            framing_error = rl::scan_close(&bytes).error.is_some();
            let (cname, chunks) = chunking(&mut r, &bytes);
            label = format!("bytes/{cname}/{}B", bytes.len());
            for c in &chunks {
                sim.pipe.push(c);
            }
        } else {
            let max = if r.chance(1, 4) {
                mc.rx
            } else {
                *r.pick(&[30usize, 249, 600])
            };
            let frag = hostile_response(&mut r, max, last_seq);
            let src = if r.chance(1, 8) { 7 } else { OUT };
            let dest = if r.chance(1, 10) {
                0xFFFD + r.below(3) as u16
            } else {
                mc.master_addr
            };
            label = format!(
                "fragment/f{}/{}B {}",
                frag.get(1).copied().unwrap_or(0),
                frag.len(),
                hex(&frag[..frag.len().min(24)])
            );
            let mut tseq = sim.tseq;
            let bytes = encode_fragment(false, dest, src, &frag, &mut tseq);
            sim.tseq = tseq;
            let (_, chunks) = chunking(&mut r, &bytes);
            for c in &chunks {
                sim.pipe.push(c);
            }
        }
        hist.push(format!("t={} [{state}] {label}", sim.now()));
        out::eval(1);
        let ex0 = settle_exhausted();
        settle().await;
        if settle_exhausted() > ex0 {
            viol(
                "spin",
                state,
                "master did not become quiescent".into(),
                &hist,
            );
            break;
        }
        sim.advance(r.range(0, 60)).await;
        // keep the conversation going a little: answer what the master asks now (it may be a retry)
        if r.bool() {
            serve(&mut sim, &mut last_seq, r.bool(), false);
            settle().await;
        } else {
            let _ = sim.collect();
        }
        out::distinct(&format!(
            "master/{state}/{}/{}",
            label.split('/').take(2).collect::<Vec<_>>().join("/"),
            if mc.discard { "discard" } else { "close" }
        ));
        if panics(a, idx, &hist) {
            break;
        }
        if sim.pipe.dropped() {
            if mc.discard && !sim.task_finished() {
                viol(
                    "session_ended_in_discard_mode",
                    state,
                    "the master session ended although the link error mode is Discard".into(),
                    &hist,
                );
            }
            out::count(
                if framing_error {
                    "master_close_mode_session_ended_on_framing_error"
                } else {
                    "master_session_ended"
                },
                1,
            );
            sim.connect().await;
            let _ = sim.collect();
            last_seq = None;
            hist.push("(session had ended: new connection)".into());
        } else if framing_error && !mc.discard {
            viol(
                "close_mode_no_error",
                state,
                "framing error in Close mode did not end the master session".into(),
                &hist,
            );
        }
    }
    if sim.task_finished() {
        panics(a, idx, &hist);
        viol("task_ended", state, "the master task ended".into(), &hist);
        return;
    }
    // ---------------- liveness probe: a user READ must reach the wire and complete, although the peer never answers
    // anything else and keeps sending ignorable traffic more often than the response timeout
    let mut flush = vec![0u8; 0];
    for _ in 0..2 {
        flush.extend(rl::Frame::new(0x44, 2, 3, &[0x55; 250]).encode());
    }
    sim.pipe.push(&flush);
    settle().await;
    if sim.pipe.dropped() {
        sim.connect().await;
    }
    let _ = sim.collect();
    let probe_id = sim.submit(0, UserReq::ReadRange16(30, 2, 7777, 7777));
    settle().await;
    let chatter_kind = r.below(4);
    let mut unsol_seq = r.below(16) as u8;
    // every outstanding or queued task ends after at most one response timeout each; start-up has at most 6 of them, retries are delayed
    let bound = 14 * t_r + 6 * ac.retry_max_ms + 3000;
    let t0 = sim.now();
    let mut probe_sent_at: Option<u64> = None;
    let mut done = false;
    while sim.now() - t0 < bound {
        for x in sim.collect() {
            if let Rx::Fragment { bytes, t_ms, .. } = x {
                if !(bytes.len() == 2 && bytes[1] == ra::F_CONFIRM) {
                    last_seq = Some(bytes[0] & 15);
                }
                if bytes.len() >= 9
                    && bytes[1] == ra::F_READ
                    && bytes[2] == 30
                    && bytes[3] == 2
                    && bytes[5] == 0x61
                    && bytes[6] == 0x1E
                {
                    probe_sent_at = Some(t_ms);
                    sim.send_from(
                        OUT,
                        &ra::B::response(ra::FIR | ra::FIN | (bytes[0] & 15), false, 0, 0).done(),
                    );
                    settle().await;
                }
            }
        }
        if let Some((_, _, _, text)) = sim.result_of(probe_id) {
            hist.push(format!("probe result {text}"));
            done = true;
            if probe_sent_at.is_some() && !text.starts_with("Ok") {
                viol(
                    "probe_failed",
                    state,
                    format!("the probe READ was answered but read() returned {text}"),
                    &hist,
                );
            }
            break;
        }
        // ignorable chatter, more often than the response timeout
        match chatter_kind {
            0 => {}
            1 => {
                unsol_seq = (unsol_seq + 1) & 15;
                sim.send_from(
                    OUT,
                    &ra::B::response(ra::FIR | ra::FIN | ra::UNS | unsol_seq, true, 0, 0).done(),
                );
            }
            2 => sim.send_link(OUT, rl::F_LINK_STATUS),
            _ => {
                // a solicited response that never matches the outstanding sequence number
                let s = last_seq.map(|s| (s + 8) & 15).unwrap_or(3);
                sim.send_from(
                    OUT,
                    &ra::B::response(ra::FIR | ra::FIN | s, false, 0, 0).done(),
                );
            }
        }
        settle().await;
        if sim.pipe.dropped() {
            sim.connect().await;
        }
        sim.advance((t_r / 3).max(10)).await;
        // remember the sequence number of whatever is outstanding so that chatter kind 3 never matches it
        // (collect happens at the top of the loop)
    }
    if !done {
        if probe_sent_at.is_none() {
            viol("wedged_master", &format!("{state}/chatter{chatter_kind}"), format!("a user READ submitted after the hostile input was not sent within {bound} virtual ms while the peer kept sending ignorable traffic"), &hist);
        } else {
            viol(
                "probe_unresolved",
                state,
                "the probe READ was sent and answered but read() never returned".into(),
                &hist,
            );
        }
    } else {
        out::count("master_probe_read_ok", 1);
        out::count(&format!("master_probe_ok_chatter{chatter_kind}"), 1);
    }
    panics(a, idx, &hist);
    if a.replay.is_some() {
        for l in crate::verif::trace::tail(80) {
            eprintln!("TRACE {l}");
        }
        for h in &hist {
            eprintln!("HIST {h}");
        }
    }
}

pub fn run(a: &ShardArgs, only: Option<u64>) -> Result<(), String> {
    let n = a.n(6000);
    for idx in 0..n {
        if idx % a.nshards != a.shard {
            continue;
        }
        if let Some(o) = only {
            if o != MASTER_SCENARIO_BASE + idx {
                continue;
            }
        }
        out::progress(&format!("master scenario {idx}"));
        run_scenario(scenario(a, idx));
    }
    Ok(())
}
