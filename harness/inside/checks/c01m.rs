//! C01, master role (filled in with the master simulator)
use crate::verif::ShardArgs;

pub fn run(_a: &ShardArgs, _only: Option<u64>) -> Result<(), String> {
    Ok(())
}
